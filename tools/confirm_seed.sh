#!/bin/sh
# confirm_seed.sh <id> : independently confirm a seeded change produced in /tmp/seed/<id> (worktree) with
# deliverables in /tmp/seed/out/<id>: (1) suite passes with the change, (2) demo fails with it, (3) demo passes without.
# Then store it as /verif/seeded/<id>/ (patch.diff, demo, notes, meta.json is written by the caller).
id=$1; d=/tmp/seed/$id; o=/tmp/seed/out/$id
set -e
cd $d
git diff -- . ':!programs/igzip.1' > $o/patch.check.diff
[ -s $o/patch.check.diff ] || { echo "no change applied in worktree"; exit 1; }
build_demo() {
  if [ -f $o/run_demo.sh ]; then return 0; fi
  gcc -O1 -w -I$d/include -I$d/igzip $o/demo.c $d/.libs/libisal.a -o $o/demo.bin -lpthread
}
run_demo() { if [ -f $o/run_demo.sh ]; then sh $o/run_demo.sh; else $o/demo.bin; fi; }
echo "== 1. suite WITH the change"; /tmp/seedtools/run_suite_in.sh $d
echo "== 2. demo WITH the change (must fail)"; build_demo; if run_demo > $o/demo.with.log 2>&1; then echo "DEMO PASSED WITH CHANGE (bad)"; r2=bad; else echo "demo failed as required: $(tail -1 $o/demo.with.log | cut -c1-150)"; r2=ok; fi
echo "== 3. demo WITHOUT the change (must pass)"; git checkout -q -- programs/igzip.1 2>/dev/null || true; git apply -R $o/patch.check.diff; find . -name '*.asm' | xargs touch; make -j8 > /dev/null 2>&1; build_demo; if run_demo > $o/demo.without.log 2>&1; then echo "demo passed as required: $(tail -1 $o/demo.without.log | cut -c1-150)"; r3=ok; else echo "DEMO FAILED WITHOUT CHANGE (bad)"; r3=bad; fi
git checkout -q -- programs/igzip.1 2>/dev/null || true; git apply $o/patch.check.diff; find . -name '*.asm' | xargs touch; make -j8 > /dev/null 2>&1
[ $r2 = ok ] && [ $r3 = ok ] && echo "CONFIRMED $id" || { echo "NOT CONFIRMED $id"; exit 1; }
