"""CRCINV: the seed / result inversion convention of every CRC implementation.
asm: parity of NOT applied to the init argument before its first use, and parity of NOT applied to rax after its last definition
before each ret (two small forward dataflows); C: xor with -1 of the seed parameter / of the returned value.  All implementations of
one entry point (portable C and every asm variant the dispatcher can select) must share one convention."""
import re
from common import AnalysisBroken
from asmdb import REG64, is_mem
import regdef


def asm_convention(u, f, initreg):
    """-> (set of parities seen at uses of the init value, set of parities of rax at ret)"""
    IN = {f.entry: {initreg: 0}}
    work = [f.entry]
    uses = set()
    while work:
        a = work.pop()
        al = dict(IN[a])
        i = u.insns[a]
        ops = i.ops
        d = REG64.get(ops[0]) if ops and not is_mem(ops[0]) else None
        if i.mn == 'not' and d and d[0] in al:
            al[d[0]] ^= 1
        elif i.mn == 'mov' and d and len(ops) == 2 and ops[1] in REG64 and REG64[ops[1]][0] in al:
            al[d[0]] = al[REG64[ops[1]][0]]
        else:
            us, defs = regdef.def_use(i)
            for r in list(al):
                if r in us and i.mn != 'push':
                    uses.add(al[r])
            for r in defs:
                al.pop(r, None)
        for n in u.succ(f, a):
            if n not in IN:
                IN[n] = al
                work.append(n)
            elif IN[n] != al:
                merged = {r: v for r, v in IN[n].items() if al.get(r) == v}
                if merged != IN[n]:
                    IN[n] = merged
                    work.append(n)
    IN2 = {f.entry: '?'}
    work = [f.entry]
    rets = set()
    while work:
        a = work.pop()
        st = IN2[a]
        i = u.insns[a]
        if i.mn == 'ret':
            rets.add(st)
        _, defs = regdef.def_use(i)
        if i.mn == 'not' and i.ops and i.ops[0] in REG64 and REG64[i.ops[0]][0] == 'rax':
            st = st ^ 1 if st in (0, 1) else st
        elif 'rax' in defs and i.mn not in ('cmp', 'test'):
            st = 0
        for n in u.succ(f, a):
            if n not in IN2:
                IN2[n] = st
                work.append(n)
            elif IN2[n] != st and IN2[n] != 'X':
                IN2[n] = 'X'
                work.append(n)
    return uses, rets


def c_convention(f, seedidx, strip):
    seed = f.params[seedidx][1]
    inv_in = any(i.op == 'xor' and '-1' in i.ops and strip(f, [o for o in i.ops if o != '-1'][0]) == seed for i in f.all_insns())
    outs = set()
    for r in [i for i in f.all_insns() if i.op == 'ret']:
        d = f.defs.get(strip(f, r.ops[0]))
        outs.add(int(bool(d is not None and d.op == 'xor' and '-1' in d.ops)))
    return {int(inv_in)}, outs
