"""G-EC-LAYOUT: the writer and the readers of the expanded coefficient tables agree on the layout.  ec_init_tables writes the 32-byte
table of coefficient a[row*k + col] at g_tbls + 32*(row*k + col); every portable consumer must read the coefficient of (row, col)
at exactly that offset (+1: the entry holding c*1), pair it with source col / destination row, and cover rows x len.  Addresses are
closed forms from LLVM scalar evolution (tools/scev.py), compared as polynomials."""
import re
from common import AnalysisBroken
import scev
from scev import padd, pmul, pvar, pconst, canon, pfmt


def base_name(n):
    return re.sub(r'\.\d+$', '', n or '')


def loads_of(F, v, depth=0):
    """the loads a value is computed from, through casts / gf_mul / xor / phi"""
    d = F.f.defs.get(v)
    if d is None or depth > 10:
        return []
    if d.op == 'load':
        return [d]
    out = []
    if d.op in ('zext', 'sext', 'trunc', 'xor', 'freeze'):
        for o in d.ops:
            out += loads_of(F, o, depth + 1)
    elif d.op == 'call' and base_name(d.callee) == 'gf_mul':
        for _, a in d.args:
            out += loads_of(F, a, depth + 1)
    elif d.op == 'phi':
        for x, _ in d.extra['incoming']:
            if x != v:
                out += loads_of(F, x, depth + 1)
    return out


def describe(F, ld):
    b, ix = F.addr(ld.ops[0])
    if b is not None and b not in F.params:
        # element of a pointer loaded from an array of pointers
        pd = F.f.defs.get(b)
        pb, pix = F.addr(pd.ops[0])
        return ('elem', pb, canon(pix), canon(ix))
    return ('flat', b, canon(ix))


def check_writer(rep, A, R):
    F = scev.Forms(A, 'ec_init_tables_base', [('smax', '0', '%k', 1), ('smax', '0', '%rows', 1)])
    calls = [i for i in F.f.all_insns() if i.op == 'call' and base_name(i.callee) == 'gf_vect_mul_init']
    if len(calls) != 1:
        raise AnalysisBroken('ec_init_tables_base: expected one call of gf_vect_mul_init')
    c = calls[0]
    R.instance()
    inner = F.loop_of(c.block)
    outer = [h for h, L in F.loops.items() if inner in L and h != inner]
    if not inner or len(outer) != 1:
        raise AnalysisBroken('ec_init_tables_base: loop nest not recognised')
    row, col, k = pvar('n%' + outer[0]), pvar('n%' + inner), pvar('%k')
    cell = padd(pmul(k, row), col)
    cd = F.f.defs.get(c.args[0][1])
    while cd is not None and cd.op in ('zext', 'sext', 'trunc'):
        cd = F.f.defs.get(cd.ops[0])
    ok = False
    got = '?'
    if cd is not None and cd.op == 'load':
        ab, aix = F.addr(cd.ops[0])
        tb, tix = F.addr(c.args[1][1])
        got = 'coefficient %s[%s] -> table at %s + %s' % (ab, pfmt(aix), tb, pfmt(tix))
        ok = ab == '%a' and tb == '%g_tbls' and canon(aix) == canon(cell) and canon(tix) == canon(pmul(pconst(32), cell)) and \
            canon(F.count(outer[0]) or {}) == canon(pvar('%rows')) and canon(F.count(inner) or {}) == canon(k)
    R.check(ok, F.mod.where(F.f, c), 'ec_init_tables_base: %s; the documented layout is: coefficient a[row*k + col] expands to the 32 bytes at g_tbls + 32*(row*k + col), rows x k entries' % got,
            key='G-EC-LAYOUT|writer', sample='ec_init_tables_base: a[k*r + c] -> g_tbls + 32*(k*r + c)')


READERS = {
    # function: (assumptions, k (columns per row) as polynomial text or None, row var source, col var source)
    'ec_encode_data_base': dict(assume=[('smax', '0', '%srcs', 1), ('smax', '0', '%len', 1), ('smax', '0', '%dests', 1)], k='%srcs', rows='%dests', cols='%srcs', n='%len', tbl='%v', src='%src', dest='%dest'),
    'ec_encode_data_update_base': dict(assume=[('smax', '0', '%len', 1), ('smax', '0', '%rows', 1)], k='%k', rows='%rows', cols=None, col='%vec_i', n='%len', tbl='%v', src='%data', dest='%dest'),
    'gf_vect_dot_prod_base': dict(assume=[('smax', '0', '%vlen', 1), ('smax', '0', '%len', 1)], k=None, rows=None, cols='%vlen', n='%len', tbl='%v', src='%src', dest='%dest'),
    'gf_vect_mad_base': dict(assume=[('smax', '0', '%len', 1)], k=None, rows=None, cols=None, col='%vec_i', n='%len', tbl='%v', src='%src', dest='%dest'),
}


def check_reader(rep, A, R, fn):
    spec = READERS[fn]
    F = scev.Forms(A, fn, spec['assume'])
    f = F.f
    stores = [i for i in f.all_insns() if i.op == 'store']
    if len(stores) != 1:
        raise AnalysisBroken('%s: expected one store, found %d' % (fn, len(stores)))
    st = stores[0]
    R.instance()
    # loops: identify by trip count
    byc = {}
    for h in F.loops:
        c = F.count(h)
        if c is not None:
            byc[canon(c)] = h
    def lv(name):
        h = byc.get(canon(pvar(name))) if name else None
        return pvar('n%' + h) if h else None
    i_ = lv(spec['n'])
    row = lv(spec['rows'])
    col = lv(spec['cols']) if spec.get('cols') else (pvar(spec['col']) if spec.get('col') else None)
    problems = []
    if i_ is None:
        problems.append('no loop over len')
    if spec['rows'] and row is None:
        problems.append('no loop over the %s destination rows' % spec['rows'])
    if spec.get('cols') and col is None:
        problems.append('no loop over the %s sources' % spec['cols'])
    if not problems:
        # destination
        dsc = F.addr(st.ops[1])
        if dsc[0] is not None and dsc[0] not in F.params:
            pd = f.defs.get(dsc[0])
            pb, pix = F.addr(pd.ops[0])
            dest = ('elem', pb, canon(pix), canon(dsc[1]))
        else:
            dest = ('flat', dsc[0], canon(dsc[1]))
        want_dest = ('elem', spec['dest'], canon(pmul(pconst(8), row)), canon(i_)) if row is not None else ('flat', spec['dest'], canon(i_))
        if dest != want_dest:
            problems.append('the result is stored to %s, expected %s' % (dest, want_dest))
        lds = [describe(F, l) for l in loads_of(F, st.ops[0])]
        # coefficient
        cell = col if col is not None else {}
        if spec['k'] and row is not None:
            cell = padd(pmul(pvar(spec['k']), row), cell)
        want_tbl = ('flat', spec['tbl'], canon(padd(pmul(pconst(32), cell), pconst(1))))
        if want_tbl not in lds:
            problems.append('the coefficient is read from %s, the table layout puts c*1 of (row, col) at %s[%s]' % ([x for x in lds if x[1] == spec['tbl']], spec['tbl'], pfmt(dict(want_tbl[2]))))
        # source
        want_src = ('elem', spec['src'], canon(pmul(pconst(8), col)), canon(i_)) if spec.get('cols') else ('flat', spec['src'], canon(i_))
        if want_src not in lds:
            problems.append('the source byte is read from %s, expected %s' % ([x for x in lds if x[1] == spec['src']], want_src))
        # accumulate into the old destination for the update forms
        if fn in ('ec_encode_data_update_base', 'gf_vect_mad_base') and want_dest not in lds:
            problems.append('the old parity byte is not part of the new value (update must accumulate)')
    R.check(not problems, F.mod.where(f, st), '%s: %s' % (fn, '; '.join(problems)), key='G-EC-LAYOUT|%s' % fn, sample='%s: coefficient, source and destination indices agree with the table layout' % fn)


def check(rep, suffix, funcs, floor, writer=True):
    R = rep.rule('G-EC-LAYOUT-' + suffix, 'closed forms (LLVM scalar evolution) of the addresses in the portable kernels: ec_init_tables expands coefficient a[row*k + col] at g_tbls + 32*(row*k + col); each consumer reads the '
                 'coefficient of (row, col) at tbl + 32*(row*k + col) + 1, the source byte src[col][i] (or src[i]) and writes dest[row][i] (or dest[i]), with loops over exactly rows, sources and len; the update forms fold the old '
                 'parity byte in', floor=floor, unit='functions')
    A = scev.analysis('default')
    if writer:
        check_writer(rep, A, R)
    for fn in funcs:
        check_reader(rep, A, R, fn)
