"""R-LEN-SIBLINGS: the four XOR parity kernels (xor_gen_sse / _avx / _avx512, xor_check_sse) walk their buffers two-sidedly - odd bytes and 8-byte words are taken from the END
(the length register counts down) until what is left is a multiple of 128, which the vector loop then takes from the front.  Whether every byte is covered depends on the
sequence of decisions made on the length register (test len,127 / test len,7 / cmp len,128 / cmp len,0 and where each one branches), and that sequence is the same text in
all four files.  The linear-form tail rules (R-TAIL-GUARD) do not apply to a two-sided walk, so the clause is decided as sibling agreement: the sequence
(compare kind, immediate, condition, direction) of all conditional branches whose flags come from a compare / test of the length register with an immediate is identical in
the four kernels; a kernel that deviates from the majority is reported with the first decision that differs.  This is a cross-check of copies, not a proof of the walk."""
import re, collections
from asmdb import is_cond_jump, REG64
from common import AnalysisBroken
import asmdb, guardloop

GROUP = ['xor_gen_sse', 'xor_gen_avx', 'xor_gen_avx512', 'xor_check_sse']
LENREG = 'rsi'


def decisions(u, f):
    order = {a: n for n, a in enumerate(f.addrs)}
    out = []
    for a in f.addrs:
        i = u.insns[a]
        if is_cond_jump(i.mn) and i.target in order:
            p = guardloop.producer(u, f, order, a)
            if p is not None and len(p.ops) == 2 and p.ops[0] in REG64 and REG64[p.ops[0]][0] == LENREG and re.match(r'^(0x[0-9a-f]+|\d+)$', p.ops[1]):
                out.append(((p.mn, int(p.ops[1], 0), guardloop.ALIAS.get(i.mn, i.mn), 'back' if i.target <= a else 'forward'), i))
    return out


def check(rep):
    R = rep.rule('R-LEN-SIBLINGS', 'xor_gen_sse, xor_gen_avx, xor_gen_avx512 and xor_check_sse make the same sequence of decisions on the length register (compare/test with an immediate, condition, branch direction): the '
                 'two-sided walk (bytes and 8-byte words from the end until a multiple of 128 is left, then 128-byte blocks from the front) is dispatched identically in all four copies', floor=4, unit='kernels')
    units = asmdb.units('default')
    seqs = {}
    for un, u in units.items():
        for fn, f in u.funcs.items():
            if fn in GROUP:
                seqs[fn] = (u, f, decisions(u, f))
    if len(seqs) < 3:
        raise AnalysisBroken('R-LEN-SIBLINGS: only %d of the XOR kernels found' % len(seqs))
    cnt = collections.Counter(tuple(d for d, _ in s[2]) for s in seqs.values())
    ref, n = cnt.most_common(1)[0]
    if n < 2 or len(ref) < 6:
        raise AnalysisBroken('R-LEN-SIBLINGS: no majority among the XOR kernels')
    for fn, (u, f, ds) in sorted(seqs.items()):
        R.instance()
        mine = tuple(d for d, _ in ds)
        k = next((j for j in range(min(len(mine), len(ref))) if mine[j] != ref[j]), min(len(mine), len(ref)))
        where = ds[k][1] if k < len(ds) else (ds[-1][1] if ds else u.insns[f.entry])
        R.check(mine == ref, '%s: %s' % (u.name, u.where(where, f)), '%s decides differently on the length than its %d siblings: decision %d is %s here, %s there - part of the buffer is then walked by neither the tail loops nor the '
                '128-byte loop (or twice)' % (fn, n, k + 1, mine[k] if k < len(mine) else 'missing', ref[k] if k < len(ref) else 'absent'), key='R-LEN-SIBLINGS|%s' % fn,
                sample='%s: %d length decisions as in the siblings' % (fn, len(mine)))
