#!/usr/bin/env python3
"""Regenerates /verif/MANIFEST.json from the table below (kept in one place so the
manifest is always valid)."""
import json, os

HERE = os.path.dirname(os.path.dirname(os.path.abspath(__file__)))

CLAIMED = {
    'C12': dict(
        category='proof', design_ref='DESIGN.md section 3, C12',
        technique='static analysis: exhaustive evaluation of constant-table initialisers against GF(2^8)/0x11D + abstract interpretation of gf_vect_mul_init in a GF(2)-linear domain (LLVM IR)',
        text='All GF(2^8) constant tables of the current tree (log, antilog, inverse, 64 KiB product table under GF_LARGE_TABLES, GFNI affine matrices) are compared cell by cell with carry-less multiplication mod 0x11D; the index expressions of gf_mul/gf_inv are bounded from the table extrema; gf_vect_mul_init is decided for all 256 coefficients at once by abstract interpretation in a GF(2)-linear domain, in both preprocessor branches (the byte-wise branch is never compiled on this host). The finite obligation set is enumerated completely, hence proof for tables and table expansion; control flow of the three-line gf_mul/gf_inv is not decided.',
        note='Trusts clang 14 (initialiser layout, -O1 IR), the reference arithmetic in tools/gf2.py and the Intel SDM bit order of GF2P8AFFINEQB.'),
}

CLAIMED['C16'] = dict(
    category='proof', design_ref='DESIGN.md section 3, C16',
    technique='static analysis: path-sensitive guard-fact dataflow over the assembled dispatch resolvers (all paths enumerated) x per-symbol ISA-class closure over the asm CFG + LLVM-IR call graph',
    text='Selection clause only. For all 42 multibinary entry points, in the AS_FEATURE_LEVEL 10/6/4 builds, every path through the real resolver code is enumerated from the assembled object; the CPUID/XCR0 facts known set on the path must imply (under an explicit, printed dependency relation) the ISA class of every instruction reachable from the symbol the path stores into the dispatch slot - through C wrappers into asm kernels; xgetbv is only executed after OSXSAVE was seen; the no-feature path selects baseline code. The obligation set (paths x reachable instructions) is finite and enumerated completely. That all variants compute the same results is NOT decided here. Known finding: BMI2 instructions behind AVX2/AVX-512-only tests (13 entry/symbol pairs, listed in known_findings.json).',
    note='Trusts nasm/objdump decoding, the hand-written fail-closed ISA table tools/isa.py, the dependency relation in props/c16.py, and clang IR for the C call graph / target-features. CPUID max-leaf validity is outside the examined bits.')

CLAIMED['C01'] = dict(
    category='other', design_ref='DESIGN.md section 3, C01',
    technique='static analysis: exact evaluation of constant-table initialisers against an independent RFC 1951 canonical-code reference; compiler/assembler record-layout and constant mirror (offsetof vs FIELD/equ)',
    text='Partial by design: decides three families of necessary conditions that hold or fail for every input at once, in all three documented window configurations (default, IGZIP_HIST_SIZE=8192, LONGER_HUFFTABLE): (1) every cell of the built-in level-0 Huffman tables and of the ICF fixed table equals the canonical code of the table\'s own stored deflate header / the RFC fixed code, with the shift/mask read from the consumers\' IR; (2) RFC 1951 constant tables, C and asm copies; (3) every FIELD/equ offset and every same-named integer constant agrees between the assembler and the C compiler for the deflate data structures, TMP-state enum arithmetic, wrapper/stored-block constants. Added while building: every private copy of an RFC table found in any object; bit- vs byte-index units of first-difference positions; the constant-run fast path decoded under its own canned header for all 258 residues of the run length. That emitted streams decode to the input (match finders, state machine, bit packing) is NOT decided.',
    note='Trusts clang/nasm constant evaluation and the checker\'s RFC 1951 reference (tools/rfc1951.py).')

CLAIMED['C02'] = dict(
    category='other', design_ref='DESIGN.md section 3, C02',
    technique='static analysis: exact evaluation of the pre-generated inflate lookup-table initialisers against canonical Huffman decoding (RFC 1951) of the code each table is installed for; compiler/assembler constant and layout mirror',
    text='Partial by design: (1) every cell of static_inflate.h\'s four lookup tables is re-decoded by an independent canonical-code reference for the code it is installed for - the RFC fixed code, and the header stored in this configuration\'s hufftables_default (what header_matches_pregen compares the input with) - in the default, IGZIP_HIST_SIZE=8192 and LONGER_HUFFTABLE builds: symbols incl. packed multi-literal cells, consumed bit counts, long-code redirects, invalid markers; where header_matches_pregen is compiled to never match, the pregen tables carry no obligation; (2) RFC length/distance tables in C and asm and the hard-coded offsets the asm decoders use into them; (3) all lookup-entry bit-layout constants, block states, status codes and struct offsets agree between igzip_inflate.c (which builds the tables) and the asm decoders (which read them). Added while building: roll-back cleanliness of the asm decoders\' parked output, trailer consumption, counter balance of all 27 portable inflate functions. Decoding of arbitrary valid streams (dynamic table construction, decode loops) is NOT decided.',
    note='Trusts clang/nasm constant evaluation and the checker\'s RFC 1951 reference; symbol 284 with extra value 31 may be rejected or decoded as 258 (zlib-compatible).')

CLAIMED['C04'] = dict(
    category='other', design_ref='DESIGN.md section 3, C04',
    technique='static analysis: exact evaluation of CRC table/constant initialisers (from compiled and assembled objects) against GF(2)[x] arithmetic: byte-CRC tables, x^e mod P congruence of folding constants per fold geometry, Barrett pairs, merge tables; IR lint for table pairing/inversion; constant-bound arithmetic for Adler-32',
    text='Partial by design: decides that all 12 CRC lookup tables are the byte-CRC of the documented polynomial (reference anchored to published check values); that every folding constant rk* of all 30 PCLMUL kernels - including the _01/_02/by4/by8 variants the host never dispatches - is congruent to x^e mod P for the exponent its fold distance prescribes, and rk7/rk8 are the Barrett pair, by formula per representation; the merge tables of the two crc32-instruction iSCSI kernels; that each *_base function reads exactly its own table with the documented inversion convention; Adler modulus 65521 in C and asm and that the deferred-modulo block sizes cannot overflow the accumulators; (with C05 machinery) that checksum kernels store nothing outside their stack frame. Added while building: seed / result inversion parity of all 58 implementation paths (tools/crcinv.py); access bounds of the 30 folding kernels; no narrowing of the 64-bit length. That the folding code itself (pclmulqdq immediates, tail shuffles, the crc32-instruction kernels\' remainder dispatch) computes the CRC is NOT decided.',
    note='Trusts nasm/clang constant evaluation, tools/gf2.py, and the catalogue check values used to anchor the reference polynomials.')

CLAIMED['C03'] = dict(
    category='other', design_ref='DESIGN.md section 3, C03',
    technique='static analysis: pointer-provenance dataflow (origin x affine abstract domain) over the CFG of every assembled kernel (nasm+objdump, recursive descent); AST lint of the C batching wrappers with resolved callees; entry-guard extraction by affine dataflow; flag-liveness dataflow',
    text='Partial by design. Decides for all six ISA families (five never run by the suite on this host): (1) the ec_encode_data_<isa> wrappers call the widest kernel in the loop and advance g_tbls by W*k*S (S read from the table initialisers), coding and rows by W; have one arm per remainder calling the kernel of that arity with the documented arguments; stay within one ISA family; and fall back to the portable code below a length that is >= the minimum each called kernel accepts (extracted from the kernel\'s entry guard) - the wrappers ignore the kernels\' return value, so a mismatch silently leaves parity unwritten; (2) every store of all 33 dot-product kernels goes through dest[j], 0<=j<arity, or the stack frame, sources are read only through the source array, tables through the table pointer, outputs are never read; (3) every compare is consumed. Added while building: a type system over vector registers (table halves / nibble indices / products / sums; tools/gftype.py) shows every stored value to be a XOR of table-lookup products of the right halves; row labels (tools/gfrows.py) show table row j to feed destination j; access bounds by tools/bounds.py; undefined-register and k-mask-width lints; no data-dependent loop exit in the portable kernels. NOT decided: that each source byte is accumulated exactly once in overlapped tails.',
    note='Trusts nasm/objdump decoding, the fail-closed ASMFLOW transfer functions, SysV argument roles from erasure_code.h, clang AST.')
CLAIMED['C13'] = dict(
    category='other', design_ref='DESIGN.md section 3, C13',
    technique='static analysis: pointer-provenance dataflow (origin x affine abstract domain) over the CFG of every assembled kernel (nasm+objdump, recursive descent); AST lint of the update wrappers; entry-guard extraction; flag liveness',
    text='Partial by design, same split as C03 on the update side: the six ec_encode_data_update_<isa> wrappers (stride, arms, ISA family, k and vec_i passed through unchanged, hand-off length vs. kernel entry guards); all 35 gf_<n>vect_mad_<isa> kernels store and read-modify only through parity pointers and read the source only through src; gf_vect_mul_{sse,avx} store only through dest and reject len % 32 != 0 with a non-zero return before touching memory. Added while building: the same vector type system, row labels and bounds as C03 for the 37 mad / mul kernels; no data-dependent loop exit in the portable update/mad/mul kernels. NOT decided: that overlapped tail bytes are accumulated exactly once.',
    note='Same trusted base as C03.')
CLAIMED['C05'] = dict(
    category='other', design_ref='DESIGN.md section 3, C05',
    technique='static analysis: pointer-provenance dataflow (origin x affine abstract domain) over the CFG of every assembled kernel (nasm+objdump, recursive descent), with per-family declared read/write object sets; coverage accounting of every byte of .text; relational numeric abstract interpretation of the kernels\' index registers (bounds); difference-bound analysis of SSA pointers in the portable match finders',
    text='Partial by design: decides WHICH object every memory access of every asm function goes to, not whether its offset stays inside the object. For all 138 asm kernels (141 units; every byte of .text is shown to be reachable code, padding or a labelled data table) each store/load/read-modify-write is attributed to the argument object, stack frame or constant pool its address derives from and must lie in the declared write/read set of its family: read-only kernels are store-free; nothing is written through source, table, Huffman-table or global pointers; and no kernel stores a pointer derived from caller input into persistent state (only back into the next_in field). Added while building: an abstract interpreter written for this code base (affine bound sets in len x congruences x facts about len, two-register sum relations, k-mask bit counts, pointer offsets; tools/bounds.py) proves pos + width <= len access by access for 107 of the 138 kernels (EC, mad, mul, RAID P+Q, CRC folding, zero-detect SSE/AVX) and lists the remaining kernels by name with the reason as not decided; a difference-bound analysis (tools/enddist.py) proves every load of the four portable match finders to lie below the end of the input, using the contract of compare258. NOT decided: C array indexes elsewhere, sufficiency of the retained history, the kernels listed as outside the domain.',
    note='Trusts nasm/objdump decoding, ASMFLOW (fail-closed), argument roles in tools/kernels.py from the public prototypes, struct offsets evaluated by nasm.')
CLAIMED['C08'] = dict(
    category='other', design_ref='DESIGN.md section 3, C08',
    technique='static analysis: pointer-provenance dataflow (origin x affine abstract domain) over the CFG of every assembled kernel (nasm+objdump, recursive descent) (array element index affine in vects); entry-guard extraction vs. limits parsed from raid.h; flag-liveness dataflow; constant probes',
    text='Partial by design: for all nine RAID asm kernels, parity stores go only through array[vects-1] (xor) / array[vects-2] and array[vects-1] (P+Q) and check kernels store nothing; vects below the documented minimum of raid.h (and for P+Q a length that is not the documented multiple) reaches a non-zero constant return before any access through the array, success exits return 0; every ptest/cmp of the check kernels is consumed by a branch (a deleted "jnz return_fail" leaves a dead compare); reduction constants are 0x1d in asm and in the SWAR base code. Added while building: value numbering over {xor, 2* in GF(2^8)/0x11D} (tools/horner.py) decides for all 22 source-walking loops that P ^= source and Q = 2*(Q ^ source) with the reduction mask taken from the doubled value and constant 0x1d, correct initial values, lane pairing of loads and stores, and that the check kernels test accumulator ^ stored parity of every lane before a branch to a non-zero return; the loops fetch exactly the documented source indices (R-SRC-COVER); access bounds of the P+Q kernels. NOT decided: the portable kernels\' SWAR arithmetic beyond its constants.',
    note='Same trusted base as C03; documented limits are parsed from the doxygen comments of include/raid.h.')
CLAIMED['C20'] = dict(
    category='other', design_ref='DESIGN.md section 3, C20',
    technique='static analysis: AST lint with an abstract cursor over the fall-through switch of the portable variant; pointer-provenance and flag-liveness dataflow over the asm variants',
    text='Partial by design: portable variant - the word loop consumes sizeof(uintmax_t) bytes per iteration and returns on a non-zero word; for every remainder 1..7 the fall-through path reads exactly bytes [0,k) at the cursor and ORs each into the result that decides the return value. Asm variants (sse/avx/avx2/avx512) - store-free, loads only through the buffer argument, every ptest/vptest/cmp consumed, return value is a 0/non-zero constant or flag. Added while building: a type system for the vector variants (only OR / copy / zero-compare may combine buffer-derived values; found and fixed an ADD that wraps), no load when len is 0, access bounds of the SSE/AVX variants, no narrowing of the length. NOT decided: bounds of the block-counting AVX2/AVX-512 variants.',
    note='Trusts clang AST, nasm/objdump decoding, ASMFLOW.')

CLAIMED['C15'] = dict(
    category='proof', design_ref='DESIGN.md section 3, C15',
    technique='static analysis: whole-program write-effect analysis - pointer-provenance over the linked LLVM IR of all C units (every store/memcpy/memset destination traced to its root) and over the CFG of every assembled kernel; path-enumerating interpretation of the dispatch resolvers; field def/use comparison of init vs reset',
    text='Decides the no-shared-mutable-state clause completely for the current tree: every write site of all 278 C functions and every store of all 138 asm kernels is traced to its provenance root, and none is a library-owned global (function-local statics included), a RIP-relative/absolute address, TLS, or a pointer loaded from stream->hufftables (the only escaping globals); the 42 dispatch resolvers each perform exactly one 8-byte store of a CPUID/XGETBV-determined library function address into their own slot, which is 8-byte aligned in the shared object linked from the current tree, restore every register, and mbinit falls through into the interface stub; external callees are a fixed reentrant libc set (no allocation, I/O, time, locale, getenv), no inline asm, no indirect calls; isal_deflate_reset / isal_inflate_reset assign every byte the matching init assigns except the documented user fields. The obligation set is finite and enumerated completely (proof level for these clauses). Added while building: definite-assignment dataflow over the bytes of the contexts through the call graph incl. asm kernels (tools/fieldinit.py): isal_inflate_stateless reads before writing only caller-set fields, isal_inflate\'s reads are covered by init / reset, isal_deflate_stateless exposes only a frozen, reasoned list of five internal fields; scratch histograms are cleared. NOT decided: independence from prior contents of level_buf hash tables and of the output buffer.',
    note='Trusts clang IR + sroa, tools/llir.py (unknown provenance is never assumed local), nasm/objdump decoding, ASMFLOW and FACTS interpreters. Object-level .data alignment of the multibinary units is 4; slot alignment is checked on the link layout.')

CLAIMED['C19'] = dict(
    category='other', design_ref='DESIGN.md section 3, C19',
    technique='static analysis: dataflow over the linked LLVM IR - edge-removal reachability (size test lies on every path to a write), value-dependency matching of header fields to endian helpers, interprocedural return-value sets; constant probes',
    text='Partial by design: (1) in isal_write_gzip_header and isal_write_zlib_header the successful edge of the avail_out size test lies on every path to any store through next_out and any update of next_out/avail_out/total_out (helper calls included through write summaries), so the failing case leaves the stream untouched; (2) every multi-byte header field (gzip MTIME, XLEN, header CRC16; zlib DICTID) is matched through value dependencies to the endian helper that writes and reads it and must have the byte order of RFC 1952 / RFC 1950; the helpers\' own meaning is established from optimised IR (one bswap of the right width or none); (3) flag bits, method, lengths, shifts equal the RFCs and the FCHECK mod-31 arithmetic is present in producer and reader; (4) the readers return only documented status codes. Added while building: writer/reader field pairing, the reader\'s resume states, counter balance of the two header writers. NOT decided: resumable parsing over arbitrary splits as a whole, exact stop position, read bounds on arbitrary bytes.',
    note='Trusts clang IR + sroa, tools/llir.py provenance/dependency analysis, the RFC field table in props/c19.py. The in-tree test only round-trips writer to reader.')

CLAIMED['C10'] = dict(
    category='other', design_ref='DESIGN.md section 3, C10',
    technique='static analysis: path/effect analysis over the linked LLVM IR with interprocedural write summaries (backward reachability from error-return edges); switch-arm lint against compiler-evaluated constants',
    text='Partial by design: (1) in isal_deflate and isal_deflate_stateless every path that ends in the INVALID_FLUSH return or in the return of a non-zero check_level_req() result contains no store through next_out and no update of next_out/avail_out/total_out - callees (C and asm) are covered by write summaries; (2) check_level_req passes level 0, rejects a NULL level_buf, has switch arms exactly {1,2,3} each comparing level_buf_size with ISAL_DEF_LVLn_MIN and rejecting below it, and rejects every other level; (3) ISAL_DEF_LVLn_MIN >= the size the level-n initialiser returns + one token, and the stateless level-1 fallback buffer is >= ISAL_DEF_LVL1_MIN, in the default / 8 KiB / LONGER_HUFFTABLE builds; (4) stored-block and wrapper size constants follow the RFCs. Added while building: counter accounting - in all 58 portable functions that get the stream and in the 10 asm deflate kernels, total - next and total + avail are preserved on every path to every return (path-sensitive linear-form dataflow, tools/acct.py / tools/asmlin.py), with call-site obligations for update_state; the Huffman encoders\' output stores are covered by the m_out_end guard with the right slack (tools/outguard.py); the portable encoders flush only after is_full() said no; the stored-size bound per wrapper mode. NOT decided: termination, value-level arithmetic inside space guards.',
    note='Trusts clang IR + sroa, tools/llir.py and the asm write summaries (unknown provenance counts as an output effect).')
CLAIMED['C11'] = dict(
    category='other', design_ref='DESIGN.md section 3, C11',
    technique='static analysis: switch-arm to callee maps with post-dominator join, control-dependence of the success return on a comparison, and value-dependency sets over the linked LLVM IR',
    text='Partial by design: (1) both update_checksum functions dispatch every gzip-family wrapper flag to crc32_gzip_refl and every zlib-family flag to isal_adler32_bam1, and nothing else; (2) in isal_inflate_stateless and isal_inflate (completion and ISAL_CHECKSUM_CHECK resume) exactly the verifying crc_flag modes reach check_gzip_checksum / check_zlib_checksum (with finalize_adler32 exactly once) and the comparator result flows to the return value; (3) in each comparator ISAL_DECOMP_OK is reachable only through the equal-edge of a comparison whose operands depend on the trailer bytes, state->crc and (gzip) state->total_out, the other edge returns ISAL_INCORRECT_CHECKSUM, and the trailer is read in the RFC byte order; (4) write_trailer stores CRC32|ISIZE little-endian / Adler-32 big-endian for the matching flags. Added while building: every update_checksum call gets (saved cursor, cursor now - saved cursor); no non-zero wrapper flag skips an update (per-flag partial evaluation of the CFG); Adler finalisation range; state after the comparison. NOT decided: detection of every corruption.',
    note='Trusts clang IR + sroa and tools/llir.py. No test of the suite feeds a corrupted stream.')

CLAIMED['C06'] = dict(
    category='other', design_ref='DESIGN.md section 3, C06',
    technique='static analysis: interprocedural return-value sets with branch filtering, edge-removal reachability between validation guards and sinks over the LLVM IR, guard/sink reachability and reaching-constant analysis over the assembled decoders, flag liveness',
    text='Partial by design: (1) isal_inflate, isal_inflate_stateless, isal_inflate_set_dict return only documented status codes, the C and both asm block decoders agree on {OK, END_INPUT, OUT_OVERFLOW, INVALID_SYMBOL, INVALID_LOOKBACK}, internal positive codes do not escape isal_inflate; (2) portable decoder: every look-back copy is reachable only through the passed next_out - dist >= start_out test, the RFC distance table is indexed only after symbol < DIST_LEN, Huffman tables are built only after the HLIT and HDIST range tests, the code-length overrun / end-of-block test and the over-subscription tests passed, a stored block is accepted only after LEN/NLEN agree; header copy helpers report an overflow only when a buffer exists; (3) asm decoders (_01, _04): on every path from a distance-table load to a look-back read lies a branch to the INVALID_LOOKBACK exit, every compare is consumed, no undefined register is read. Added while building: the value a look-back guard compares is the address later used (linear forms); the code-length cursor is bounded by the announced end where the tables are built (difference bounds); every constant-length memset of an array clears the whole array; the asm decoders\' next/avail/total counters are balanced on every exit path (whole-function linear-form dataflow; found and fixed the fast loop\'s error exits). NOT decided: termination, never-false-success, equality with a reference decoder.',
    note='Trusts clang IR + sroa, tools/llir.py, nasm/objdump decoding, ASMFLOW. One documented over-approximation: the header-overflow codes in isal_inflate_stateless (see evidence notes).')
CLAIMED['C17'] = dict(
    category='other', design_ref='DESIGN.md section 3, C17',
    technique='static analysis: dominance/value-shape analysis over LLVM IR, interval abstract interpretation of set_dist_mask and _zlib_header_in_buffer, effect analysis of the dictionary entry points, taint dataflow (origin ids, edge-sensitive guarded set) over the asm match finders',
    text='Partial by design: (1) in all six portable match finders the distance given to get_dist_code / get_dist_icf_code is dominated by dist - 1 < dist_mask or computed as ((x-1) & dist_mask) + 1; (2) interval analysis over every hist_bits value shows that after set_dist_mask hist_bits is in [1,15] and dist_mask <= min(2^15, IGZIP_HIST_SIZE) - 1 in the default, 8 KiB and LONGER_HUFFTABLE builds, and that the zlib CMF byte advertises CINFO + 8 >= hist_bits; (3) dictionary calls in a wrong state return ISAL_INVALID_STATE on paths without any store, and the history copy is dominated by the length clamp; (4) in the eight scalar asm match finders every value derived from a 16-bit hash-table entry is masked with or compared against a value loaded from dist_mask before it is used in an address. Added while building: the two vectorised gen_icf_map kernels (lane-wise taint), freshness of dist_mask, the dictionary tail, and that every hash-table priming / save / restore covers the whole table. NOT decided: distances of emitted streams as run-time values, dictionary round trips.',
    note='Trusts clang IR + sroa, tools/llir.py, tools/intervals.py (sound transfer functions, full range for anything not modelled), the asm taint domain in props/c17_asm.py.')
CLAIMED['C18'] = dict(
    category='other', design_ref='DESIGN.md section 3, C18',
    technique='static analysis: effect and dominance analysis over the LLVM IR of the table install guard and the two builders; compiler-evaluated constant inequalities',
    text='Partial by design: isal_deflate_set_hufftables refuses with ISAL_INVALID_OPERATION unless state == ZSTATE_NEW_HDR and for unknown types / NULL custom table, on paths without any store, and stream->hufftables is assigned only behind that test; both builders call gen_huff_code_lens with MAX_DEFLATE_CODE_LEN first and with MAX_SAFE_LIT_CODE_LEN / MAX_SAFE_DIST_CODE_LEN exactly on the path guarded by are_hufftables_useable; 13 + (13+5) + (12+13) <= MAX_BITBUF_BIT_WRITE <= 56; the worst-case dynamic header fits ISAL_DEF_MAX_HDR_SIZE. Added while building: the extra-bit schedule of are_hufftables_useable equals RFC 1951 for all 58 symbols (constant propagation); the encoder tables are filled with their declared element counts. NOT decided: that the builder yields complete prefix codes for every histogram and that the stored header parses back to them.',
    note='Trusts clang IR + sroa, tools/llir.py, clang constant evaluation.')

CLAIMED['C14'] = dict(
    category='other', design_ref='DESIGN.md section 8.2, C14',
    technique='static analysis: constant propagation through sync_flush partitioned on the number of pending bits (all 8 values); per-flush-mode partial evaluation of control-flow graphs; dominance / post-dominance over LLVM IR',
    text='Partial by design, three structural clauses that hold or fail for every input at once: (1) for every number 0..7 of bits pending in the bit buffer, the one write_bits that sync_flush issues is three zero header bits (non-final stored block), zero padding up to the byte boundary, LEN = 0000, NLEN = FFFF - the marker bytes and their alignment; (2) with flush == FULL_FLUSH every path from the marker write to the return clears has_hist, and in isal_deflate a test of has_hist == IGZIP_NO_HIST dominates every compressing call and always calls reset_match_history - no hash bucket survives a full flush; (3) isal_deflate_stateless forces end_of_stream only under NO_FLUSH, so a one-shot full-flush call leaves the stream unterminated. NOT decided: that everything fed so far is encoded and flushed before the marker, and decoding from the flush point (which needs the match finders\' window guards of C17 as well).',
    note='Trusts clang IR + sroa, tools/constinterp.py, tools/llir.py dominators.')

CLAIMED['C09'] = dict(
    category='other', design_ref='DESIGN.md section 8.2, C09',
    technique='static analysis: LLVM scalar-evolution closed forms (opt-14) of every store address over the linked IR, compared as polynomials with the documented matrix layout; value-expression trees of stores compared between sibling data structures; dominance / data-dependent-exit analysis',
    text='Partial by design, structural clauses only: (1) gf_gen_cauchy1_matrix and gf_gen_rs_matrix clear k*m bytes, write the identity into the top k x k block and, for rows k..m-1 and columns 0..k-1, store at exactly a + k*i + j the documented coefficient - gf_inv(i xor j), resp. the running product with p0 = 1, p <- p*gen, gen0 = 1, gen <- gen*2 (addresses are closed forms from scalar evolution, incl. the pointer-walking form, checked as polynomial identities; loop trip counts m-k and k); (2) gf_invert_matrix starts out_mat as the identity, applies in each of its three innermost loops the same elementary row operation to in_mat and out_mat (same element index, same expression, the same multiplier value), scales row i by gf_inv(in_mat[i*(n+1)]), adds gf_mul(in_mat[j*n+i], row i) to every row j != i, swaps rows elementwise, and returns -1 exactly where the pivot search ran to n. NOT decided: that every k x k minor of the generated matrices is invertible, that the elimination yields the exact inverse for every non-singular input, recovery of erased blocks.',
    note='Trusts clang 14 IR, opt-14 scalar evolution, the SCEV parser in tools/scev.py (fails closed); width conversions are treated as identity (int index arithmetic assumed not to overflow).')

CLAIMED['C07'] = dict(
    category='other', design_ref='DESIGN.md section 8.2, C07',
    technique='static analysis: path-sensitive linear-form dataflow over LLVM IR and over the assembled kernels (counter balance, piecewise header copies), reaching definitions per exit code, switch-region analysis, stored-vs-tested census of state constants, compiler-evaluated constant mirrors',
    text='Partial by design - the behavioural statement quantifies over call histories and is NOT decided. Decided are the structural clauses that resumption across calls rests on, each for every input at once: (1) in 85 portable functions and 12 asm kernels the counters handed back (next/avail/total per direction) move by the same amount on every path to every return, so the next call starts where this one stopped; (2) the wrapper / block header writers continue a partly written header at offset state->count and advance count by exactly the bytes copied, or reset it when complete; (3) ZSTATE_TMP_X == ZSTATE_X + ZSTATE_TMP_OFFSET for every state with a TMP twin; (4) the asm decoders leave no parked output behind when they return for more input; (5) the gzip / zlib header readers store, in the region of each resume state, only states the resume switch has a case for; (6) every state constant stored anywhere (C and asm) is tested somewhere, so no call can park a context in a state nobody serves. NOT decided: buffered-input and history bookkeeping, temporary output staging, progress of every call, equality of results across slicings.',
    note='Same trusted base as C10 / C02 / C19; every rule is shared with the property it primarily belongs to.')

NOT_APPLICABLE = {
}

PENDING = {}  # properties not yet implemented are listed as not_applicable with reason "check under construction"

ALL = ['C%02d' % i for i in range(1, 21)]


def main():
    checks = []
    for pid in ALL:
        if pid in CLAIMED:
            c = CLAIMED[pid]
            checks.append(dict(
                property_id=pid,
                quick_cmd='./check %s --tier quick' % pid,
                thorough_cmd='./check %s --tier thorough' % pid,
                evidence_file='evidence/%s.json' % pid,
                replay_cmd_template='./check %s --replay {path}' % pid,
                engine='isal-static',
                level_claimed=dict(category=c['category'], text=c['text'], design_ref=c['design_ref']),
                level_note=c['note'],
                technique=c['technique']))
    na = []
    for pid in ALL:
        if pid in CLAIMED:
            continue
        if pid in NOT_APPLICABLE:
            na.append(dict(property_id=pid, reason=NOT_APPLICABLE[pid]))
        else:
            na.append(dict(property_id=pid, reason=PENDING.get(pid, 'static check designed in DESIGN.md but not yet built; not claimed until it is')))
    man = dict(
        version=1,
        setup_cmd='./setup.sh',
        hooks=dict(guard='ISAL_VERIF', enable='none: static analysis needs no instrumentation; checks compile/assemble /repo sources themselves in a scratch directory',
                   baseline_off_cmd='cd /repo && make -j8 check', source_commits=[], add_only=True),
        engines=[dict(name='isal-static', path='check', serves_properties=sorted(CLAIMED),
                      kind_free_text='repository-specific static analysis: nasm+objdump recursive-descent CFG/dataflow over all asm kernels, LLVM-IR dataflow over the C units, exact evaluation of constant tables against RFC/field definitions')],
        checks=checks,
        notes='Technique family: static analysis only. Exit 0 pass, 1 VIOLATION, 2 ANALYSIS-BROKEN (anchor vanished / instance floor not met). known_findings.json lists genuine defects (fixed or known).',
        not_applicable=na)
    with open(os.path.join(HERE, 'MANIFEST.json'), 'w') as f:
        json.dump(man, f, indent=1)
    print('MANIFEST.json written: %d checks, %d not_applicable' % (len(checks), len(na)))


if __name__ == '__main__':
    main()
