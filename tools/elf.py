"""Minimal ELF64 relocatable-object reader: sections, symbols, relocations, bytes."""
import struct

SHT_SYMTAB, SHT_RELA, SHT_NOBITS = 2, 4, 8
RTYPES = {1: 'R_X86_64_64', 2: 'R_X86_64_PC32', 4: 'R_X86_64_PLT32', 9: 'R_X86_64_GOTPCREL', 10: 'R_X86_64_32',
          11: 'R_X86_64_32S', 41: 'R_X86_64_GOTPCRELX', 42: 'R_X86_64_REX_GOTPCRELX', 24: 'R_X86_64_PC64'}


class Sym:
    __slots__ = ('name', 'bind', 'type', 'shndx', 'value', 'size', 'sec', 'other')

    def __repr__(self):
        return 'Sym(%s,%s+%#x)' % (self.name, self.sec, self.value)


class Elf:
    def __init__(self, path):
        self.path = path
        d = self.d = open(path, 'rb').read()
        if d[:4] != b'\x7fELF' or d[4] != 2:
            raise ValueError('not ELF64: ' + path)
        (shoff,) = struct.unpack_from('<Q', d, 0x28)
        shentsize, shnum, shstrndx = struct.unpack_from('<HHH', d, 0x3a)
        self.sh = []
        for i in range(shnum):
            o = shoff + i * shentsize
            name, typ, flags, addr, off, size, link, info, align, entsize = struct.unpack_from('<IIQQQQIIQQ', d, o)
            self.sh.append(dict(idx=i, name=name, type=typ, flags=flags, addr=addr, off=off, size=size, link=link,
                                info=info, align=align, entsize=entsize))
        strs = self.sh[shstrndx]
        for s in self.sh:
            s['sname'] = self._str(strs, s['name'])
        self.symlist = []
        self.syms = {}
        for s in self.sh:
            if s['type'] == SHT_SYMTAB:
                st = self.sh[s['link']]
                for j in range(s['size'] // 24):
                    o = s['off'] + j * 24
                    n, info, other, shndx, val, size = struct.unpack_from('<IBBHQQ', d, o)
                    y = Sym()
                    y.name = self._str(st, n)
                    y.bind = info >> 4
                    y.type = info & 0xf
                    y.shndx = shndx
                    y.value = val
                    y.size = size
                    y.other = other
                    y.sec = self.sh[shndx]['sname'] if 0 < shndx < len(self.sh) else None
                    if y.type == 3 and not y.name and y.sec:  # section symbol
                        y.name = y.sec
                    self.symlist.append(y)
                    if y.name and y.type != 3:
                        # prefer defined over undefined, global over local
                        old = self.syms.get(y.name)
                        if old is None or (old.shndx == 0 and y.shndx != 0):
                            self.syms[y.name] = y
        self.relocs = {}  # section name -> list of (offset, type, symname, addend)
        for s in self.sh:
            if s['type'] == SHT_RELA:
                tgt = self.sh[s['info']]['sname']
                lst = self.relocs.setdefault(tgt, [])
                for j in range(s['size'] // 24):
                    o = s['off'] + j * 24
                    off, info, add = struct.unpack_from('<QQq', d, o)
                    sym = self.symlist[info >> 32]
                    lst.append((off, RTYPES.get(info & 0xffffffff, 'R_%d' % (info & 0xffffffff)), sym.name, add, sym))
        self.relmap = {sec: {r[0]: r for r in lst} for sec, lst in self.relocs.items()}

    def _str(self, sec, off):
        b = self.d[sec['off'] + off:sec['off'] + off + 512]
        i = b.find(b'\0')
        if i < 0:
            b = self.d[sec['off'] + off:]
            i = b.find(b'\0')
        return b[:i].decode('latin1')

    def section(self, name):
        for s in self.sh:
            if s['sname'] == name:
                return s
        return None

    def secbytes(self, name):
        s = self.section(name)
        if s is None:
            return None
        if s['type'] == SHT_NOBITS:
            return bytes(s['size'])
        return self.d[s['off']:s['off'] + s['size']]

    def symbytes(self, name, size=None):
        y = self.syms.get(name)
        if y is None or y.shndx == 0:
            return None
        sec = self.sh[y.shndx]
        n = size if size is not None else y.size
        if sec['type'] == SHT_NOBITS:
            return bytes(n)
        o = sec['off'] + y.value - sec['addr']
        return self.d[o:o + n]

    def defined(self, secname=None):
        return [y for y in self.symlist if y.shndx not in (0, 0xfff1, 0xfff2) and y.type != 3 and y.name
                and (secname is None or y.sec == secname)]

    def sym_extent(self, name):
        """bytes from symbol to the next symbol in its section (for asm labels without size)"""
        y = self.syms.get(name)
        if y is None or y.shndx == 0:
            return None
        sec = self.sh[y.shndx]
        nxt = min([z.value for z in self.symlist if z.shndx == y.shndx and z.value > y.value and z.type != 3] + [sec['size']])
        return self.symbytes(name, nxt - y.value)
