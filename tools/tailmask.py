"""T-TAIL-MASK: the 3..6-row multiply-accumulate kernels (SSE / AVX / AVX2) finish a length that is not a multiple of the vector width V with ONE overlapped pass over the last V bytes,
in which the products are AND-ed with a byte mask before they are xor-ed into the old destination bytes: of the V bytes of that pass, the first V - r were already updated by the main
loop (r = len - pos bytes remain) and must not be updated again.  The mask is computed: t = (len - V) - pos is inserted into one lane, broadcast with PSHUFB and compared (signed,
PCMPGTB) with a constant vector.  Decided in two steps: (a) with the linear forms of tools/asmlin.py the scalar inserted is  len@entry - V - pos  for the V at which the pass is placed;
(b) partitioned constant propagation over r = 1 .. V-1: the vector instructions between the insertion and the compare are evaluated on byte lanes (constants from the data section,
unknown lanes for buffer data) and the resulting mask must be 0xff exactly in lanes i >= V - r; (c) as many products are AND-ed with that mask as destinations are stored in the pass."""
import re
from asmdb import is_mem, parse_mem, REG64, VREG, is_cond_jump
from common import AnalysisBroken
import asmlin, provenance
from provenance import base_tag
from earlypass import LEN_ARG

IMM = re.compile(r'^(0x[0-9a-f]+|\d+)$')


def vn(op):
    m = VREG.match(re.sub(r'\{[^}]*\}', '', op).strip())
    return (int(m.group(2)), {'x': 16, 'y': 32, 'z': 64}[m.group(1)]) if m else None


def s8(b):
    return b - 256 if b >= 128 else b


def const_bytes(u, i, n):
    if i.reloc is None:
        return None
    tgt = u.reloc_target(i)
    if tgt is None or not tgt[0]:
        return None
    sec, sym, off = tgt
    y = u.elf.syms.get(sym)
    data = u.elf.secbytes(sec)
    if y is None or data is None:
        return None
    o = y.value + off
    return list(data[o:o + n]) if o + n <= len(data) else None


def block_of(u, f, addr):
    """straight-line run of instructions containing addr (back to the nearest join / branch)"""
    order = {a: n for n, a in enumerate(f.addrs)}
    targets = {u.insns[a].target for a in f.addrs if u.insns[a].target is not None}
    k = order[addr]
    lo = k
    while lo > 0:
        p = u.insns[f.addrs[lo - 1]]
        if f.addrs[lo] in targets or is_cond_jump(p.mn) or p.mn in ('jmp', 'ret') or p.end != f.addrs[lo]:
            break
        lo -= 1
    hi = k
    while hi + 1 < len(f.addrs):
        c = u.insns[f.addrs[hi]]
        if is_cond_jump(c.mn) or c.mn in ('jmp', 'ret') or f.addrs[hi + 1] in targets:
            break
        hi += 1
    return f.addrs[lo:hi + 1]


def global_consts(u, f):
    """vector registers with exactly one definition in the function, that definition being a load from the data section: loop-invariant constants (nibble mask etc.)"""
    defs = {}
    for a in f.addrs:
        i = u.insns[a]
        if i.ops and not is_mem(i.ops[0]) and vn(i.ops[0]) and not i.mn.startswith(('ptest', 'vptest')):
            defs.setdefault(vn(i.ops[0])[0], []).append(i)
    out = {}
    for n, lst in defs.items():
        if len(lst) == 1 and lst[0].mn in ('movdqa', 'movdqu', 'vmovdqa', 'vmovdqu') and is_mem(lst[0].ops[1]) and parse_mem(lst[0].ops[1]) and parse_mem(lst[0].ops[1])['rip']:
            w = vn(lst[0].ops[0])[1]
            cb = const_bytes(u, lst[0], w)
            if cb:
                out[n] = cb + [0] * (64 - w)
    return out


def evaluate(u, blk, treg64, t, upto, init=None):
    """lane evaluation of the block with the 64-bit register treg64 holding t; -> {vreg: lanes} just before address upto ... and pand uses afterwards are collected by the caller"""
    v, g = {k: list(x) for k, x in (init or {}).items()}, {treg64: t & 0xffffffffffffffff}
    snap = None
    for a in blk:
        if a == upto:
            snap = {k: list(x) for k, x in v.items()}
        i = u.insns[a]
        mn, ops = i.mn, i.ops
        if not ops:
            continue
        d = vn(ops[0]) if not is_mem(ops[0]) else None
        if d is None:
            # GPR tracking: mov r, imm / mov r8, imm
            if mn == 'mov' and ops[0] in REG64 and IMM.match(ops[1]):
                r64, w = REG64[ops[0]]
                old = g.get(r64)
                val = int(ops[1], 0)
                g[r64] = val if w >= 32 else (None if old is None and w < 32 and False else ((old or 0) & ~((1 << w) - 1)) | (val & ((1 << w) - 1)))
            elif ops[0] in REG64 and mn not in ('cmp', 'test'):
                r64 = REG64[ops[0]][0]
                if r64 != treg64 or mn not in ('mov',):
                    if not (r64 == treg64):
                        g.pop(r64, None)
            continue
        n, w = d
        U = [None] * 64
        get = lambda k: v.get(k, U)
        srcs = ops[1:]
        res = None
        if mn in ('movdqa', 'movdqu', 'vmovdqa', 'vmovdqu') and is_mem(ops[1]):
            cb = const_bytes(u, i, w) if parse_mem(ops[1]) and parse_mem(ops[1])['rip'] else None
            res = (cb + [0] * (64 - w)) if cb else None
        elif mn in ('movdqa', 'movdqu', 'vmovdqa', 'vmovdqu') and vn(ops[1]):
            res = list(get(vn(ops[1])[0]))
        elif mn in ('pinsrb', 'vpinsrb'):
            src = list(get(vn(ops[1])[0])) if mn.startswith('v') else list(get(n))
            gp, lane = (ops[2], ops[3]) if mn.startswith('v') else (ops[1], ops[2])
            val = g.get(REG64[gp][0]) if gp in REG64 else None
            src = src[:16] + ([0] * 48 if mn.startswith('v') else src[16:])
            src[int(lane, 0)] = (val & 0xff) if val is not None else None
            res = src
        elif mn in ('pshufb', 'vpshufb'):
            A = get(vn(ops[1])[0]) if mn.startswith('v') else get(n)
            B = get(vn(ops[2])[0]) if mn.startswith('v') and vn(ops[2]) else (get(vn(ops[1])[0]) if not mn.startswith('v') and vn(ops[1]) else None)
            if B is not None:
                res = [None] * 64
                for j in range(w):
                    b = B[j]
                    if b is None:
                        continue
                    res[j] = 0 if b & 0x80 else A[(j & ~15) + (b & 15)]
                for j in range(w, 64):
                    res[j] = 0
        elif mn in ('pcmpgtb', 'vpcmpgtb'):
            A = get(vn(ops[1])[0]) if mn.startswith('v') else get(n)
            Bop = ops[2] if mn.startswith('v') else ops[1]
            if vn(Bop):
                B = get(vn(Bop)[0])
            else:
                cb = const_bytes(u, i, w) if is_mem(Bop) and parse_mem(Bop) and parse_mem(Bop)['rip'] else None
                B = (cb + [0] * (64 - w)) if cb else None
            if B is not None:
                res = [(0xff if s8(A[j]) > s8(B[j]) else 0) if (A[j] is not None and B[j] is not None) else None for j in range(w)] + [0] * (64 - w)
        elif mn == 'vinserti128' and len(ops) == 4 and vn(ops[2]):
            base, ins, h = list(get(vn(ops[1])[0])), get(vn(ops[2])[0])[:16], int(ops[3], 0) & 1
            base[16 * h:16 * h + 16] = ins
            res = base
        elif mn in ('vpbroadcastb',) and vn(ops[1]):
            b0 = get(vn(ops[1])[0])[0]
            res = [b0] * w + [0] * (64 - w)
        v[n] = res if res is not None else list(U)
    return snap, v


def analyse(sym, info):
    u, f = info['unit'], info['func']
    cmps = [u.insns[a] for a in f.addrs if u.insns[a].mn in ('pcmpgtb', 'vpcmpgtb')]
    if not cmps:
        return None
    lenreg = LEN_ARG[info['fam']['family']]
    L = asmlin.Lin(u, f)
    L.auto_pairs = True
    L.run()
    out = []
    for C in cmps:
        blk = block_of(u, f, C.addr)
        ins = [u.insns[a] for a in blk if u.insns[a].mn in ('pinsrb', 'vpinsrb') and a < C.addr and any(o in REG64 and REG64[o][0] == lenreg for o in u.insns[a].ops)]
        if not ins:
            out.append(dict(cmp=C, err='no insertion of a length-derived scalar in front of the compare'))
            continue
        I = ins[-1]
        st = L.IN[I.addr]
        S = {'r': dict(st['r']), 'm': dict(st['m'])}
        tform = L.reg(S, lenreg)
        # offsets of the destination stores of the pass, and the cursor
        dsts = [x for x in info['accesses'] if x.kind == 'store' and x.insn.addr in blk and x.addr[0] == 'P' and base_tag(x.addr) in ('DESTARR[]', 'DEST')]
        if not dsts:
            out.append(dict(cmp=C, err='no destination store in the masked pass'))
            continue
        import samecell
        sp = samecell.split(L.addr({'r': dict(L.IN[dsts[0].insn.addr]['r']), 'm': dict(L.IN[dsts[0].insn.addr]['m'])}, next(o for o in dsts[0].insn.ops if is_mem(o))), lenreg)
        if sp is None:
            out.append(dict(cmp=C, err='store address is not pointer + offset'))
            continue
        off = dict(sp[1])                                   # offset of the pass: len@entry - V
        Vc = asmlin.add({lenreg + '@entry': 1}, off, -1)
        if set(Vc) - {1} or Vc.get(1, 0) <= 0:
            out.append(dict(cmp=C, err='the pass is not placed at len - constant (offset %s)' % asmlin.fmt(off)))
            continue
        V = Vc[1]
        # t + pos - (len@entry - V) must be 0 for some cursor register pos
        ok_t = None
        for r, fr in S['r'].items():
            if any(isinstance(k, tuple) and k[0] == 'J' for k in fr):
                rest = asmlin.add(asmlin.add(tform, fr), off, -1)
                if not rest:
                    ok_t = r
        masks = {}
        gc = global_consts(u, f)
        for r_ in range(1, V):
            snap, vend = evaluate(u, blk, lenreg, r_ - V, C.end, gc)
            d = vn(C.ops[0])[0]
            masks[r_] = (snap or {}).get(d)
        # uses of the mask: pand / vpand with the mask register after the compare, before it is redefined
        mreg = vn(C.ops[0])[0]
        nand = 0
        for a in blk:
            if a <= C.addr:
                continue
            j = u.insns[a]
            if j.mn in ('pand', 'vpand') and any(vn(o) and vn(o)[0] == mreg for o in j.ops[1:]):
                nand += 1
            elif j.ops and not is_mem(j.ops[0]) and vn(j.ops[0]) and vn(j.ops[0])[0] == mreg:
                break
        out.append(dict(cmp=C, V=V, cursor=ok_t, tform=tform, masks=masks, nand=nand, ndst=len(dsts), ins=I))
    return out


def check(rep, floor):
    R = rep.rule('T-TAIL-MASK', 'multiply-accumulate kernels with an inline masked last pass (gf_{3..6}vect_mad_{sse,avx,avx2}): the scalar inserted for the mask is len@entry - V - cursor (linear forms), V being the distance '
                 'of the pass from the end of the buffers; for every r = len - cursor in 1..V-1 the byte mask that results from insert / broadcast / signed compare with the constant vector (lane evaluation, state '
                 'partitioned by r) is 0xff exactly in the lanes i >= V - r, i.e. on the r bytes the main loop has not updated; and every destination stored in the pass has its product AND-ed with that mask: no '
                 'byte accumulates its product twice', floor=floor, unit='(kernel, r) masks')
    res, _ = provenance.analyse('default')
    nk = 0
    for sym, info in sorted(res.items()):
        if info['fam']['family'] != 'ec_mad':
            continue
        r = analyse(sym, info)
        if not r:
            continue
        nk += 1
        u, f = info['unit'], info['func']
        for e in r:
            w = '%s: %s' % (u.name, u.where(e['cmp'], f))
            if 'err' in e:
                raise AnalysisBroken('T-TAIL-MASK: %s: %s (%s)' % (sym, e['err'], w))
            R.instance()
            R.check(e['cursor'] is not None, '%s: %s' % (u.name, u.where(e['ins'], f)), '%s: the scalar inserted for the tail mask is %s, which is not len@entry - %d - cursor for any cursor register: the mask does not '
                    'describe the bytes the main loop left' % (sym, asmlin.fmt(e['tform']), e['V']), key='T-TAIL-MASK|%s|scalar' % sym)
            R.instance()
            R.check(e['nand'] >= e['ndst'], w, '%s: %d destinations are stored in the masked pass but only %d products are AND-ed with the mask' % (sym, e['ndst'], e['nand']), key='T-TAIL-MASK|%s|uses' % sym)
            for r_, m in sorted(e['masks'].items()):
                R.instance()
                V = e['V']
                want = [0xff if i >= V - r_ else 0 for i in range(V)]
                got = m[:V] if m else None
                R.check(got == want, w, '%s: with %d bytes remaining the tail mask is %s, expected 0xff exactly in lanes >= %d: %s' %
                        (sym, r_, ''.join('?' if b is None else '%02x' % b for b in got) if got else 'not computable', V - r_, 'already-updated bytes get the product a second time' if got and any((g or 0) and not w_ for g, w_ in zip(got, want)) else 'remaining bytes are not updated'),
                        key='T-TAIL-MASK|%s|%d' % (sym, r_), sample='%s: r=%d -> lanes >= %d' % (sym, r_, V - r_) if r_ == 1 and sym.endswith('3vect_mad_sse') else None)
    if nk == 0:
        raise AnalysisBroken('T-TAIL-MASK: no kernel with an inline masked pass')
    R.notes.append('%d kernels' % nk)
