"""L-DEAD-VDEF: no vector-register value is computed and then thrown away.  For every instruction of a kernel that defines a vector register from buffer data or by
computation, some path must use that register before it is redefined or the function returns (forward search per definition, as L-DEADCMP does for flags).  A dead
definition in these kernels is a register mis-targeting: the block loaded into the wrong accumulator (the right one keeps a stale block, the wrong one is loaded twice),
a fold result written next to the register that carries it on.  Zeroing idioms, register-to-register copies of constants and definitions whose only purpose is the
k-mask / flags they also produce are not value computations and are not instances."""
import re
from asmdb import is_mem, VREG, is_cond_jump
from common import AnalysisBroken
import asmdb

SSE_MOVES = ('movdqa', 'movdqu', 'movaps', 'movups', 'movapd', 'movupd', 'movntdqa', 'lddqu', 'movq', 'movd', 'pshufd', 'pmovzxbw', 'pmovzxbd', 'pmovzxbq', 'pmovzxwd', 'pmovzxdq', 'movddup', 'pabsb', 'pabsw', 'pabsd',
             'pshuflw', 'pshufhw')
NO_DEF = ('ptest', 'vptest', 'pcmpistri', 'pcmpestri', 'comiss', 'ucomiss', 'comisd', 'ucomisd', 'vcomiss', 'vucomiss')


def vnum(op):
    m = VREG.match(re.sub(r'\{[^}]*\}', '', op).strip())
    return int(m.group(2)) if m else None


def defs_uses(i):
    """-> (defined vector register or None, set of used vector registers)"""
    mn, ops = i.mn, i.ops
    if not ops:
        return None, set()
    uses = set()
    for o in ops:
        if is_mem(o):
            continue
    d = None
    regs = [vnum(o) if not is_mem(o) else None for o in ops]
    if mn in NO_DEF or mn.startswith(('vpcmp', 'vptestm', 'vptestnm', 'kmov')) and regs[0] is None:
        return None, {r for r in regs if r is not None}
    if regs[0] is not None and not is_mem(ops[0]):
        d = regs[0]
        uses = {r for r in regs[1:] if r is not None}
        vex = mn.startswith('v')
        merge = '{k' in ops[0] and '{z}' not in ops[0]
        zero = (len(ops) >= 2 and all(o == ops[-1] for o in ops[1:]) and mn in ('pxor', 'xorps', 'xorpd', 'vpxor', 'vpxord', 'vpxorq', 'vxorps', 'vxorpd', 'psubb', 'psubd', 'vpsubb', 'pcmpeqb', 'pcmpeqd', 'vpcmpeqb', 'vpcmpeqd')
                and (vex or ops[0] == ops[1]))
        if zero:
            uses = set()
        elif (not vex and mn not in SSE_MOVES) or merge or mn.startswith(('vpternlog', 'vpinsr', 'vfmadd', 'vinserti', 'vinsertf', 'pinsr')):
            uses.add(d)
    else:
        uses = {r for r in regs if r is not None}
    return d, uses


def dead_defs(u, f):
    out, n = [], 0
    for a in f.addrs:
        i = u.insns[a]
        d, us = defs_uses(i)
        if d is None:
            continue
        mn, ops = i.mn, i.ops
        if len(ops) >= 2 and all(o == ops[-1] for o in ops[1:]) and 'xor' in mn:
            continue          # zeroing
        if any(is_mem(o) and re.search(r'\[rsp[+\]]', o) for o in ops[1:]) and mn in ('movdqa', 'movdqu', 'vmovdqa', 'vmovdqu', 'movaps', 'vmovaps', 'movups', 'vmovups'):
            continue          # reload from the stack frame: restoring a saved register defines it for the caller
        n += 1
        used = False
        work, seen = list(u.succ(f, a)), set()
        while work and not used:
            b = work.pop()
            if b in seen:
                continue
            seen.add(b)
            j = u.insns[b]
            d2, u2 = defs_uses(j)
            if d in u2:
                used = True
                break
            if j.mn in ('call',) or (j.mn == 'jmp' and j.target is None):
                used = True       # leaves the function: assume live
                break
            if d2 == d:
                continue
            work += u.succ(f, b)
        if not used:
            out.append(i)
    return out, n


def check(rep, suffix, unit_pat, floor, exceptions=()):
    R = rep.rule('L-DEAD-VDEF-' + suffix, 'every definition of a vector register in these units (a load, a computation; zeroing idioms apart) is used on some path before the register is redefined or the function returns: '
                 'no block is loaded into, and no fold / product written to, a register that nothing reads (register mis-targeting leaves the intended register stale)', floor=floor, unit='vector definitions')
    units = asmdb.units('default')
    for un, u in sorted(units.items()):
        if not re.search(unit_pat, un):
            continue
        for fn, f in sorted(u.funcs.items()):
            dead, n = dead_defs(u, f)
            deadset = {i.addr for i in dead}
            for _ in range(n - len(dead)):
                R.instance()
                R.ok(1)
            for i in dead:
                R.instance()
                ok = any(re.match(p, fn) and re.search(q, i.text) for p, q, _ in exceptions)
                R.check(ok, '%s: %s' % (un, u.where(i, f)), '%s: the value that "%s" puts into %s is never read: it is overwritten or the function returns first' % (fn, i.text, i.ops[0]),
                        key='L-DEAD-VDEF|%s|%#x' % (fn, i.addr - f.entry))
