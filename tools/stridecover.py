"""M-STRIDE-COVER: a loop that walks a buffer advances its cursor by S bytes per iteration; the accesses it makes relative to the cursor must cover
exactly those S bytes - one contiguous interval of length |S| - for every buffer it walks (sources, destinations, tables, pointer arrays).  A
stride larger than what is accessed skips bytes, a smaller one processes bytes twice.  Whole-function linear-form dataflow (tools/asmlin.py):
induction registers are those whose value at the back edge is (value joined inside the loop) + S; accesses are grouped by (kind, object, induction
register, loop-invariant rest of the address)."""
import re, collections
from asmdb import is_cond_jump, is_mem, parse_mem
from common import AnalysisBroken
import asmlin, provenance


def width(i, op, acc):
    m = parse_mem(op)
    if m and m['size']:
        return m['size']
    for o in i.ops:
        mm = re.match(r'^([xyz])mm\d+', o)
        if mm:
            return {'x': 16, 'y': 32, 'z': 64}[mm.group(1)]
    return acc.size


def analyse(info):
    u, f = info['unit'], info['func']
    L = asmlin.Lin(u, f).run()
    loops = [(u.insns[a].target, a) for a in f.addrs if is_cond_jump(u.insns[a].mn) and u.insns[a].target is not None and u.insns[a].target <= a]
    acc = {}
    for x in info['accesses']:
        acc.setdefault(x.insn.addr, []).append(x)
    out = []
    for h, b in loops:
        st = L.IN.get(b)
        if st is None:
            continue
        ind = {}
        for r, form in st['r'].items():
            js = [k for k in form if isinstance(k, tuple) and k[0] == 'J' and h <= k[1] <= b]
            if len(js) == 1 and form[js[0]] == 1 and set(form) <= {js[0], 1} and form.get(1, 0) != 0 and js[0][2] == r:
                ind[js[0]] = form[1]
        groups = collections.defaultdict(list)
        for x in f.addrs:
            if not (h <= x <= b) or x not in acc:
                continue
            i = u.insns[x]
            sx = L.IN.get(x)
            if sx is None:
                continue
            for a_ in acc[x]:
                if a_.addr[0] != 'P' or a_.addr[1] == 'STACK':
                    continue
                mem = [o for o in i.ops if is_mem(o)]
                if not mem:
                    continue
                form = L.addr({'r': dict(sx['r']), 'm': dict(sx['m'])}, mem[0])
                if form is None:
                    continue
                js = [k for k in form if k in ind]
                if len(js) != 1 or form[js[0]] != 1:
                    continue
                rest = asmlin.canon({k: v for k, v in form.items() if k not in (js[0], 1)})
                groups[(a_.kind, js[0], rest, str(a_.addr[1])[:40])].append((form.get(1, 0), width(i, mem[0], a_), i))
        for (kind, j, rest, tag), lst in groups.items():
            S = ind[j]
            ivs = sorted(set((o, w) for o, w, _ in lst))
            lo = cur = ivs[0][0]
            contiguous = True
            for o, w in ivs:
                if o > cur:
                    contiguous = False
                cur = max(cur, o + w)
            out.append(dict(head=h, kind=kind, obj=tag, reg=j[2], stride=S, lo=lo, span=cur - lo, contiguous=contiguous, insn=lst[0][2]))
    return out


def check(rep, suffix, families, floor, lookahead=False):
    R = rep.rule('M-STRIDE-COVER-' + suffix, 'every loop of these kernels that advances a cursor by S bytes per iteration accesses, relative to that cursor, one contiguous interval of %s |S| bytes in each object it walks '
                 '(source, destination, table, pointer array): the stride and the bytes processed per iteration agree, nothing is skipped%s' %
                 ('at least' if lookahead else 'exactly', '' if lookahead else ' and nothing is processed twice'), floor=floor, unit='(loop, object) groups')
    res, _ = provenance.analyse('default')
    nk = 0
    for sym, info in sorted(res.items()):
        if info['fam']['family'] not in families:
            continue
        u, f = info['unit'], info['func']
        gs = analyse(info)
        if gs:
            nk += 1
        for g in gs:
            R.instance()
            ok = g['contiguous'] and (g['span'] >= abs(g['stride']) if lookahead else g['span'] == abs(g['stride']))
            R.check(ok, '%s: %s' % (u.name, u.where(g['insn'], f)), '%s: the loop at +%#x advances %s by %d bytes per iteration but its %ss of %s cover %s%d bytes relative to it (from offset %d): %s' %
                    (sym, g['head'] - f.entry, g['reg'], g['stride'], g['kind'], g['obj'], '' if g['contiguous'] else 'a non-contiguous set spanning ', g['span'], g['lo'],
                     'bytes are skipped' if g['span'] < abs(g['stride']) or not g['contiguous'] else 'bytes are processed twice'),
                    key='M-STRIDE-COVER|%s|%#x|%s|%s|%s' % (sym, g['head'] - f.entry, g['kind'], g['obj'], g['reg']), sample='%s: stride %d = %d bytes of %s' % (sym, g['stride'], g['span'], g['obj']) if g is gs[0] and sym.endswith('_sse') else None)
    if nk == 0:
        raise AnalysisBroken('M-STRIDE-COVER-%s: no kernel with a cursor loop found' % suffix)
    R.notes.append('%d kernels' % nk)
