#!/bin/sh
# try_seed.sh <seed-id> [check ids...] : apply /verif/seeded/<id>/patch.diff to the scratch worktree /tmp/mut (reset to /repo HEAD)
# and run the checks against it (VERIF_REPO); prints which checks report a violation. /repo itself is not touched.
id=$1; shift
[ -d /tmp/mut ] || git -C /repo worktree add -q --detach /tmp/mut HEAD
cd /tmp/mut && git checkout -q --detach $(git -C /repo rev-parse HEAD) && git checkout -q -- . && git apply /verif/seeded/$id/patch.diff || { echo "patch does not apply"; exit 2; }
cd /verif
checks="$@"; [ -z "$checks" ] && checks=$(python3 -c "import json;print(' '.join(c['property_id'] for c in json.load(open('MANIFEST.json'))['checks']))")
for c in $checks; do
  out=$(VERIF_REPO=/tmp/mut ./check $c 2>&1); r=$?
  if [ $r -ne 0 ]; then echo "$c exit=$r: $(echo "$out" | grep -m2 'violation\|ANALYSIS-BROKEN' | cut -c1-260)"; fi
done
cd /tmp/mut && git checkout -q -- .
