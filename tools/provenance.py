"""Shared driver for the provenance rules: runs ASMFLOW over every asm kernel of the build
once and evaluates per-family store/load tag rules."""
import re
from common import AnalysisBroken, pmap
import asmdb, kernels
from asmflow import Flow, tag_name, TOP

_cache = {}


def analyse(config='default'):
    """-> {symbol: dict(unit, func, fam, accesses, flow)} for every asm function that belongs to a kernel family,
    plus list of (unit, function) with no family."""
    if config in _cache:
        return _cache[config]
    units = asmdb.units(config)
    res = {}
    nofam = []
    for un, u in sorted(units.items()):
        for fn, f in sorted(u.funcs.items()):
            k = kernels.family(fn)
            if k is None:
                if not (f.slotjumps and len(f.addrs) <= 4):
                    nofam.append((un, fn))
                continue
            fl = Flow(u, f, k['args'], k['loadrule'], k['count_arg'])
            acc = fl.run()
            if fl.unmodelled:
                raise AnalysisBroken('%s:%s: instructions with a GPR destination not modelled by ASMFLOW: %s' % (un, fn, sorted(fl.unmodelled)))
            res[fn] = dict(unit=u, func=f, fam=k, accesses=acc, flow=fl)
    _cache[config] = (res, nofam)
    return _cache[config]


def base_tag(v):
    """coarse tag of an address value: 'STACK', 'GLOBAL', 'DESTARR[]' ... for allow-lists"""
    if v[0] != 'P':
        return v[0]
    t = v[1]
    if isinstance(t, tuple):
        return t[1] + '[]'
    if isinstance(t, str) and t.startswith('GLOBAL:'):
        return 'GLOBAL'
    return t


def elem_index(v):
    """for a pointer loaded from a pointer array: the affine byte index (c, k) or None"""
    if v[0] == 'P' and isinstance(v[1], tuple):
        return v[1][2]
    return 'n/a'


def check_access_sets(R, sym, info, allow_store, allow_load, allow_rmw=None, key_prefix=''):
    """every store/load/rmw of the function must have a coarse tag in the allowed sets"""
    u, f = info['unit'], info['func']
    n = 0
    for a in info['accesses']:
        bt = base_tag(a.addr)
        where = '%s: %s' % (u.name, u.where(a.insn, f))
        if a.kind == 'store':
            ok = bt in allow_store
        elif a.kind == 'load':
            ok = bt in allow_load
        else:
            ok = bt in (allow_rmw if allow_rmw is not None else (allow_store & allow_load))
        n += 1
        if ok:
            R.ok()
        else:
            R.fail(where, '%s through %s (allowed for this kernel family: %s)' % (a.kind, tag_name(a.addr),
                   sorted(allow_store if a.kind == 'store' else allow_load if a.kind == 'load' else (allow_rmw or (allow_store & allow_load)))),
                   key='%s|%s|%s|%s' % (key_prefix or R.id, sym, a.kind, tag_name(a.addr)))
    return n


# --------------------------------------------------------------------------- flags liveness (L-DEADCMP)
CMP_MN = set('cmp test ptest vptest ktestq ktestd ktestw ktestb kortestq kortestd kortestw kortestb bt comiss ucomiss comisd ucomisd'.split())
NOFLAGW = set('''mov lea push pop movzx movsx movsxd movabs nop endbr64 jmp call ret not bswap xchg cpuid xgetbv movd movq pextrd pextrq pextrb pextrw
 pinsrd pinsrq pinsrb shlx shrx sarx rorx mulx pdep pext kmovq kmovd kmovw kmovb cwde cdqe cqo cdq movs stos lods vzeroupper sfence lfence mfence
 crc32 pmovmskb movmskps movmskpd ud2 loop'''.split())


def flag_use(mn):
    return (mn.startswith('j') and mn != 'jmp') or mn.startswith('set') or mn.startswith('cmov') or mn in ('adc', 'sbb', 'rcl', 'rcr', 'lahf', 'pushf', 'pushfq', 'loope', 'loopne')


def writes_flags(i):
    mn = i.mn
    if mn in NOFLAGW or mn.startswith('prefetch'):
        return False
    if flag_use(mn) and mn not in ('adc', 'sbb', 'rcl', 'rcr'):
        return False
    if mn in CMP_MN:
        return True
    if mn[0] in 'vk' or (mn[0] == 'p' and mn not in ('popcnt', 'pop', 'push', 'pdep', 'pext')):
        return False   # SIMD / mask instructions other than the compares above leave EFLAGS alone
    if mn.startswith(('mov', 'xorp', 'andp', 'orp', 'andnp', 'shuf', 'unpck', 'blend', 'cvt', 'add' + 'p', 'mulp', 'subp', 'divp', 'sqrt', 'maxp', 'minp')):
        return False
    return True


def dead_compares(u, f):
    """flag-defining compares whose result no path consumes before the flags are redefined"""
    out = []
    for a in f.addrs:
        i = u.insns[a]
        if i.mn not in CMP_MN:
            continue
        used = False
        work = list(u.succ(f, a))
        seen = set()
        while work and not used:
            b = work.pop()
            if b in seen:
                continue
            seen.add(b)
            j = u.insns[b]
            if flag_use(j.mn):
                used = True
                break
            if writes_flags(j):
                continue
            work += u.succ(f, b)
        if not used:
            out.append(i)
    return out


def count_compares(u, f):
    return sum(1 for a in f.addrs if u.insns[a].mn in CMP_MN)


# --------------------------------------------------------------------------- entry guards
def find_symbol(sym, config='default'):
    units = asmdb.units(config)
    for un, u in units.items():
        if sym in u.funcs:
            return u, u.funcs[sym]
    raise AnalysisBroken('kernel %s is not defined by any asm unit of the build' % sym)


def fail_guards(sym, count_reg, config='default'):
    """Guards that send argument values to a failing return (non-zero constant in rax, no store on the way).
    N := entry value of count_reg.  Returns dict(min=smallest accepted N implied by compare guards (0 if none),
    masks=[m: N & m != 0 fails], guards=[text], ret_values=set of constants returned, first_access=addr)."""
    u, f = find_symbol(sym, config)
    k = kernels.family(sym)
    if k is None:
        raise AnalysisBroken('kernel %s belongs to no known family' % sym)
    fl = Flow(u, f, dict(k['args']), k['loadrule'], count_reg)
    acc = fl.run()
    store_addrs = {a.insn.addr for a in acc if a.kind in ('store', 'rmw') and not (a.addr[0] == 'P' and a.addr[1] == 'STACK')}
    rets = {}
    for a in f.addrs:
        if u.insns[a].mn == 'ret':
            rets[a] = fl.IN[a]['rax'] if a in fl.IN else TOP

    def only_fail(start):
        seen = set()
        work = [start]
        any_ret = False
        while work:
            b = work.pop()
            if b in seen:
                continue
            seen.add(b)
            if b in store_addrs:
                return False
            if b in rets:
                v = rets[b]
                if not (v[0] == 'AFF' and v[2] == 0 and v[1] != 0):
                    return False
                any_ret = True
                continue
            work += u.succ(f, b)
        return any_ret
    best = 0
    masks = []
    guards = []
    order = {a: n for n, a in enumerate(f.addrs)}
    for a in f.addrs:
        i = u.insns[a]
        mn = i.mn
        if not (mn.startswith('j') and mn != 'jmp'):
            continue
        idx = order[a]
        prod = None
        for b in reversed(f.addrs[max(0, idx - 6):idx]):
            j = u.insns[b]
            if j.end != f.addrs[order[b] + 1]:
                break
            if j.mn in ('cmp', 'sub', 'test', 'and'):
                prod = j
                break
            if writes_flags(j):
                break
        if prod is None or len(prod.ops) != 2:
            continue
        try:
            imm = int(prod.ops[1], 0)
        except ValueError:
            continue
        st = fl.IN.get(prod.addr)
        if st is None:
            continue
        v = fl.rd(st, prod.ops[0])
        if not (v[0] == 'AFF' and v[2] == 1):
            continue
        c = v[1]
        if prod.mn in ('cmp', 'sub'):
            thr = imm - c           # flags of (N + c) - imm
            if mn in ('jl', 'jb', 'jnge', 'jnae', 'jc'):
                fail_edge, n = i.target, thr
            elif mn in ('jle', 'jbe', 'jna', 'jng'):
                fail_edge, n = i.target, thr + 1
            elif mn in ('jge', 'jae', 'jnl', 'jnb', 'jnc'):
                fail_edge, n = i.end, thr
            elif mn in ('jg', 'ja', 'jnle', 'jnbe'):
                fail_edge, n = i.end, thr + 1
            else:
                continue
            if fail_edge in f.aset and only_fail(fail_edge):
                guards.append('N < %d fails: %s' % (n, u.where(i, f)))
                best = max(best, n)
        else:
            if c != 0:
                continue
            if mn in ('jne', 'jnz'):
                fail_edge = i.target
            elif mn in ('je', 'jz'):
                fail_edge = i.end
            else:
                continue
            if fail_edge in f.aset and only_fail(fail_edge):
                guards.append('N & %#x != 0 fails: %s' % (imm, u.where(i, f)))
                masks.append((imm, a))
    retvals = set()
    for a, v in rets.items():
        retvals.add(v[1] if (v[0] == 'AFF' and v[2] == 0) else None)
    # first access through an argument-derived pointer, and which guards dominate it (straight-line prefix check)
    arg_acc = [x.insn.addr for x in acc if not (x.addr[0] == 'P' and (x.addr[1] == 'STACK' or (isinstance(x.addr[1], str) and x.addr[1].startswith('GLOBAL'))))]
    return dict(min=best, masks=masks, guards=guards, ret_values=retvals, first_access=min(arg_acc) if arg_acc else None, unit=u, func=f, flow=fl, accesses=acc)


def guard_dominates_accesses(g, guard_addr):
    """True if no access through an argument-derived pointer is reachable from entry without passing guard_addr"""
    u, f = g['unit'], g['func']
    arg_acc = {x.insn.addr for x in g['accesses'] if not (x.addr[0] == 'P' and (x.addr[1] == 'STACK' or (isinstance(x.addr[1], str) and x.addr[1].startswith('GLOBAL'))))}
    seen = set()
    work = [f.entry]
    while work:
        b = work.pop()
        if b in seen or b == guard_addr:
            continue
        seen.add(b)
        if b in arg_acc:
            return False
        work += u.succ(f, b)
    return True


def ret_kinds(u, f, flow):
    """per return site: ('const', c) | ('bool',) (xor eax,eax ... setcc al) | ('unknown',)"""
    from asmdb import REG64
    out = {}
    order = {a: n for n, a in enumerate(f.addrs)}
    for a in f.addrs:
        if u.insns[a].mn != 'ret':
            continue
        v = flow.IN[a]['rax'] if a in flow.IN else TOP
        if v[0] == 'AFF' and v[2] == 0:
            out[a] = ('const', v[1])
            continue
        # boolean idiom in the straight-line predecessor sequence
        kind = ('unknown',)
        seen_set = False
        idx = order[a]
        for b in reversed(f.addrs[max(0, idx - 40):idx]):
            j = u.insns[b]
            if j.end != f.addrs[order[b] + 1]:
                break
            if j.mn.startswith('set') and j.ops and j.ops[0] == 'al':
                seen_set = True
                continue
            if j.ops and j.ops[0] in REG64 and REG64[j.ops[0]][0] == 'rax' and j.mn not in ('cmp', 'test'):
                if seen_set and j.mn == 'xor' and len(j.ops) == 2 and j.ops[0] == j.ops[1] and j.ops[0] in ('eax', 'rax'):
                    kind = ('bool',)
                break
        out[a] = kind
    return out


# --------------------------------------------------------------------------- L-UNDEF-REG
def check_undef(rep, families, suffix, floor):
    """no kernel of the given families reads a register that is not defined on every path from its entry"""
    import regdef
    R = rep.rule('L-UNDEF-REG-' + suffix, 'no kernel reads a general-purpose, vector or mask register that is not written on every path from the entry (SysV: only argument and callee-saved registers are defined at entry); '
                 'otherwise the result depends on what the caller or an earlier call left in the register', floor=floor, unit='kernels')
    res, _ = analyse('default')
    for sym, info in sorted(res.items()):
        fam = info['fam']['family']
        if families is not None and fam not in families:
            continue
        R.instance()
        u, f = info['unit'], info['func']
        n = regdef.NARGS.get(fam)
        if n is None:
            raise AnalysisBroken('no argument count for kernel family %s' % fam)
        if sym == 'build_heap':
            n = 2
        fs = regdef.analyse(u, f, n)
        nreads = len(f.addrs)
        if not fs:
            R.ok(nreads, sample='%s: %d instructions, every register read is defined on all paths' % (sym, nreads) if sym.endswith(('_avx2', '_by8_02')) else None)
        seen = set()
        for i, r in fs:
            key = 'L-UNDEF-REG|%s|%s' % (sym, regdef.regname(r))
            if key in seen:
                continue
            seen.add(key)
            R.fail('%s: %s' % (u.name, u.where(i, f)), 'reads %s, which is not written on every path from the entry of %s' % (regdef.regname(r), sym), key=key)
    return R


# --------------------------------------------------------------------------- M-KWIDTH
def check_kwidth(rep, families, suffix, floor):
    """a length-derived AVX-512 write-mask is consumed at one element width only"""
    import regdef
    R = rep.rule('M-KWIDTH-' + suffix, 'every definition of an AVX-512 mask register computed at run time is consumed as a write-mask at a single element width '
                 'and by instructions whose lane count equals the number of mask bits it was built with (a byte-count mask applied to a dword/qword-granular instruction covers the wrong lanes); masks loaded from a constant pool are bit patterns and exempt',
                 floor=floor, unit='kernels')
    res, _ = analyse('default')
    for sym, info in sorted(res.items()):
        fam = info['fam']['family']
        if families is not None and fam not in families:
            continue
        R.instance()
        u, f = info['unit'], info['func']
        bad = 0
        for d, ws in regdef.mask_width_conflicts(u, f):
            if d.mn.startswith('kmov') and len(d.ops) == 2 and '[rip' in d.ops[1]:
                continue
            bad += 1
            R.fail('%s: %s' % (u.name, u.where(d, f)), 'mask defined here is used as a write-mask at element widths %s: %s' %
                   (sorted(ws), '; '.join('%d bytes: %s' % (w, i.text) for w, i in sorted(ws.items()))), key='M-KWIDTH|%s|%#x' % (sym, d.addr - f.entry))
        for d, i, bits, lanes in regdef.mask_lane_mismatches(u, f):
            bad += 1
            R.fail('%s: %s' % (u.name, u.where(i, f)), 'write-mask has %d significant bits (defined by "%s") but this instruction has %d lanes: the mask selects the wrong elements' % (bits, d.text, lanes),
                   key='M-KLANES|%s|%#x' % (sym, i.addr - f.entry))
        if not bad:
            R.ok(1, sample='%s: masks consumed at one width each, bit count = lane count' % sym if 'avx512' in sym and sym.startswith('gf_2') else None)
    return R


def ret_const_set(u, f):
    """reaching definitions of rax at every ret: -> (set of integer constants, list of non-constant defining insns).
    'entry' (rax never written) counts as non-constant."""
    from asmdb import REG64
    import regdef
    IN = {f.entry: frozenset(['entry'])}
    work = [f.entry]
    while work:
        a = work.pop()
        st = IN[a]
        i = u.insns[a]
        uses, defs = regdef.def_use(i)
        out = frozenset([a]) if 'rax' in defs else st
        for n in u.succ(f, a):
            if n not in IN:
                IN[n] = out
                work.append(n)
            else:
                new = IN[n] | out
                if new != IN[n]:
                    IN[n] = new
                    work.append(n)
    consts = set()
    nonconst = []
    for a in f.addrs:
        if u.insns[a].mn != 'ret' or a not in IN:
            continue
        for d in IN[a]:
            if d == 'entry':
                nonconst.append(None)
                continue
            j = u.insns[d]
            if j.mn in ('mov', 'movabs') and len(j.ops) == 2 and j.ops[0] in ('rax', 'eax'):
                try:
                    v = int(j.ops[1], 0)
                    bits = 64 if j.ops[0] == 'rax' else 32
                    if v >= 1 << (bits - 1):
                        v -= 1 << bits
                    consts.add(v)
                    continue
                except ValueError:
                    pass
            if j.mn in ('xor', 'sub') and len(j.ops) == 2 and j.ops[0] == j.ops[1] and j.ops[0] in ('rax', 'eax'):
                consts.add(0)
                continue
            nonconst.append(j)
    return consts, nonconst
