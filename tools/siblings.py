"""R-WRITE-SIBLINGS: implementations that share a dispatch slot update the same fields of the context.  The portable sibling's may-write
set (stores through the context parameter, followed through every callee that receives a pointer into the context, offsets shifted) must be
contained in each asm sibling's may-write set (stores the pointer-provenance dataflow attributes to the context argument); the reverse
direction is checked against a short frozen list of fields with the reason."""
import re
from common import AnalysisBroken
import irrules, provenance, fieldinit


def c_maywrite(mod, fn, pidx, memo=None, stack=()):
    """byte offsets (relative to parameter pidx) the function may store to, through callees as well"""
    memo = memo if memo is not None else {}
    key = (fn, pidx)
    if key in memo:
        return memo[key]
    if key in stack or fn not in mod.funcs:
        return set()
    f = mod.funcs[fn]
    P = irrules.prov(mod, f)
    out = set()
    for i in f.all_insns():
        if i.op == 'store':
            for a in P.atoms(i.ops[1]):
                if a[0] == 'param' and a[1] == pidx and a[2] is not None:
                    out.add(a[2])
        elif i.op == 'call' and i.callee and not i.callee.startswith('llvm.dbg'):
            cal = i.callee.lstrip('@')
            if cal.startswith(('llvm.memset', 'llvm.memcpy', 'llvm.memmove')):
                for a in P.atoms(i.args[0][1]):
                    if a[0] == 'param' and a[1] == pidx and a[2] is not None:
                        out.add(a[2])
                continue
            for k, (_, v) in enumerate(i.args):
                for a in P.atoms(v):
                    if a[0] == 'param' and a[1] == pidx and a[2] is not None:
                        for o in c_maywrite(mod, cal, k, memo, stack + (key,)):
                            out.add(a[2] + o)
    memo[key] = out
    return out


def asm_maywrite(info):
    tag = None
    for reg, val in info['fam']['args'].items():
        if reg == 'rdi' and val[0] == 'P':
            tag = val[1]
    out = set()
    for a in info['accesses']:
        if a.kind in ('store', 'rmw') and a.addr[0] == 'P' and a.addr[1] == tag and a.addr[2] is not None and a.addr[2][1] == 0:
            out.add(a.addr[2][0])
    return out


def check(rep, suffix, mod, families, fields, asm_only_ok, floor):
    """fields: [(name, offset, size)] sorted; asm_only_ok: {field name: reason}"""
    R = rep.rule('R-WRITE-SIBLINGS-' + suffix, 'every context field the portable implementation of a dispatched kernel may update (directly or through its helpers) is also updated somewhere by each asm sibling; fields only '
                 'an asm sibling writes are limited to a frozen list with reasons (%s)' % '; '.join('%s: %s' % kv for kv in sorted(asm_only_ok.items())), floor=floor, unit='asm kernels')
    res, _ = provenance.analyse('default')

    def name_of(o):
        best = None
        for n, off, sz in fields:
            if off <= o:
                best = n
        return best
    memo = {}
    for base, pat in sorted(families.items()):
        if base not in mod.funcs:
            raise AnalysisBroken(base + ' not found')
        cw = {name_of(o) for o in c_maywrite(mod, base, 0, memo)}
        if not cw:
            raise AnalysisBroken('%s writes no context field' % base)
        n = 0
        for sym, info in sorted(res.items()):
            if not re.match(pat, sym):
                continue
            n += 1
            R.instance()
            aw = {name_of(o) for o in asm_maywrite(info)}
            missing = sorted(cw - aw)
            extra = sorted(x for x in aw - cw if x not in asm_only_ok)
            R.check(not missing and not extra, '%s:%s' % (info['unit'].name, sym), '%s %s; the portable sibling %s updates %s' %
                    (sym, ('never updates ' + ', '.join(missing)) if missing else ('updates ' + ', '.join(extra) + ', which the portable sibling never touches'), base, sorted(cw)),
                    key='R-WRITE-SIBLINGS|%s' % sym, sample='%s: %d fields as %s' % (sym, len(aw), base))
        if n == 0:
            raise AnalysisBroken('no asm sibling of %s' % base)
