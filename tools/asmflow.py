"""ASMFLOW / ORIGIN x AFFINE: forward dataflow over one asm function's CFG.
Abstract value of a 64-bit GPR or tracked stack slot:
  ('AFF', c, k)        scalar c + k*N, N = the designated count argument of the kernel family
  ('SC',)              scalar of unknown value (not derived from any pointer)
  ('P', tag, off)      pointer into object `tag`; off = (c, k) affine byte offset or None
  ('TOP',)             unknown (possibly a pointer of unknown provenance)
tag is a string ('STACK', 'GLOBAL:sym', a parameter name) or ('L', arraytag, idx): a pointer
LOADED from the pointer array `arraytag` at affine byte index idx (None = some element).
The analysis records, for every memory operand of every reachable instruction, the abstract
address and whether the instruction stores / loads / read-modify-writes it."""
import re
from common import AnalysisBroken
from asmdb import REG64, parse_mem, is_mem, VREG, KREG, is_cond_jump

SC = ('SC',)
TOP = ('TOP',)
GPRS = ['rax', 'rbx', 'rcx', 'rdx', 'rsi', 'rdi', 'rbp', 'rsp', 'r8', 'r9', 'r10', 'r11', 'r12', 'r13', 'r14', 'r15']
CALLER_SAVED = ['rax', 'rcx', 'rdx', 'rsi', 'rdi', 'r8', 'r9', 'r10', 'r11']
SYSV_ARGS = ['rdi', 'rsi', 'rdx', 'rcx', 'r8', 'r9']


def AFF(c, k=0):
    return ('AFF', c, k)


def P(tag, off=(0, 0)):
    return ('P', tag, off)


def is_ptr(v):
    return v[0] == 'P'


def is_aff(v):
    return v[0] == 'AFF'


def off_add(o, c, k=0):
    return None if o is None else (o[0] + c, o[1] + k)


def join(a, b):
    if a == b:
        return a
    if a is None:
        return b
    if b is None:
        return a
    if a[0] == 'P' and b[0] == 'P':
        ta, tb = a[1], b[1]
        if ta == tb:
            return ('P', ta, None)
        if isinstance(ta, tuple) and isinstance(tb, tuple) and ta[0] == 'L' and tb[0] == 'L' and ta[1] == tb[1]:
            return ('P', ('L', ta[1], None), None)
        return TOP
    if a[0] in ('AFF', 'SC') and b[0] in ('AFF', 'SC'):
        return SC
    return TOP


# first-operand memory destinations that are pure stores
STORE_PREFIX = ('mov', 'vmov', 'set', 'pextr', 'vpextr', 'extractps', 'vextract', 'vpscatter', 'vscatter', 'vpcompress', 'vcompress',
                'vpmov', 'stos', 'maskmov', 'vmaskmov', 'vpmaskmov', 'kmov', 'pop', 'vcvtps2ph', 'fst', 'fist')
LOAD_ONLY = {'cmp', 'test', 'bt', 'ptest', 'vptest', 'comiss', 'comisd', 'ucomiss', 'ucomisd', 'push', 'jmp', 'call', 'div', 'idiv', 'mul',
             'imul', 'cmps', 'scas', 'lods', 'crc32', 'vptestmb', 'vptestmw', 'vptestmd', 'vptestmq', 'fld', 'fild', 'ldmxcsr'}
NOACCESS = ('lea', 'nop', 'prefetch', 'clflush', 'endbr')


def mem_kind(mn, opidx):
    """'load' | 'store' | 'rmw' | None for a memory operand at position opidx"""
    if mn.startswith(NOACCESS):
        return None
    if opidx != 0:
        if mn == 'xchg':
            return 'rmw'
        return 'load'
    if mn in LOAD_ONLY or mn.startswith('vpcmp') or mn.startswith('pcmp') or mn.startswith('vptest') or mn.startswith('j'):
        return 'load'
    if mn.startswith(STORE_PREFIX):
        return 'store'
    return 'rmw'


class Access:
    __slots__ = ('insn', 'kind', 'addr', 'size', 'opidx', 'mem', 'val')

    def __repr__(self):
        return '%s %s %s' % (self.kind, self.addr, self.insn.text)


class Flow:
    def __init__(self, unit, func, args, loadrule=None, count_arg=None, entry_stack=8):
        """args: {reg64: abstract value} at entry; every other GPR starts as SC except rsp.
        loadrule(addrvalue, mem, size, insn) -> abstract value of a 64-bit load (default SC).
        count_arg: register whose entry value is the symbolic N of AFF values."""
        self.u = unit
        self.f = func
        self.args = dict(args)
        self.loadrule = loadrule or (lambda av, m, size, insn: SC)
        if count_arg:
            self.args[count_arg] = AFF(0, 1)
        self.accesses = []
        self.unmodelled = set()
        self.IN = {}

    # ------------------------------------------------------------------ helpers
    def rd(self, st, reg):
        g = REG64.get(reg)
        if not g:
            return SC
        v = st.get(g[0], SC)
        if g[1] == 64:
            return v
        if g[1] == 32 and v[0] == 'AFF':
            return v        # 32-bit view of a small count/index: same affine value (no overflow assumed for counts)
        return SC

    def addr(self, st, m, insn):
        if m['rip']:
            t = self.u.reloc_target(insn) if insn.reloc is not None else None
            if t is not None:
                return ('P', 'GLOBAL:' + t[1], (t[2], 0))
            tgt = insn.end + m['disp']
            names = self.u.labels.get(tgt)
            return ('P', 'GLOBAL:' + (names[0] if names else '.text+%#x' % tgt), (0, 0))
        if m['seg'] in ('fs', 'gs'):
            return ('P', 'TLS', None)
        b = self.rd(st, m['base']) if m['base'] else AFF(0)
        if m['index'] and VREG.match(m['index']):
            x = SC
        else:
            x = self.rd(st, m['index']) if m['index'] else AFF(0)
        sc = m['scale']
        d = m['disp']
        if insn.reloc is not None and not m['rip']:
            # absolute address of a symbol used as displacement
            t = self.u.reloc_target(insn)
            return ('P', 'GLOBAL:' + t[1], None)
        if is_ptr(b) and not is_ptr(x):
            if x[0] == 'AFF':
                return ('P', b[1], off_add(b[2], d + x[1] * sc, x[2] * sc))
            if x[0] == 'SC':
                return ('P', b[1], None)
            return TOP
        if is_ptr(x) and not is_ptr(b) and sc == 1:
            if b[0] == 'AFF':
                return ('P', x[1], off_add(x[2], d + b[1], b[2]))
            if b[0] == 'SC':
                return ('P', x[1], None)
            return TOP
        if is_ptr(b) and is_ptr(x):
            return ('BAD', 'two pointers added: %s + %s' % (b[1], x[1]))
        if b == TOP or x == TOP:
            return TOP
        return ('BAD', 'address built from non-pointer values')

    def succ(self, a):
        return self.u.succ(self.f, a)

    # ------------------------------------------------------------------ fixpoint
    def run(self):
        entry = self.f.entry
        init = {r: SC for r in GPRS}
        init.update(self.args)
        init['rsp'] = ('P', 'STACK', (0, 0))
        init['#slots'] = {}
        self.IN = {entry: init}
        work = [entry]
        it = 0
        while work:
            a = work.pop()
            it += 1
            if it > 400000:
                raise AnalysisBroken('%s:%s: dataflow did not reach a fixpoint' % (self.u.name, self.f.name))
            st = dict(self.IN[a])
            st['#slots'] = dict(st['#slots'])
            self.transfer(st, self.u.insns[a], None)
            for n in self.succ(a):
                if n not in self.IN:
                    self.IN[n] = st
                    work.append(n)
                else:
                    old = self.IN[n]
                    new = {}
                    ch = False
                    for k in GPRS:
                        j = join(old[k], st[k])
                        new[k] = j
                        ch |= (j != old[k])
                    so, sn = old['#slots'], st['#slots']
                    ns = {}
                    for kk in set(so) & set(sn):
                        ns[kk] = join(so[kk], sn[kk])
                    # a slot known on one side only: unknown content
                    ch |= (ns != so)
                    new['#slots'] = ns
                    if ch:
                        self.IN[n] = new
                        work.append(n)
        # collection pass with the fixpoint states
        self.accesses = []
        for a in self.f.addrs:
            if a not in self.IN:
                continue
            st = dict(self.IN[a])
            st['#slots'] = dict(st['#slots'])
            self.transfer(st, self.u.insns[a], self.accesses)
        return self.accesses

    # ------------------------------------------------------------------ transfer
    def transfer(self, st, i, acc):
        mn = i.mn
        ops = i.ops
        slots = st['#slots']
        sp = st['rsp']
        # ---- record memory accesses
        if acc is not None:
            for k, o in enumerate(ops):
                if not is_mem(o):
                    continue
                kind = mem_kind(mn, k)
                if kind is None:
                    continue
                m = parse_mem(o)
                A = Access()
                A.insn = i
                A.kind = kind
                A.addr = self.addr(st, m, i)
                A.size = m['size']
                A.opidx = k
                A.mem = m
                A.val = None
                if k == 0 and kind == 'store' and len(ops) > 1 and ops[1] in REG64 and REG64[ops[1]][1] == 64:
                    A.val = self.rd(st, ops[1])      # value of a 64-bit register stored to memory (pointer retention rule)
                acc.append(A)
        # ---- stack operations
        if mn == 'push':
            if is_ptr(sp) and sp[2] is not None:
                no = (sp[2][0] - 8, sp[2][1])
                st['rsp'] = ('P', 'STACK', no)
                slots[no[0]] = self.rd(st, ops[0]) if ops[0] in REG64 and REG64[ops[0]][1] == 64 else SC
            return
        if mn == 'pop':
            g = REG64.get(ops[0]) if ops else None
            if is_ptr(sp) and sp[2] is not None:
                if g and g[1] == 64:
                    st[g[0]] = slots.get(sp[2][0], TOP)
                st['rsp'] = ('P', 'STACK', (sp[2][0] + 8, sp[2][1]))
            elif g:
                st[g[0]] = TOP
            return
        if mn == 'call':
            for r in CALLER_SAVED:
                st[r] = TOP
            return
        if mn in ('ret', 'jmp', 'nop', 'endbr64', 'vzeroupper', 'sfence', 'lfence', 'mfence', 'ud2') or is_cond_jump(mn) or mn.startswith('prefetch'):
            return
        if not ops:
            if mn in ('cdqe', 'cdq', 'cqo', 'cwde'):
                st['rax'] = SC
                if mn in ('cdq', 'cqo'):
                    st['rdx'] = SC
            elif mn in ('cpuid',):
                for r in ('rax', 'rbx', 'rcx', 'rdx'):
                    st[r] = SC
            elif mn in ('xgetbv', 'rdtsc'):
                st['rax'] = SC
                st['rdx'] = SC
            elif mn in ('cld', 'std', 'clc', 'stc', 'cmc', 'leave', 'pause', 'vzeroall'):
                pass
            else:
                self.unmodelled.add(mn)
            return
        # string instructions: implicit pointer registers keep their object
        if mn in ('movs', 'stos', 'lods', 'cmps', 'scas'):
            for r in ('rsi', 'rdi'):
                if is_ptr(st[r]):
                    st[r] = ('P', st[r][1], None)
            if i.prefix and any(p.startswith('rep') for p in i.prefix):
                st['rcx'] = SC
            if mn == 'lods':
                st['rax'] = SC
            return
        d0 = ops[0]
        g = REG64.get(d0)
        # ---- memory destination: track spills to known stack slots
        if g is None:
            if is_mem(d0):
                m = parse_mem(d0)
                av = self.addr(st, m, i)
                kind = mem_kind(mn, 0)
                if kind in ('store', 'rmw') and av[0] == 'P' and av[1] == 'STACK':
                    if av[2] is not None and av[2][1] == 0:
                        if mn == 'mov' and len(ops) > 1 and ops[1] in REG64 and REG64[ops[1]][1] == 64 and m['size'] in (8, None):
                            slots[av[2][0]] = self.rd(st, ops[1])
                        else:
                            # partial / vector / immediate store: invalidate overlapped slots
                            size = m['size'] or 64
                            for s in list(slots):
                                if s < av[2][0] + size and s + 8 > av[2][0]:
                                    slots[s] = SC if (mn == 'mov' and not (len(ops) > 1 and ops[1] in REG64)) else TOP
                            if mn == 'mov' and m['size'] == 8 and len(ops) > 1 and ops[1] not in REG64:
                                slots[av[2][0]] = SC
                    else:
                        # store to the stack at an unknown offset: every tracked slot may be overwritten
                        for s in list(slots):
                            slots[s] = TOP
            # implicit GPR results of instructions whose first operand is not a GPR
            if mn in ('mul', 'imul', 'div', 'idiv') and len(ops) == 1:
                st['rax'] = SC
                st['rdx'] = SC
            elif mn in ('cmpxchg',):
                st['rax'] = SC
            elif mn == 'xchg' and len(ops) > 1 and ops[1] in REG64:
                st[REG64[ops[1]][0]] = TOP if is_mem(d0) else SC
            elif mn == 'xadd' and len(ops) > 1 and ops[1] in REG64:
                st[REG64[ops[1]][0]] = TOP
            return
        dr, dw = g
        # ---- instructions that only read their first GPR operand
        if mn in ('cmp', 'test', 'bt') or (mn in ('crc32',) and False):
            return
        if mn in ('mul', 'imul', 'div', 'idiv') and len(ops) == 1:
            st['rax'] = SC
            st['rdx'] = SC
            return
        src = ops[1] if len(ops) > 1 else None

        def val(op):
            if op is None:
                return SC
            if op in REG64:
                return self.rd(st, op)
            if is_mem(op):
                return None
            try:
                return AFF(int(op, 0))
            except ValueError:
                return SC
        if dr == 'rsp':
            if mn in ('sub', 'add') and is_ptr(sp):
                v = val(src)
                if v and v[0] == 'AFF' and v[2] == 0 and sp[2] is not None:
                    c = v[1]
                    st['rsp'] = ('P', 'STACK', (sp[2][0] - c if mn == 'sub' else sp[2][0] + c, 0))
                else:
                    st['rsp'] = ('P', 'STACK', None)
                    st['#slots'] = {}
                return
            if mn == 'and':
                st['rsp'] = ('P', 'STACK', None)
                st['#slots'] = {}
                return
            if mn == 'mov':
                v = val(src)
                if v is not None and is_ptr(v) and v[1] == 'STACK':
                    st['rsp'] = v
                    if v[2] is None:
                        st['#slots'] = {}
                    return
            if mn == 'lea' and is_mem(src):
                av = self.addr(st, parse_mem(src), i)
                if av[0] == 'P' and av[1] == 'STACK':
                    st['rsp'] = av
                    if av[2] is None:
                        st['#slots'] = {}
                    return
            raise AnalysisBroken('%s:%s: stack pointer modified by an instruction the analysis does not model: %s' % (self.u.name, self.f.name, self.u.where(i)))
        if mn in ('mov', 'movabs'):
            if dw < 32:
                st[dr] = SC if not is_ptr(st.get(dr, SC)) else TOP
                return
            if src is not None and is_mem(src):
                m = parse_mem(src)
                av = self.addr(st, m, i)
                if av[0] == 'P' and av[1] == 'STACK' and av[2] is not None and av[2][1] == 0 and dw == 64:
                    st[dr] = slots.get(av[2][0], TOP)
                    return
                if dw == 64:
                    st[dr] = self.loadrule(av, m, 8, i)
                else:
                    lv = self.loadrule(av, m, 4, i)
                    st[dr] = lv if lv[0] in ('AFF', 'SC') else SC
                return
            v = val(src)
            if dw == 32:
                v = v if v[0] == 'AFF' else SC
            st[dr] = v
            return
        if mn in ('movzx', 'movsx', 'movsxd'):
            v = val(src) if src in REG64 and REG64[src][1] == 32 else SC
            st[dr] = v if (v is not None and v[0] == 'AFF') else SC
            return
        if mn == 'lea':
            av = self.addr(st, parse_mem(src), i)
            if av[0] == 'P':
                st[dr] = av if dw == 64 else SC
            elif av == TOP:
                st[dr] = TOP
            else:
                # pure arithmetic lea
                m = parse_mem(src)
                b = self.rd(st, m['base']) if m['base'] else AFF(0)
                x = self.rd(st, m['index']) if m['index'] else AFF(0)
                if b[0] == 'AFF' and x[0] == 'AFF':
                    st[dr] = AFF(b[1] + x[1] * m['scale'] + m['disp'], b[2] + x[2] * m['scale'])
                elif av[0] == 'BAD' and 'two pointers' in av[1]:
                    st[dr] = TOP
                else:
                    st[dr] = SC
            return
        if mn in ('add', 'sub'):
            a = st.get(dr, SC) if dw == 64 else self.rd(st, d0)
            b = val(src)
            if b is None:   # memory source
                m = parse_mem(src)
                av = self.addr(st, m, i)
                b = SC
                if av[0] == 'P' and av[1] == 'STACK' and av[2] is not None and av[2][1] == 0 and m['size'] == 8:
                    b = slots.get(av[2][0], TOP)
            if dw < 32:
                st[dr] = SC if not is_ptr(st.get(dr, SC)) else TOP
                return
            sgn = -1 if mn == 'sub' else 1
            if is_ptr(a) and dw == 64:
                if b[0] == 'AFF':
                    st[dr] = ('P', a[1], off_add(a[2], sgn * b[1], sgn * b[2]))
                elif b[0] == 'SC':
                    st[dr] = ('P', a[1], None)
                elif is_ptr(b) and mn == 'sub':
                    st[dr] = SC
                else:
                    st[dr] = TOP
            elif is_ptr(b) and dw == 64:
                if mn == 'add' and a[0] in ('AFF', 'SC'):
                    st[dr] = ('P', b[1], off_add(b[2], a[1], a[2]) if a[0] == 'AFF' else None)
                elif mn == 'sub' and a[0] in ('AFF', 'SC'):
                    st[dr] = SC       # scalar - pointer: not a pointer into the object
                else:
                    st[dr] = TOP
            elif a[0] == 'AFF' and b[0] == 'AFF':
                st[dr] = AFF(a[1] + sgn * b[1], a[2] + sgn * b[2])
            elif a == TOP or b == TOP:
                st[dr] = TOP
            else:
                st[dr] = SC
            return
        if mn in ('inc', 'dec'):
            a = st.get(dr, SC)
            s = 1 if mn == 'inc' else -1
            if is_ptr(a) and dw == 64:
                st[dr] = ('P', a[1], off_add(a[2], s))
            elif a[0] == 'AFF' and dw >= 32:
                st[dr] = AFF(a[1] + s, a[2])
            elif a == TOP:
                st[dr] = TOP
            else:
                st[dr] = SC
            return
        if mn == 'neg':
            a = st.get(dr, SC)
            st[dr] = AFF(-a[1], -a[2]) if a[0] == 'AFF' and dw >= 32 else (SC if a[0] in ('SC', 'AFF') else TOP)
            return
        if mn in ('shl', 'sal'):
            a = st.get(dr, SC)
            b = val(src)
            if a[0] == 'AFF' and b and b[0] == 'AFF' and b[2] == 0 and 0 <= b[1] < 32 and dw >= 32:
                st[dr] = AFF(a[1] << b[1], a[2] << b[1])
            else:
                st[dr] = SC if a[0] in ('SC', 'AFF') else TOP
            return
        if mn == 'imul' and len(ops) == 3:
            a = val(ops[1])
            b = val(ops[2])
            if a and b and a[0] == 'AFF' and b[0] == 'AFF' and b[2] == 0:
                st[dr] = AFF(a[1] * b[1], a[2] * b[1])
            else:
                st[dr] = SC
            return
        if mn == 'xor' and src == d0:
            st[dr] = AFF(0)
            return
        if mn == 'and':
            a = st.get(dr, SC)
            b = val(src)
            if b is not None and b[0] == 'AFF' and b[2] == 0 and 0 <= b[1] < (1 << 31):
                st[dr] = SC          # masked to a small non-negative range: a scalar whatever the input was
            elif is_ptr(a) and dw == 64:
                # aligning a pointer down keeps it in its object (used for the aligned stack frames)
                st[dr] = ('P', a[1], None) if (b and b[0] == 'AFF' and b[1] < 0) else TOP
            else:
                st[dr] = SC if (a != TOP and (b is None or b != TOP)) or dw < 64 else TOP
            return
        if mn == 'or' and is_ptr(st.get(dr, SC)) and dw == 64:
            st[dr] = ('P', st[dr][1], None)
            return
        if mn.startswith('cmov'):
            b = val(src)
            if b is None:
                m = parse_mem(src)
                b = self.loadrule(self.addr(st, m, i), m, 8, i) if dw == 64 else SC
            a = st.get(dr, SC)
            st[dr] = join(a, b) if dw == 64 else (SC if (a[0] in ('SC', 'AFF') and b[0] in ('SC', 'AFF')) else TOP)
            return
        if mn == 'xchg' and src in REG64:
            r2 = REG64[src][0]
            if dw == 64:
                st[dr], st[r2] = st.get(r2, SC), st.get(dr, SC)
            else:
                st[dr] = SC
                st[r2] = SC
            return
        if mn == 'xadd' and src in REG64:
            st[REG64[src][0]] = TOP
            st[dr] = TOP
            return
        # everything else producing a GPR: a scalar computed from its inputs.  If an input is a pointer the
        # result is not treated as a pointer into the object any more (using it as an address is reported).
        PURE = ('shr', 'sar', 'ror', 'rol', 'rcr', 'rcl', 'not', 'xor', 'or', 'sbb', 'adc', 'bsf', 'bsr', 'tzcnt', 'lzcnt', 'popcnt', 'bswap', 'imul',
                'shlx', 'shrx', 'sarx', 'bzhi', 'rorx', 'andn', 'pext', 'pdep', 'bextr', 'blsr', 'blsi', 'blsmsk', 'mulx', 'crc32', 'shld', 'shrd',
                'movd', 'movq', 'vmovd', 'vmovq', 'pextrb', 'pextrw', 'pextrd', 'pextrq', 'vpextrb', 'vpextrw', 'vpextrd', 'vpextrq', 'pmovmskb', 'vpmovmskb',
                'movmskps', 'movmskpd', 'vmovmskps', 'vmovmskpd', 'kmovb', 'kmovw', 'kmovd', 'kmovq', 'btr', 'bts', 'btc', 'cvttsd2si', 'cvtsd2si', 'lahf')
        if mn in PURE or mn.startswith('set'):
            if mn.startswith('set') or dw < 32:
                st[dr] = SC if not is_ptr(st.get(dr, SC)) else TOP
            else:
                st[dr] = SC
            if mn == 'mulx' and len(ops) > 1 and ops[1] in REG64:
                st[REG64[ops[1]][0]] = SC
            return
        self.unmodelled.add(mn)
        st[dr] = TOP


def tag_name(v):
    if v[0] == 'P':
        t = v[1]
        if isinstance(t, tuple):
            return '%s[%s]' % (t[1], 'any' if t[2] is None else ('%d%+d*N' % t[2] if t[2][1] else str(t[2][0])))
        return t
    return v[0] if v[0] != 'BAD' else 'BAD(%s)' % v[1]
