"""LLIR: the resolved C program as a Python object model read from textual LLVM IR
(clang 14, typed pointers, -O0 + sroa so that locals are SSA values and the CFG is still the
source's).  Provides: struct layouts, per-function CFG with dominators / post-dominators,
pointer provenance ("atoms") with constant byte offsets, value dependency sets, return-value
sets per path, and interprocedural write summaries."""
import re, os
from common import AnalysisBroken, run
import cbuild

PTR = 8


# ----------------------------------------------------------------------------- types
def split_top(s, sep=','):
    out = []
    d = 0
    cur = ''
    for ch in s:
        if ch in '{[(<':
            d += 1
        elif ch in '}])>':
            d -= 1
        if ch == sep and d == 0:
            out.append(cur.strip())
            cur = ''
        else:
            cur += ch
    if cur.strip():
        out.append(cur.strip())
    return out


class Types:
    def __init__(self, text):
        self.defs = {}
        for m in re.finditer(r'^(%[\w.]+) = type (.+)$', text, re.M):
            self.defs[m.group(1)] = m.group(2).strip()
        self._lay = {}

    def size_align(self, t):
        t = t.strip()
        if t.endswith('*') or t == 'ptr':
            return PTR, PTR
        m = re.match(r'^i(\d+)$', t)
        if m:
            b = (int(m.group(1)) + 7) // 8
            a = 1
            while a < b and a < 8:
                a *= 2
            return b, min(a, 8) if b <= 8 else 8
        if t in ('float',):
            return 4, 4
        if t in ('double',):
            return 8, 8
        if t == 'x86_fp80':
            return 16, 16
        m = re.match(r'^\[(\d+) x (.+)\]$', t)
        if m:
            s, a = self.size_align(m.group(2))
            return s * int(m.group(1)), a
        m = re.match(r'^<(\d+) x (.+)>$', t)
        if m:
            s, a = self.size_align(m.group(2))
            n = s * int(m.group(1))
            return n, n
        if t.startswith('%'):
            if t not in self.defs:
                raise AnalysisBroken('LLIR: unknown type ' + t)
            return self.size_align(self.defs[t])
        if t.startswith('<{') or t.startswith('{'):
            return self.layout(t)[1:]
        if t == 'opaque':
            return 0, 1
        if '(' in t:   # function type
            return PTR, PTR
        raise AnalysisBroken('LLIR: cannot size type ' + t)

    def layout(self, t):
        """struct body text -> (field list [(offset, type)], size, align)"""
        t = t.strip()
        if t.startswith('%'):
            key = t
            t = self.defs[t]
        else:
            key = t
        if key in self._lay:
            return self._lay[key]
        packed = t.startswith('<{')
        inner = t[2:-2] if packed else t[1:-1]
        off = 0
        al = 1
        fields = []
        for ft in split_top(inner):
            s, a = self.size_align(ft)
            if packed:
                a = 1
            off = (off + a - 1) // a * a
            fields.append((off, ft))
            off += s
            al = max(al, a)
        size = (off + al - 1) // al * al
        self._lay[key] = (fields, size, al)
        return self._lay[key]

    def gep_offset(self, basety, idx_tokens):
        """constant byte offset of a GEP; None if an index is not a constant.  Also returns the resulting type."""
        ty = basety
        off = 0
        var = False
        first = True
        for tok in idx_tokens:
            tok = tok.strip()
            ity, iv = tok.split(None, 1)
            const = re.match(r'^-?\d+$', iv.strip())
            if first:
                s, _ = self.size_align(ty)
                if const:
                    off += int(iv) * s
                else:
                    var = True
                first = False
                continue
            t = ty.strip()
            if t.startswith('%'):
                t2 = self.defs[t]
            else:
                t2 = t
            m = re.match(r'^\[(\d+) x (.+)\]$', t2)
            mv = re.match(r'^<(\d+) x (.+)>$', t2)
            if m or mv:
                el = (m or mv).group(2)
                s, _ = self.size_align(el)
                if const:
                    off += int(iv) * s
                else:
                    var = True
                ty = el
            else:
                if not const:
                    raise AnalysisBroken('LLIR: variable struct index')
                fields, _, _ = self.layout(ty)
                fo, ft = fields[int(iv)]
                off += fo
                ty = ft
        return (None if var else off), ty


# ----------------------------------------------------------------------------- program model
class Insn:
    __slots__ = ('dst', 'op', 'text', 'line', 'block', 'idx', 'ty', 'ops', 'callee', 'args', 'extra')

    def __repr__(self):
        return self.text


class Block:
    def __init__(self, label):
        self.label = label
        self.insns = []
        self.succs = []
        self.preds = []


class Func:
    def __init__(self, name):
        self.name = name
        self.params = []      # [(type, name)]
        self.blocks = {}
        self.order = []
        self.internal = False
        self.defs = {}        # ssa name -> Insn
        self.line = None
        self.unit = None
        self._dom = None
        self._pdom = None

    # CFG utilities
    def entry(self):
        return self.order[0]

    def dominators(self):
        if self._dom is None:
            self._dom = _dominators(self.order, {b: self.blocks[b].preds for b in self.order}, self.order[0])
        return self._dom

    def postdominators(self):
        if self._pdom is None:
            exits = [b for b in self.order if not self.blocks[b].succs]
            order = ['#exit'] + list(reversed(self.order))
            preds = {b: list(self.blocks[b].succs) for b in self.order}
            for e in exits:
                preds[e] = preds[e] + ['#exit']
            preds['#exit'] = []
            self._pdom = _dominators(order, preds, '#exit')
        return self._pdom

    def dominates(self, a, b):
        return a in self.dominators().get(b, set())

    def reachable_avoiding(self, start, avoid):
        """blocks reachable from start without entering any block in avoid (start itself is entered)"""
        seen = set()
        work = [start]
        while work:
            b = work.pop()
            if b in seen or b in avoid:
                continue
            seen.add(b)
            work += self.blocks[b].succs
        return seen

    def all_insns(self):
        for b in self.order:
            for i in self.blocks[b].insns:
                yield i


def _dominators(order, preds, entry):
    dom = {b: set(order) for b in order}
    dom[entry] = {entry}
    changed = True
    while changed:
        changed = False
        for b in order:
            if b == entry:
                continue
            ps = [dom[p] for p in preds.get(b, []) if p in dom]
            new = set.intersection(*ps) if ps else set()
            new = new | {b}
            if new != dom[b]:
                dom[b] = new
                changed = True
    return dom


_valtok = r'(?:%[\w.$-]+|@[\w.$-]+|-?\d+|null|undef|poison|true|false|zeroinitializer)'


class Module:
    def __init__(self, path):
        self.path = path
        text = open(path).read()
        self.types = Types(text)
        self.funcs = {}
        self.decls = set()
        self.globals = {}
        self.lines = {}
        self.scope_file = {}
        for m in re.finditer(r'^!(\d+) = !DILocation\(line: (\d+)', text, re.M):
            self.lines[m.group(1)] = int(m.group(2))
        for m in re.finditer(r'^declare [^\n]*?@([\w.$]+)\(', text, re.M):
            self.decls.add(m.group(1))
        for m in re.finditer(r'^@([\w.$]+) = ([^\n]*)$', text, re.M):
            self.globals[m.group(1)] = m.group(2)
        self.dbgfile = {}
        for m in re.finditer(r'^!(\d+) = distinct !DISubprogram\(name: "([\w.$]+)"[^\n]*?file: !(\d+)[^\n]*?line: (\d+)', text, re.M):
            self.dbgfile[m.group(2)] = (m.group(3), int(m.group(4)))
        self.files = {}
        for m in re.finditer(r'^!(\d+) = !DIFile\(filename: "([^"]+)"', text, re.M):
            self.files[m.group(1)] = m.group(2)
        for m in re.finditer(r'^define ([^\n]*?)@([\w.$]+)\(([^\n]*)\)[^\n]*\{\n(.*?)^\}', text, re.M | re.S):
            f = self._parse_func(m.group(1), m.group(2), m.group(3), m.group(4))
            self.funcs[f.name] = f

    def file_of(self, fname):
        d = self.dbgfile.get(fname)
        if d:
            p = self.files.get(d[0], '?')
            from common import REPO
            return p[len(REPO) + 1:] if p.startswith(REPO + '/') else p
        return '?'

    def where(self, f, insn):
        return '%s:%s (%s)' % (self.file_of(f.name), insn.line if insn is not None and insn.line else (self.dbgfile.get(f.name, ('', '?'))[1]), f.name)

    def _parse_func(self, header, name, params, body):
        f = Func(name)
        hw = header.split()
        f.internal = 'internal' in hw or 'private' in hw
        for p in split_top(params):
            if p == '...' or not p:
                continue
            toks = p.split()
            f.params.append((toks[0], toks[-1]))
        cur = None
        pend = None
        for raw in body.split('\n'):
            line = raw.rstrip()
            if not line:
                continue
            m = re.match(r'^([\w.$-]+):', line)
            if m and not line.startswith(' '):
                cur = Block(m.group(1))
                f.blocks[cur.label] = cur
                f.order.append(cur.label)
                continue
            s = line.strip()
            if pend is not None:
                pend += ' ' + s
                if s.startswith(']'):
                    s = pend
                    pend = None
                else:
                    continue
            elif s.startswith('switch ') and s.endswith('['):
                pend = s
                continue
            if cur is None:
                cur = Block('entry0')
                f.blocks[cur.label] = cur
                f.order.append(cur.label)
            if s.startswith('call void @llvm.dbg.') or s.startswith('call void @llvm.lifetime'):
                continue
            ins = self._parse_insn(s)
            ins.block = cur.label
            ins.idx = len(cur.insns)
            cur.insns.append(ins)
            if ins.dst:
                f.defs[ins.dst] = ins
        for b in f.order:
            blk = f.blocks[b]
            if not blk.insns:
                continue
            t = blk.insns[-1]
            if t.op == 'br':
                blk.succs = list(dict.fromkeys(t.extra['targets']))
            elif t.op == 'switch':
                blk.succs = list(dict.fromkeys([t.extra['default']] + [l for _, l in t.extra['cases']]))
        for b in f.order:
            for s_ in f.blocks[b].succs:
                if s_ not in f.blocks:
                    raise AnalysisBroken('LLIR: %s: branch to unknown block %s' % (name, s_))
                f.blocks[s_].preds.append(b)
        return f

    def _parse_insn(self, s):
        i = Insn()
        i.text = s
        i.line = None
        m = re.search(r', !dbg !(\d+)', s)
        if m:
            i.line = self.lines.get(m.group(1))
        core = re.sub(r'(, ![\w.]+ !\d+)+$', '', s)
        core = re.sub(r', !dbg !\d+', '', core)
        i.dst = None
        i.callee = None
        i.args = None
        i.extra = {}
        i.ty = None
        m = re.match(r'^(%[\w.$-]+) = (.*)$', core)
        if m:
            i.dst = m.group(1)
            core = m.group(2)
        toks = core.split(None, 1)
        op = toks[0]
        rest = toks[1] if len(toks) > 1 else ''
        if op in ('tail', 'musttail', 'notail'):
            op2 = rest.split(None, 1)
            op, rest = op2[0], op2[1] if len(op2) > 1 else ''
        i.op = op
        i.ops = []
        if op == 'br':
            labels = re.findall(r'label %([\w.$-]+)', rest)
            cm = re.match(r'^i1 (\S+),', rest)
            i.extra = dict(targets=labels, cond=cm.group(1) if cm else None)
            if cm:
                i.ops = [cm.group(1)]
        elif op == 'switch':
            mm = re.match(r'^(\S+) (\S+), label %([\w.$-]+) \[(.*)\]', rest)
            cases = re.findall(r'\S+ (-?\d+), label %([\w.$-]+)', mm.group(4))
            i.extra = dict(default=mm.group(3), cases=[(int(v), l) for v, l in cases])
            i.ops = [mm.group(2)]
            i.ty = mm.group(1)
        elif op == 'ret':
            mm = re.match(r'^(\S+)(?: (.+))?$', rest)
            if mm and mm.group(2):
                i.ty = mm.group(1)
                i.ops = [mm.group(2).strip()]
        elif op == 'load':
            mm = re.match(r'^(?:volatile )?(.+?), (.+?)\* (%s)' % _valtok, rest)
            if not mm:
                raise AnalysisBroken('LLIR: cannot parse ' + s)
            i.ty = mm.group(1)
            i.ops = [mm.group(3)]
        elif op == 'store':
            mm = re.match(r'^(?:volatile )?(.+?) (%s|[^,]+ \(.*\)|<[^>]*>|\{.*\}|\[.*\]), (.+?)\* (%s)' % (_valtok, _valtok), rest)
            if not mm:
                raise AnalysisBroken('LLIR: cannot parse ' + s)
            i.ty = mm.group(1)
            i.ops = [mm.group(2), mm.group(4)]
        elif op == 'getelementptr':
            r2 = rest.replace('inbounds ', '', 1)
            parts = split_top(r2)
            i.ty = parts[0]
            bm = re.match(r'^(.+?)\* (%s)$' % _valtok, parts[1])
            if not bm:
                # constant expression base: keep its text, the provenance analysis extracts the globals it names
                i.ops = [parts[1].split('* ', 1)[1] if '* ' in parts[1] and '@' in parts[1] else '?']
                i.extra = dict(basety=parts[0], idx=parts[2:], base=parts[1])
            else:
                i.ops = [bm.group(2)]
                i.extra = dict(basety=parts[0], idx=parts[2:])
        elif op in ('bitcast', 'zext', 'sext', 'trunc', 'ptrtoint', 'inttoptr', 'addrspacecast', 'fptosi', 'sitofp', 'uitofp', 'fptoui', 'fpext', 'fptrunc'):
            mm = re.match(r'^(.+?) (%s) to (.+)$' % _valtok, rest)
            if mm:
                i.ops = [mm.group(2)]
                i.ty = mm.group(3)
                i.extra = dict(fromty=mm.group(1))
            else:
                i.ops = ['?']
        elif op == 'icmp' or op == 'fcmp':
            mm = re.match(r'^(\w+) (.+?) (%s), (%s)$' % (_valtok, _valtok), rest)
            i.extra = dict(pred=mm.group(1))
            i.ty = mm.group(2)
            i.ops = [mm.group(3), mm.group(4)]
        elif op == 'phi':
            mm = re.match(r'^(.+?) (\[.*)$', rest)
            i.ty = mm.group(1)
            inc = []
            for part in split_top(mm.group(2)):
                part = part.strip()
                if part.startswith('[') and part.endswith(']'):
                    body = part[1:-1].strip()
                    k = body.rfind(', %')
                    if k > 0:
                        inc.append((body[:k].strip(), body[k + 3:].strip()))
            i.extra = dict(incoming=inc)
            i.ops = [v for v, b in inc]
        elif op == 'select':
            parts = split_top(rest)
            vals = []
            for p in parts:
                vals.append(p.split()[-1])
            i.ops = vals
            i.ty = ' '.join(parts[1].split()[:-1])
        elif op == 'call':
            mm = re.match(r'^(.*?)(@[\w.$]+|%[\w.$-]+)\((.*)\)\s*(#\d+)?$', rest)
            if not mm:
                if ' asm ' in ' ' + rest:
                    i.callee = '#asm'
                    i.args = []
                    return i
                raise AnalysisBroken('LLIR: cannot parse call ' + s)
            i.callee = mm.group(2)[1:] if mm.group(2).startswith('@') else mm.group(2)
            i.ty = mm.group(1).strip()
            args = []
            for a in split_top(mm.group(3)):
                if not a:
                    continue
                am = re.match(r'^(.*?)\s*(%s)$' % _valtok, a)
                if am:
                    args.append((am.group(1).strip(), am.group(2)))
                else:
                    args.append((a, '?'))
            i.args = args
            i.ops = [v for _, v in args]
        elif op in ('add', 'sub', 'mul', 'udiv', 'sdiv', 'urem', 'srem', 'and', 'or', 'xor', 'shl', 'lshr', 'ashr', 'fadd', 'fsub', 'fmul', 'fdiv'):
            r2 = re.sub(r'^(?:nuw |nsw |exact |disjoint )+', '', rest)
            mm = re.match(r'^(.+?) (%s), (%s)$' % (_valtok, _valtok), r2)
            if mm:
                i.ty = mm.group(1)
                i.ops = [mm.group(2), mm.group(3)]
            else:
                i.ops = ['?']
        elif op == 'alloca':
            i.ty = rest.split(',')[0].strip()
        elif op in ('unreachable', 'fence'):
            pass
        elif op in ('extractvalue', 'insertvalue', 'extractelement', 'insertelement', 'shufflevector', 'freeze', 'fneg'):
            i.ops = re.findall(_valtok, rest)
        else:
            raise AnalysisBroken('LLIR: unknown instruction: ' + s)
        return i


# ----------------------------------------------------------------------------- provenance
UNK = ('unk',)


class Prov:
    """pointer provenance / value dependencies inside one function"""

    def __init__(self, mod, f):
        self.m = mod
        self.f = f
        self.pidx = {n: k for k, (_, n) in enumerate(f.params)}
        self._memo = {}
        self._dep = {}

    def atoms(self, v, depth=0):
        """set of atoms a pointer/integer SSA value may be:
           ('param', k, off) ('global', name, off) ('alloca', name, off) ('ld', inner_atom, off) ('const', c) ('call', callee) UNK
           ('ld', A, off): the value loaded from memory at A, plus off."""
        if v in self._memo:
            return self._memo[v]
        if depth > 60:
            return {UNK}
        self._memo[v] = {UNK}   # cycle guard (phi loops)
        r = self._atoms(v, depth)
        if len(r) > 12:
            r = {UNK} | set(list(r)[:11])
        self._memo[v] = r
        return r

    def _shift(self, atoms, off):
        out = set()
        for a in atoms:
            if a[0] in ('param', 'global', 'alloca', 'ld'):
                out.add((a[0], a[1], None if (a[2] is None or off is None) else a[2] + off))
            elif a[0] == 'const' and off is not None:
                out.add(('const', a[1] + off))
            else:
                out.add(a if a[0] != 'const' else UNK)
        return out

    def _atoms(self, v, depth):
        if v in self.pidx:
            return {('param', self.pidx[v], 0)}
        if v.startswith('@'):
            return {('global', v[1:], 0)}
        if re.match(r'^-?\d+$', v):
            return {('const', int(v))}
        if v in ('null', 'zeroinitializer', 'false'):
            return {('const', 0)}
        if v == 'true':
            return {('const', 1)}
        if v in ('undef', 'poison', '?'):
            return {UNK}
        if '(' in v and '@' in v:
            # constant expression over global addresses (bitcast / getelementptr (... @g ...))
            return {('global', g, None) for g in re.findall(r'@([\w.$]+)', v)}
        i = self.f.defs.get(v)
        if i is None:
            return {UNK}
        op = i.op
        if op == 'alloca':
            return {('alloca', v, 0)}
        if op in ('bitcast', 'addrspacecast', 'ptrtoint', 'inttoptr', 'zext', 'sext', 'trunc', 'freeze'):
            return self.atoms(i.ops[0], depth + 1)
        if op == 'getelementptr':
            if i.ops[0] == '?':
                return {UNK}
            off, _ = self.m.types.gep_offset(i.extra['basety'], i.extra['idx'])
            return self._shift(self.atoms(i.ops[0], depth + 1), off)
        if op == 'load':
            out = set()
            for a in self.atoms(i.ops[0], depth + 1):
                out.add(('ld', a, 0) if a != UNK else UNK)
            return out
        if op in ('phi', 'select'):
            out = set()
            ops = i.ops if op == 'phi' else i.ops[1:]
            for o in ops:
                out |= self.atoms(o, depth + 1)
            return out
        if op in ('add', 'sub'):
            a = self.atoms(i.ops[0], depth + 1)
            b = self.atoms(i.ops[1], depth + 1)
            cb = [x for x in b if x[0] == 'const']
            ca = [x for x in a if x[0] == 'const']
            if len(b) == 1 and cb:
                return self._shift(a, cb[0][1] if op == 'add' else -cb[0][1])
            if len(a) == 1 and ca and op == 'add':
                return self._shift(b, ca[0][1])
            # pointer +/- variable: keep pointer atoms with unknown offset
            pa = {x for x in a if x[0] in ('param', 'global', 'alloca', 'ld')}
            pb = {x for x in b if x[0] in ('param', 'global', 'alloca', 'ld')}
            return self._shift(pa | (pb if op == 'add' else set()), None) or {UNK}
        if op == 'call':
            return {('call', i.callee)}
        return {UNK}

    def deps(self, v, depth=0):
        """memory locations / parameters / call results a value is computed from (transitively through arithmetic,
        casts, phis, and the ADDRESS is not part of the dependency of a load: the loaded location is)."""
        if v in self._dep:
            return self._dep[v]
        if depth > 80:
            return {UNK}
        self._dep[v] = set()
        r = self._deps(v, depth)
        self._dep[v] = r
        return r

    def _deps(self, v, depth):
        if v in self.pidx:
            return {('param', self.pidx[v], 0)}
        if v.startswith('@'):
            return {('global', v[1:], 0)}
        if re.match(r'^-?\d+$', v) or v in ('null', 'true', 'false', 'zeroinitializer', 'undef', 'poison', '?'):
            return set()
        i = self.f.defs.get(v)
        if i is None:
            return {UNK}
        if i.op == 'load':
            out = set()
            for a in self.atoms(i.ops[0]):
                out.add(('mem', a))
            return out
        if i.op == 'alloca':
            return {('alloca', v, 0)}
        if i.op == 'call':
            out = {('call', i.callee)}
            for o in i.ops:
                out |= self.deps(o, depth + 1)
            return out
        out = set()
        for o in i.ops:
            out |= self.deps(o, depth + 1)
        if i.op == 'getelementptr':
            for tok in i.extra.get('idx', []):
                v = tok.split()[-1]
                if v.startswith('%'):
                    out |= self.deps(v, depth + 1)
        return out


# ----------------------------------------------------------------------------- whole library
_lib = {}


def library(config='default'):
    """linked module of all C units after sroa"""
    if config in _lib:
        return _lib[config]
    bc = cbuild.linked(config)
    out = os.path.join(os.path.dirname(bc), 'lib.sroa.ll')
    if not os.path.exists(out):
        run(['opt-14', '-S', '-passes=function(sroa)', bc, '-o', out])
    m = Module(out)
    _lib[config] = m
    return m
