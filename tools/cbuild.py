"""Compile the library's C units (never running /repo's make) into objects / LLVM IR
inside a scratch directory, per build configuration."""
import os
from common import REPO, scratch, run, pmap, AnalysisBroken
import srcset

_dir = None
_memo = {}


def workdir():
    global _dir
    if _dir is None:
        _dir = scratch('isalverif-c-')
    return _dir


def _cc(job):
    unit, out, args = job
    cmd = ['clang'] + args + ['-o', out, os.path.join(REPO, unit)]
    p = run(cmd, ok=None)
    if p.returncode != 0:
        return (unit, None, p.stderr[-3000:])
    return (unit, out, '')


def _build(kind, config, units, extra, suffix, tag=''):
    ss = srcset.get()
    key = (kind, config, tuple(units), tuple(extra), tag)
    if key in _memo:
        return _memo[key]
    d = os.path.join(workdir(), '%s-%s%s' % (kind, config, tag))
    os.makedirs(d, exist_ok=True)
    base = ss.c_flags(srcset.CONFIGS[config]['c']) + ['-w']
    jobs = []
    for u in units:
        out = os.path.join(d, u.replace('/', '__')[:-2] + suffix)
        jobs.append((u, out, base + list(extra)))
    res = {}
    for unit, out, err in pmap(_cc, jobs):
        if out is None:
            raise AnalysisBroken('clang failed on %s [%s]: %s' % (unit, config, err))
        res[unit] = out
    _memo[key] = res
    return res


def objs(config='default', units=None):
    ss = srcset.get()
    return _build('obj', config, units or ss.c_units, ['-O0', '-g', '-fPIC', '-c'], '.o')


def lls(config='default', units=None, opt='-O0', tag=''):
    """LLVM IR text per unit. -O0 + disable-O0-optnone keeps one IR statement per source
    statement and still allows the analysis copy to be simplified with opt."""
    ss = srcset.get()
    extra = [opt, '-g', '-S', '-emit-llvm', '-fno-discard-value-names']
    if opt == '-O0':
        extra += ['-Xclang', '-disable-O0-optnone']
    return _build('ll' + opt, config, units or ss.c_units, extra, '.ll', tag)


def linked(config='default', passes=None):
    """one linked module (all 16 units) as .ll; optional opt pass pipeline"""
    key = ('linked', config, passes)
    if key in _memo:
        return _memo[key]
    ll = lls(config)
    d = os.path.join(workdir(), 'link-%s' % config)
    os.makedirs(d, exist_ok=True)
    out = os.path.join(d, 'lib.bc')
    if not os.path.exists(out):
        run(['llvm-link-14', '-o', out] + list(ll.values()))
    res = out
    if passes:
        res = os.path.join(d, 'lib-%s.ll' % abs(hash(passes)))
        run(['opt-14', '-S', '-passes=' + passes, out, '-o', res])
    _memo[key] = res
    return res


def probe_c(config, includes, exprs, name='probe'):
    """Let the compiler evaluate its own constant expressions: returns {label: int}.
    exprs: list of (label, C expression).  Only constants are evaluated; no library code runs."""
    ss = srcset.get()
    d = os.path.join(workdir(), 'probe-%s' % config)
    os.makedirs(d, exist_ok=True)
    src = os.path.join(d, name + '.c')
    with open(src, 'w') as f:
        f.write('#include <stddef.h>\n#include <stdint.h>\n')
        for i in includes:
            f.write('#include "%s"\n' % i)
        for k, (label, e) in enumerate(exprs):
            f.write('const long long vprobe_%d = (long long)(%s);\n' % (k, e))
    out = os.path.join(d, name + '.ll')
    p = run(['clang'] + ss.c_flags(srcset.CONFIGS[config]['c']) + ['-w', '-O0', '-S', '-emit-llvm', '-o', out, src], ok=None)
    if p.returncode != 0:
        raise AnalysisBroken('constant probe failed to compile [%s]: %s' % (config, p.stderr[-1500:]))
    import re
    vals = {}
    for m in re.finditer(r'@vprobe_(\d+) = .*? i64 (-?\d+)', open(out).read()):
        vals[exprs[int(m.group(1))][0]] = int(m.group(2))
    if len(vals) != len(exprs):
        missing = [l for l, _ in exprs if l not in vals]
        raise AnalysisBroken('constant probe: not compile-time constants: %s' % missing[:5])
    return vals
