"""SRCSET: what the x86-64 autotools build of libisal covers, from Makefile.am."""
import os, re
from common import REPO, AnalysisBroken, read_repo

TRUE_CONDS = {'CPU_X86_64', 'USE_NASM'}


def _parse(path, vars_, seen):
    txt = read_repo(path)
    # join continuation lines
    txt = re.sub(r'\\\n', ' ', txt)
    stack = []
    for line in txt.split('\n'):
        s = line.strip()
        if not s or s.startswith('#'):
            continue
        m = re.match(r'^if\s+(\w+)', s)
        if m:
            stack.append(m.group(1) in TRUE_CONDS)
            continue
        if s == 'else':
            stack[-1] = not stack[-1]
            continue
        if s == 'endif':
            stack.pop()
            continue
        if stack and not all(stack):
            continue
        m = re.match(r'^include\s+(\S+)', s)
        if m:
            inc = m.group(1)
            if inc not in seen:
                seen.add(inc)
                if os.path.exists(os.path.join(REPO, inc)):
                    _parse(inc, vars_, seen)
            continue
        m = re.match(r'^([A-Za-z_][\w]*)\s*(\+?=)\s*(.*)$', s)
        if m:
            k, op, v = m.groups()
            if op == '=':
                vars_[k] = v
            else:
                vars_[k] = (vars_.get(k, '') + ' ' + v).strip()


def _expand(vars_, s, depth=0):
    if depth > 20:
        raise AnalysisBroken('Makefile.am variable recursion')
    def rep(m):
        name = m.group(1) or m.group(2)
        return _expand(vars_, vars_.get(name, ''), depth + 1)
    return re.sub(r'\$\{(\w+)\}|\$\((\w+)\)', rep, s)


class SrcSet:
    def __init__(self):
        self.vars = {}
        _parse('Makefile.am', self.vars, set())
        self.vars['srcdir'] = REPO
        src = _expand(self.vars, self.vars.get('libisal_la_SOURCES', '')).split()
        self.c_units = [s for s in src if s.endswith('.c')]
        self.asm_units = [s for s in src if s.endswith('.asm')]
        other = [s for s in src if not (s.endswith('.c') or s.endswith('.asm'))]
        if other:
            raise AnalysisBroken('unexpected library source kind: %s' % other)
        for s in src:
            if not os.path.exists(os.path.join(REPO, s)):
                raise AnalysisBroken('library source listed in Makefile.am but missing: ' + s)
        if len(self.c_units) < 16 or len(self.asm_units) < 141:
            raise AnalysisBroken('source set shrank: %d C units (floor 16), %d asm units (floor 141)'
                                 % (len(self.c_units), len(self.asm_units)))
        inc = _expand(self.vars, '${INCLUDE} ${src_include}').replace('$(srcdir)', REPO).replace('${srcdir}', REPO)
        dirs = re.findall(r'-I\s*(\S+)', inc)
        self.inc_dirs = [d.rstrip('/') for d in dirs]
        self.extern_hdrs = _expand(self.vars, self.vars.get('extern_hdrs', '')).split()
        # flags the build may not contain for the C16 baseline assumption
        cflags = _expand(self.vars, '${AM_CFLAGS} ${my_CFLAGS} ${D}')
        self.isa_cflags = re.findall(r'(?<!\S)(-m(?:sse\S*|avx\S*|bmi\S*|arch=\S+|pclmul|gfni|vpclmul\S*|popcnt|lzcnt|tune=\S+|fma))', cflags)

    def asm_flags(self, defines=()):
        f = ['-f', 'elf64']
        for d in self.inc_dirs:
            f += ['-I', d + '/']
        f += list(defines)
        return f

    def c_flags(self, defines=()):
        f = []
        for d in self.inc_dirs:
            f += ['-I', d]
        f += ['-Dx86_64', '-D_GNU_SOURCE=1']
        f += list(defines)
        return f


DEFAULT_ASM_DEFS = ('-DAS_FEATURE_LEVEL=10', '-DHAVE_AS_KNOWS_AVX512=1')

CONFIGS = {
    'default': dict(c=DEFAULT_ASM_DEFS, asm=DEFAULT_ASM_DEFS),
    'hist8k': dict(c=DEFAULT_ASM_DEFS + ('-DIGZIP_HIST_SIZE=8192',), asm=DEFAULT_ASM_DEFS + ('-DIGZIP_HIST_SIZE=8192',)),
    'longhuff': dict(c=DEFAULT_ASM_DEFS + ('-DLONGER_HUFFTABLE',), asm=DEFAULT_ASM_DEFS + ('-DLONGER_HUFFTABLE',)),
    'gflarge': dict(c=DEFAULT_ASM_DEFS + ('-DGF_LARGE_TABLES',), asm=DEFAULT_ASM_DEFS),
    'asfeat6': dict(c=('-DAS_FEATURE_LEVEL=6', '-DHAVE_AS_KNOWS_AVX512=1'), asm=('-DAS_FEATURE_LEVEL=6', '-DHAVE_AS_KNOWS_AVX512=1')),
    'asfeat4': dict(c=('-DAS_FEATURE_LEVEL=4',), asm=('-DAS_FEATURE_LEVEL=4',)),
}

# a thorough run re-evaluates a property in the other build configurations by re-running the check with 'default' bound to that configuration
_alias = os.environ.get('VERIF_CONFIG_ALIAS')
if _alias:
    if _alias not in CONFIGS:
        raise SystemExit('unknown configuration %s' % _alias)
    CONFIGS['default'] = CONFIGS[_alias]

_inst = None


def get():
    global _inst
    if _inst is None:
        _inst = SrcSet()
    return _inst


if __name__ == '__main__':
    s = get()
    print(len(s.c_units), 'C units', len(s.asm_units), 'asm units')
    print(s.inc_dirs)
    print(s.c_units)
