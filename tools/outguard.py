"""OUTGUARD: output-space guards of the asm Huffman encoders (encode_deflate_icf_<isa>).

Two small dataflow analyses over the asm CFG:
  * slack: every register derived from the load of BitBuf2.m_out_end carries the constant c such
    that reg == m_out_end + c on every path (flat lattice: a join of different constants is TOP);
  * guard: for every store through a register derived from the load of BitBuf2.m_out_buf with no
    index register, a backward search finds, on every path and before any redefinition of that
    register, a compare of the register against a bound register whose pass edge leads to the store.
Rule: c + displacement + store width <= MARGIN, where MARGIN is what set_buf() keeps in reserve
(m_out_end = buf + len - MARGIN, folded by the compiler in a probe TU).  For a store with an index
register (data-dependent, non-negative offset) the same inequality with index = 0 is only a necessary condition."""
import os, re
from common import AnalysisBroken, run
import srcset, cbuild, regdef
from asmdb import REG64, parse_mem, is_mem

TOP = 'TOP'
PASS_TAKEN = {'jbe': True, 'jna': True, 'jb': True, 'jnae': True, 'jc': True,     # cmp ptr,bound ; jcc taken => ptr <= / < bound
              'ja': False, 'jnbe': False, 'jae': False, 'jnb': False, 'jnc': False}  # fallthrough => ptr <= / < bound


def margin(config='default'):
    """bytes set_buf() keeps between m_out_end and the real end of the buffer, as the compiler folds it"""
    ss = srcset.get()
    d = os.path.join(cbuild.workdir(), 'mirror-%s' % config)
    os.makedirs(d, exist_ok=True)
    src = os.path.join(d, 'setbuf_probe.c')
    with open(src, 'w') as f:
        f.write('#include <stdint.h>\n#include "igzip_lib.h"\n#include "bitbuf2.h"\n'
                'long vprobe(void) { struct BitBuf2 b; set_buf(&b, (unsigned char *) 0, 100000u); return 100000 - (long) b.m_out_end; }\n')
    out = os.path.join(d, 'setbuf_probe.ll')
    p = run(['clang'] + ss.c_flags(srcset.CONFIGS[config]['c']) + ['-w', '-O2', '-S', '-emit-llvm', '-o', out, src], ok=None)
    if p.returncode != 0:
        raise AnalysisBroken('set_buf probe does not compile: %s' % p.stderr[-800:])
    m = re.search(r'define[^\n]*@vprobe\(\)[^{]*\{[^}]*?ret i64 (-?\d+)', open(out).read(), re.S)
    if not m:
        raise AnalysisBroken('set_buf probe: the compiler did not fold m_out_end to a constant')
    return int(m.group(1))


def slack_flow(u, f, is_end_load):
    """forward: reg -> frozenset of c (reg == m_out_end + c for one of them) | TOP (more than CAP values: the
    offset grows around a loop).  is_end_load(insn) says whether insn loads m_out_end."""
    CAP = 4
    IN = {f.entry: {}}
    work = [f.entry]
    while work:
        a = work.pop()
        st = dict(IN[a])
        i = u.insns[a]
        ops = i.ops
        d = REG64.get(ops[0]) if ops else None
        if is_end_load(i):
            st[d[0]] = frozenset([0])
        elif i.mn in ('add', 'sub') and d and d[1] == 64 and d[0] in st and re.match(r'^(0x[0-9a-f]+|\d+)$', ops[1]):
            if st[d[0]] != TOP:
                k = int(ops[1], 0) * (1 if i.mn == 'add' else -1)
                st[d[0]] = frozenset(c + k for c in st[d[0]])
        elif i.mn == 'lea' and d and d[1] == 64:
            m = parse_mem(ops[1])
            b = REG64.get(m['base']) if m['base'] else None
            if b and b[0] in st and not m['index']:
                st[d[0]] = st[b[0]] if st[b[0]] == TOP else frozenset(c + (m['disp'] or 0) for c in st[b[0]])
            else:
                st.pop(d[0], None)
        elif i.mn == 'mov' and d and d[1] == 64 and len(ops) == 2 and ops[1] in REG64 and REG64[ops[1]][1] == 64 and REG64[ops[1]][0] in st:
            st[d[0]] = st[REG64[ops[1]][0]]
        else:
            _, defs = regdef.def_use(i)
            for r in defs:
                if r in st:
                    if i.mn in ('cmp', 'test'):
                        continue
                    st[r] = TOP if i.mn not in ('mov', 'pop', 'xor', 'movzx', 'lea') else None
                    if st[r] is None:
                        del st[r]
        for n in u.succ(f, a):
            if n not in IN:
                IN[n] = st
                work.append(n)
            else:
                old = IN[n]
                new = {}
                for r in set(old) | set(st):
                    if r in old and r in st:
                        if TOP in (old[r], st[r]):
                            new[r] = TOP
                        else:
                            j = old[r] | st[r]
                            new[r] = j if len(j) <= CAP else TOP
                    else:
                        new[r] = TOP      # bound on one path, something else on the other
                if new != old:
                    IN[n] = new
                    work.append(n)
    return IN


def analyse(u, f, fl, accesses, off_buf, off_end):
    """-> dict(stores=[(insn, reg, disp, width, guards|problem)], undecided=[insn], nguards=int)"""
    def bb_load(i, off):
        if i.mn != 'mov' or len(i.ops) != 2 or not is_mem(i.ops[1]) or i.ops[0] not in REG64:
            return False
        st = fl.IN.get(i.addr)
        if st is None:
            return False
        av = fl.addr(st, parse_mem(i.ops[1]), i)
        return av[0] == 'P' and av[1] == 'BB' and av[2] is not None and av[2] == (off, 0)
    end_loads = [u.insns[a] for a in f.addrs if bb_load(u.insns[a], off_end)]
    buf_loads = [u.insns[a] for a in f.addrs if bb_load(u.insns[a], off_buf)]
    if not end_loads or not buf_loads:
        raise AnalysisBroken('%s:%s: loads of BitBuf2.m_out_end / m_out_buf not found' % (u.name, f.name))
    SL = slack_flow(u, f, lambda i: i in end_loads)
    preds = {}
    for a in f.addrs:
        for n in u.succ(f, a):
            preds.setdefault(n, []).append(a)
    # guards: cmp P, B with B in slack state; conditional jump right after (flags not redefined in between)
    guards = {}      # (branch addr, pass successor) -> (reg P, slack, cmp insn)
    for a in f.addrs:
        i = u.insns[a]
        if i.mn != 'cmp' or len(i.ops) != 2 or i.ops[0] not in REG64 or i.ops[1] not in REG64:
            continue
        st = SL.get(a, {})
        b = REG64[i.ops[1]][0]
        if b not in st:
            continue
        j = u.insns.get(i.end)
        if j is None or j.mn not in PASS_TAKEN:
            continue
        passn = j.target if PASS_TAKEN[j.mn] else j.end
        guards[(j.addr, passn)] = (REG64[i.ops[0]][0], st[b], i)
    out = dict(stores=[], undecided=[], nguards=len(guards), end_loads=end_loads)
    for acc in accesses:
        if acc.kind not in ('store', 'rmw') or not (acc.addr[0] == 'P' and acc.addr[1] == 'OUT'):
            continue
        i = acc.insn
        mo = [o for o in i.ops if is_mem(o)][0]
        m = parse_mem(mo)
        if m['base'] not in REG64:
            out['undecided'].append(i)
            continue
        indexed = bool(m['index'])
        r = REG64[m['base']][0]
        found = []
        problem = None
        seen = set()
        work = [i.addr]
        while work and problem is None:
            a = work.pop()
            for p in preds.get(a, []):
                if (p, a) in seen:
                    continue
                seen.add((p, a))
                g = guards.get((p, a))
                if g is not None and g[0] == r:
                    found.append(g)
                    continue
                pi = u.insns[p]
                _, defs = regdef.def_use(pi)
                if r in defs and pi.mn not in ('cmp', 'test'):
                    problem = 'the pointer is redefined by "%s" (%s) after the last bound check' % (pi.text, u.where(pi, f))
                    break
                if p == f.entry:
                    problem = 'a path from the function entry reaches the store without a bound check'
                    break
                work.append(p)
        out['stores'].append((i, r, m['disp'] or 0, acc.size, problem if problem else found, indexed))
    return out


def analyse_stream(u, f, fl, accesses, endoff):
    """level-0 deflate bodies: the bit buffer lives inside the stream; the output pointer is compared with the m_out_end FIELD
    (a memory operand).  -> (stores [(insn, reg, disp, width, problem | number of guards)], number of guard sites)"""
    preds = {}
    for a in f.addrs:
        for n in u.succ(f, a):
            preds.setdefault(n, []).append(a)
    guards = {}
    for a in f.addrs:
        i = u.insns[a]
        if i.mn == 'cmp' and len(i.ops) == 2 and i.ops[0] in REG64 and is_mem(i.ops[1]):
            st = fl.IN.get(a)
            if st is None:
                continue
            av = fl.addr(st, parse_mem(i.ops[1]), i)
            if av[0] == 'P' and av[1] == 'STREAM' and av[2] == (endoff, 0):
                j = u.insns.get(i.end)
                if j is not None and j.mn in PASS_TAKEN:
                    guards[(j.addr, j.target if PASS_TAKEN[j.mn] else j.end)] = (REG64[i.ops[0]][0], i)
    out = []
    for acc in accesses:
        if acc.kind not in ('store', 'rmw') or not (acc.addr[0] == 'P' and acc.addr[1] == 'OUT'):
            continue
        m = acc.mem
        i = acc.insn
        if m['index'] or m['base'] not in REG64:
            out.append((i, None, 0, acc.size, 'the address has an index register'))
            continue
        r = REG64[m['base']][0]
        seen = set()
        work = [i.addr]
        problem = None
        ng = 0
        while work and problem is None:
            a = work.pop()
            for p in preds.get(a, []):
                if (p, a) in seen:
                    continue
                seen.add((p, a))
                g = guards.get((p, a))
                if g is not None and g[0] == r:
                    ng += 1
                    continue
                pi = u.insns[p]
                _, defs = regdef.def_use(pi)
                if r in defs and pi.mn not in ('cmp', 'test'):
                    problem = 'the pointer is advanced by "%s" (%s) after the last comparison with m_out_end' % (pi.text, u.where(pi, f))
                    break
                if p == f.entry:
                    problem = 'a path from the function entry reaches the store without a comparison with m_out_end'
                    break
                work.append(p)
        out.append((i, r, m['disp'] or 0, acc.size, problem if problem else ng))
    return out, len(guards)
