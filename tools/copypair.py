"""R-COPY-PAIR: in the copy form of a checksum kernel every store into the destination buffer writes a value that was loaded from the
source buffer at the SAME offset.  Whole-function linear-form dataflow (tools/asmlin.py) with the two cursors joined as a lockstep pair
gives each access address as (entry pointer + offset form); a per-register tag remembers the source address a value was loaded from."""
import re
from asmdb import REG64, is_mem, parse_mem, is_cond_jump
from common import AnalysisBroken
import asmlin
from asmlin import add, canon, fmt


def vname(o):
    m = re.match(r'^[xyz]mm(\d+)$', re.sub(r'\{[^}]*\}', '', o).strip())
    if m:
        return 'v' + m.group(1)
    g = REG64.get(o)
    return g[0] if g else None


def analyse(u, f, dst='rsi', src='rdx'):
    L = asmlin.Lin(u, f)
    L.pairs = [(dst, src)]
    L.run()
    # second pass over the fixed point: tags of register contents
    dst_e, src_e = dst + '@entry', src + '@entry'
    TAG = {f.entry: {}}
    order = list(f.addrs)
    preds = {}
    for a in f.addrs:
        for s_ in u.succ(f, a):
            preds.setdefault(s_, []).append(a)
    OUT = {}
    work = [f.entry]
    obligations = []
    seen_store = {}
    n = 0
    while work:
        a = work.pop()
        n += 1
        if n > 200000:
            raise AnalysisBroken('copypair: no fixpoint in %s' % f.name)
        if a != f.entry:
            cur = None
            for p_ in preds.get(a, []):
                if p_ in OUT:
                    cur = dict(OUT[p_]) if cur is None else {k: v for k, v in cur.items() if OUT[p_].get(k) == v}
            if cur is None:
                continue
            TAG[a] = cur
        tg = dict(TAG[a])
        i = u.insns[a]
        st = L.IN.get(a)
        if st is not None and i.ops and not is_cond_jump(i.mn) and i.mn not in ('cmp', 'test', 'jmp', 'ret', 'nop', 'lea') and not i.mn.startswith('prefetch'):
            stc = {'r': dict(st['r']), 'm': dict(st['m'])}
            mn, ops = i.mn, i.ops
            is_move = mn.startswith(('mov', 'vmov', 'lddqu', 'vlddqu')) and len(ops) == 2
            if is_mem(ops[0]) and len(ops) >= 2:
                ad = L.addr(stc, ops[0])
                if ad is not None and ad.get(dst_e) == 1:
                    off = canon(add(ad, {dst_e: 1, src_e: -1}, -1))        # the same position seen from the source cursor
                    r = vname(ops[1]) if is_move else None
                    seen_store[a] = (i, off, tg.get(r) if r else None, is_move)
            elif is_move and is_mem(ops[1]) and vname(ops[0]):
                ad = L.addr(stc, ops[1])
                if ad is not None:
                    tg[vname(ops[0])] = canon(ad)
                else:
                    tg.pop(vname(ops[0]), None)
            elif is_move and vname(ops[0]) and vname(ops[1]):
                if vname(ops[1]) in tg:
                    tg[vname(ops[0])] = tg[vname(ops[1])]
                else:
                    tg.pop(vname(ops[0]), None)
            elif vname(ops[0]):
                tg.pop(vname(ops[0]), None)
                # partial register writes keep nothing
        if OUT.get(a) == tg:
            continue
        OUT[a] = tg
        for s_ in u.succ(f, a):
            if s_ not in work:
                work.append(s_)
    return L, seen_store


def check(rep, floor, pattern=r'^crc16_t10dif_copy_'):
    import provenance
    src_e_name = 'rdx@entry'
    R = rep.rule('R-COPY-PAIR', 'copy form of the T10-DIF kernels: every store into the destination buffer (offset form o relative to the dst argument, cursors of dst and src joined as a lockstep pair) writes a register that '
                 'was loaded from the source buffer at the same offset o relative to the src argument', floor=floor, unit='destination stores')
    res, _ = provenance.analyse('default')
    n = 0
    for sym, info in sorted(res.items()):
        if not re.match(pattern, sym):
            continue
        n += 1
        u, f = info['unit'], info['func']
        L, stores = analyse(u, f)
        if not stores:
            raise AnalysisBroken('R-COPY-PAIR: %s has no store through the destination argument' % sym)
        for a, (i, off, tag, is_move) in sorted(stores.items()):
            R.instance()
            R.check(is_move and tag == off, '%s: %s' % (u.name, u.where(i, f)), '%s: the destination byte(s) at dst + %s receive %s' %
                    (sym, fmt(add(dict(off), {'src@entry': 1, src_e_name: -1})), ('what was loaded from %s' % fmt(dict(tag))) if tag is not None else 'a value that is not a plain copy of the source at that offset'),
                    key='R-COPY-PAIR|%s|%#x' % (sym, a - f.entry), sample='%s: dst+o <- src+o' % sym if a == min(stores) else None)
    if n == 0:
        raise AnalysisBroken('R-COPY-PAIR: no copy kernel found')
