"""R-RECORD-FULL: a record that is built field by field in memory that was not cleared (the ICF match records in the level buffer: three bit-fields of one 32-bit word)
must have every bit of its word defined before the block that builds it ends.  Per basic block, for every word that is written by read-modify-write (load, clear a
field with AND, OR the new field in, store), the mask of ORIGINAL bits that survive the chain of stores is computed (AND with a constant clears, OR merges, anything else
keeps everything); in a function that PRODUCES records the mask at the end of the block has to be 0.  A field left out keeps whatever the buffer held: the output then
depends on the previous contents of the level buffer."""
import re
from common import AnalysisBroken
import irrules

# functions that create ICF records field by field (updaters of existing records, such as set_long_icf_fg_base, rewrite one field of a complete record and are not producers)
PRODUCERS = ['gen_icf_map_h1_base', 'create_icf_block_hdr']
UPDATERS = ['set_long_icf_fg_base']


def root(f, v, depth=0):
    """structural key of an address: bitcasts and zero GEPs are looked through; a pointer re-loaded from the same cell (p->next_record, read again for every field) gets the same key"""
    d = f.defs.get(v)
    if d is None or depth > 8:
        return v
    if d.op == 'bitcast':
        return root(f, d.ops[0], depth + 1)
    if d.op == 'getelementptr':
        idx = [x.split(' ')[-1] for x in (d.extra or {}).get('idx', [])]
        if idx and all(o == '0' for o in idx):
            return root(f, d.ops[0], depth + 1)
        if idx and all(re.match(r'^-?\d+$', o) for o in idx):
            return ('gep', root(f, d.ops[0], depth + 1)) + tuple(idx)
        return v
    if d.op == 'load':
        return ('load', root(f, d.ops[0], depth + 1))
    return v


def contains(key, sub):
    return key == sub or (isinstance(key, tuple) and any(contains(k, sub) for k in key[1:]))


def chains(f):
    """-> [(block, root, first bit-field store, surviving mask when the record is complete: at the end of the block, or when the pointer cell the record is addressed through is overwritten)]"""
    out = []
    for b in f.order:
        cur, first, kept, done = {}, {}, {}, set()

        def finish(r):
            if r in first and r not in done:
                done.add(r)
                out.append((b, r, first[r], cur[r]))
        for i in f.blocks[b].insns:
            nm = i.dst
            if i.op == 'load' and (i.ty or '') == 'i32':
                r = root(f, i.ops[0])
                kept[nm] = (r, cur.get(r, 0xffffffff), False)
            elif i.op == 'and' and nm:
                a, c = i.ops
                ka, kc = kept.get(a), kept.get(c)
                if ka and re.match(r'^-?\d+$', c):
                    kept[nm] = (ka[0], ka[1] & (int(c) & 0xffffffff), True)
                elif kc and re.match(r'^-?\d+$', a):
                    kept[nm] = (kc[0], kc[1] & (int(a) & 0xffffffff), True)
                elif ka or kc:
                    k = ka or kc
                    kept[nm] = (k[0], (ka[1] if ka else 0) | (kc[1] if kc else 0), k[2])
            elif i.op in ('or', 'xor') and nm:
                ks = [kept.get(o) for o in i.ops if kept.get(o)]
                if ks:
                    m = 0
                    for k in ks:
                        m |= k[1]
                    kept[nm] = (ks[0][0], m, any(k[2] for k in ks))
            elif i.op == 'store' and (i.ty or '').endswith('*'):
                cell = root(f, i.ops[1])
                for r in list(first):
                    if contains(r, ('load', cell)):
                        finish(r)
                        cur.pop(r, None)
            elif i.op == 'store' and (i.ty or '') == 'i32':
                r = root(f, i.ops[1])
                k = kept.get(i.ops[0])
                if k and k[0] == r:
                    cur[r] = k[1]
                    if k[2] and r not in done:
                        first.setdefault(r, i)          # a field was cleared with a constant mask: a bit-field insert
                else:
                    cur[r] = 0        # a plain store of a fresh word defines all of it
            elif nm and any(kept.get(o) for o in i.ops):
                k = [kept.get(o) for o in i.ops if kept.get(o)][0]
                kept[nm] = (k[0], 0xffffffff, k[2])
        for r in list(first):
            finish(r)
    return out


def fmt(r):
    return r if isinstance(r, str) else '*(' + ' '.join(fmt(x) for x in r[1:]) + ')' if r[0] == 'load' else '(' + ' '.join(fmt(x) for x in r[1:]) + ')'


def check(rep, mod, floor=2):
    R = rep.rule('R-RECORD-FULL', 'in the functions that produce ICF match records field by field (%s), every 32-bit record word written by read-modify-write has no original bit left when the block that builds it ends '
                 '(mask of surviving bits through the chain load / and-constant / or / store): no bit-field of a fresh record keeps the previous contents of the level buffer' % ', '.join(PRODUCERS), floor=floor,
                 unit='records built field by field')
    for fn in PRODUCERS:
        if fn not in mod.funcs:
            raise AnalysisBroken('R-RECORD-FULL: %s not found' % fn)
    # a producer may delegate the field-by-field construction to a static helper (e.g. an extracted "write the end-of-block record"): file-local callees are producers too
    prod, work = list(PRODUCERS), [(fn, 0) for fn in PRODUCERS]
    while work:
        fn, depth = work.pop()
        for i in mod.funcs[fn].all_insns():
            g = mod.funcs.get(i.callee or '') if i.op == 'call' else None
            if g is not None and g.internal and g.name not in prod and g.name not in UPDATERS and depth < 2:
                prod.append(g.name)
                work.append((g.name, depth + 1))
    for fn in prod:
        f = mod.funcs[fn]
        for b, r, i, m in chains(f):
            R.instance()
            R.check(m == 0, mod.where(f, i), '%s: the record at %s is built field by field, but bits %#010x of its word are never written in this block: they keep the previous contents of the buffer and reach the '
                    'encoder with the record' % (fn, fmt(r), m), key='R-RECORD-FULL|%s|%s' % (fn, b), sample='%s: all 32 bits of %s defined' % (fn, fmt(r)))
