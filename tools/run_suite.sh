#!/bin/sh
# Run the repository's own 16-test suite on a scratch copy of /repo (optionally with a
# patch applied), never in /repo itself.  usage: run_suite.sh [patch.diff ...]
set -e
D=$(mktemp -d /tmp/isal-suite-XXXXXX)
trap 'rm -rf "$D"' EXIT
rsync -a --exclude .git /repo/ "$D/"
cd "$D"
for p in "$@"; do patch -p1 -s < "$p"; done
make -j16 check > "$D/log.txt" 2>&1 || { tail -40 "$D/log.txt"; echo SUITE-FAILED; exit 1; }
grep -E "^# (TOTAL|PASS|FAIL|ERROR)" "$D/log.txt" | tr '\n' ' '; echo
