#!/bin/sh
# Run the repository's own 16-test suite on a scratch copy of /repo (optionally with patches applied),
# never in /repo itself.  usage: run_suite.sh [patch.diff ...]
# libtool's test wrappers hard-code LD_LIBRARY_PATH=/repo/.libs; they are re-pointed at the copy so that the
# tests really execute the library built from the (patched) copy.
set -e
D=$(mktemp -d /tmp/isal-suite-XXXXXX)
trap 'rm -rf "$D"' EXIT
rsync -a --exclude .git /repo/ "$D/"
cd "$D"
for p in "$@"; do patch -p1 -s < "$p"; done
grep -rlI --include='*_test' 'LD_LIBRARY_PATH="/repo/.libs' . 2>/dev/null | xargs -r sed -i "s#LD_LIBRARY_PATH=\"/repo/.libs#LD_LIBRARY_PATH=\"$D/.libs#"
# nasm include files are not tracked by the Makefile's dependencies: force reassembly of every unit
find . -name '*.asm' -not -path './.git/*' | xargs touch
make -j16 check > "$D/log.txt" 2>&1 || { grep -E "^(FAIL|ERROR|PASS):" "$D/log.txt" | sort | uniq -c | sort -rn | head -20; tail -15 "$D/log.txt"; echo SUITE-FAILED; exit 1; }
# prove the tests ran against the copy's library
if ! grep -q "$D/.libs" crc/crc16_t10dif_test; then echo "wrapper not re-pointed"; exit 2; fi
grep -E "^# (TOTAL|PASS|FAIL|ERROR)" "$D/log.txt" | tr '\n' ' '; echo
