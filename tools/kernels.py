"""Kernel families of the asm code base: SysV argument roles per family, used by the
provenance rules (C03 C04 C05 C08 C13 C20).  The roles are read off the public prototypes
in include/*.h; the family of a symbol is decided by its name stem."""
import re
from asmflow import P, SC, TOP, AFF


def arr_load(arrtag):
    def rule(av, m, size, insn):
        if av[0] == 'P' and av[1] == arrtag and size == 8:
            return ('P', ('L', arrtag, av[2]), (0, 0))
        if av == TOP:
            return TOP
        return SC
    return rule


def no_ptr_load(av, m, size, insn):
    return TOP if av == TOP else SC


def multi_rule(*arrtags):
    def rule(av, m, size, insn):
        if av[0] == 'P' and av[1] in arrtags and size == 8:
            return ('P', ('L', av[1], av[2]), (0, 0))
        if av == TOP:
            return TOP
        return SC
    return rule


def family(sym):
    """-> dict(family, args, loadrule, count_arg) or None for non-kernel symbols"""
    m = re.match(r'^gf_(\d?)vect_dot_prod_(\w+)$', sym)
    if m:
        n = int(m.group(1) or 1)
        # (len, vlen, gftbls, src**, dest* | dest**)
        args = {'rdx': P('TBL'), 'rcx': P('SRCARR')}
        args['r8'] = P('DEST') if n == 1 else P('DESTARR')
        return dict(family='ec_dot_prod', arity=n, isa=m.group(2), args=args, loadrule=multi_rule('SRCARR', 'DESTARR'), count_arg='rsi')
    m = re.match(r'^gf_(\d?)vect_mad_(\w+)$', sym)
    if m:
        n = int(m.group(1) or 1)
        # (len, vec, vec_i, gftbls, src*, dest* | dest**)
        args = {'rcx': P('TBL'), 'r8': P('SRC')}
        args['r9'] = P('DEST') if n == 1 else P('DESTARR')
        return dict(family='ec_mad', arity=n, isa=m.group(2), args=args, loadrule=multi_rule('DESTARR'), count_arg=None)
    m = re.match(r'^gf_vect_mul_(sse|avx)$', sym)
    if m:
        return dict(family='ec_mul', arity=1, isa=m.group(1), args={'rsi': P('TBL'), 'rdx': P('SRC'), 'rcx': P('DEST')}, loadrule=no_ptr_load, count_arg=None)
    m = re.match(r'^(xor_gen|pq_gen|xor_check|pq_check)_(\w+)$', sym)
    if m:
        return dict(family='raid_' + m.group(1), isa=m.group(2), args={'rdx': P('ARRAY')}, loadrule=arr_load('ARRAY'), count_arg='rdi')
    m = re.match(r'^mem_zero_detect_(\w+)$', sym)
    if m:
        return dict(family='mem_zero', isa=m.group(1), args={'rdi': P('BUF')}, loadrule=no_ptr_load, count_arg=None)
    m = re.match(r'^crc16_t10dif_copy_(\w+)$', sym)
    if m:
        return dict(family='crc_copy', isa=m.group(1), args={'rsi': P('DST'), 'rdx': P('SRC')}, loadrule=no_ptr_load, count_arg=None)
    m = re.match(r'^crc32_iscsi_(\w+)$', sym)
    if m:
        return dict(family='crc', isa=m.group(1), args={'rdi': P('BUF')}, loadrule=no_ptr_load, count_arg=None)
    m = re.match(r'^(crc16_t10dif|crc32_ieee|crc32_gzip_refl|crc64_\w+?_(?:refl|norm))_(by\d+(?:_\d+)?|0\d)$', sym)
    if m:
        return dict(family='crc', isa=m.group(2), args={'rsi': P('BUF')}, loadrule=no_ptr_load, count_arg=None)
    m = re.match(r'^adler32_(sse|avx2_4)$', sym)
    if m:
        return dict(family='adler', isa=m.group(1), args={'rsi': P('BUF')}, loadrule=no_ptr_load, count_arg=None)
    return igzip_family(sym)


_off = {}


def offsets():
    """struct offsets as the assembler evaluates them (data_struct2.asm / inflate_data_structs.asm)"""
    if not _off:
        import mirror
        names = ['_next_in', '_next_out', '_hufftables', '_level_buf', '_internal_state', '_internal_state_bitbuf_m_out_buf',
                 '_internal_state_bitbuf_m_out_end', '_internal_state_bitbuf_m_out_start', '_m_out_buf', '_m_out_end', '_m_out_start',
                 '_icf_buf_next', '_icf_buf_start', '_hash_map_matches_next', '_hash_map_matches_end', '_isal_zstream_size', '_level_buf_base_size',
                 '_internal_state_dist_mask', '_internal_state_hash_mask', '_dist_mask', '_hash_mask']
        v, drop = mirror.asm_values('default', ['options.asm', 'lz0a_const.asm', 'data_struct2.asm'], names, 'kern_off')
        if drop:
            from common import AnalysisBroken
            raise AnalysisBroken('deflate struct offsets missing from data_struct2.asm: %s' % drop)
        _off['deflate'] = v
        v2, drop2 = mirror.asm_values('default', ['igzip_decode_block_stateless_01.asm'], ['_next_out', '_next_in', '_inflate_state_size'], 'kern_off_i')
        if drop2:
            from common import AnalysisBroken
            raise AnalysisBroken('inflate struct offsets missing: %s' % drop2)
        _off['inflate'] = v2
    return _off


def stream_rule(av, m, size, insn):
    """pointers loaded from isal_zstream / level_buf / BitBuf2"""
    if av == TOP:
        return TOP
    if av[0] != 'P' or size != 8:
        return SC
    o = offsets()['deflate']
    t, off = av[1], av[2]
    if off is None or off[1] != 0:
        # unknown offset inside a structure that holds pointers: the loaded value could be any of them
        return TOP if t in ('STREAM', 'LEVELBUF', 'BB') else SC
    c = off[0]
    if t == 'STREAM':
        if c == o['_next_in']:
            return P('NEXT_IN')
        if c in (o['_next_out'], o['_internal_state_bitbuf_m_out_buf'], o['_internal_state_bitbuf_m_out_end'], o['_internal_state_bitbuf_m_out_start']):
            return P('OUT', None)
        if c == o['_hufftables']:
            return P('HUFF')
        if c == o['_level_buf']:
            return P('LEVELBUF')
        return SC
    if t == 'LEVELBUF':
        if c in (o['_icf_buf_next'], o['_icf_buf_start'], o['_hash_map_matches_next'], o['_hash_map_matches_end']):
            return P('LEVELBUF', None)
        return SC
    if t == 'BB':
        if c in (o['_m_out_buf'], o['_m_out_end'], o['_m_out_start']):
            return P('OUT', None)
        return SC
    return SC


def state_rule(av, m, size, insn):
    if av == TOP:
        return TOP
    if av[0] != 'P' or size != 8:
        return SC
    o = offsets()['inflate']
    if av[1] == 'STATE':
        if av[2] is None or av[2][1] != 0:
            return TOP
        if av[2][0] == o['_next_out']:
            return P('OUT', None)
        if av[2][0] == o['_next_in']:
            return P('NEXT_IN')
    return SC


def igzip_family(sym):
    m = re.match(r'^(isal_deflate_body|isal_deflate_finish|isal_deflate_icf_body_hash_hist|isal_deflate_icf_finish_hash_hist)_(0\d)$', sym)
    if m:
        return dict(family='igzip_deflate', kind=m.group(1), isa=m.group(2), args={'rdi': P('STREAM')}, loadrule=stream_rule, count_arg=None)
    m = re.match(r'^decode_huffman_code_block_stateless_(0\d)$', sym)
    if m:
        return dict(family='igzip_decode', isa=m.group(1), args={'rdi': P('STATE'), 'rsi': P('OUT', None)}, loadrule=state_rule, count_arg=None)
    m = re.match(r'^encode_deflate_icf_(0\d)$', sym)
    if m:
        return dict(family='igzip_encode_df', isa=m.group(1), args={'rdi': P('ICF'), 'rsi': P('ICF', None), 'rdx': P('BB'), 'rcx': P('HUFFICF')}, loadrule=stream_rule, count_arg=None)
    m = re.match(r'^gen_icf_map_lh1_(0\d)$', sym)
    if m:
        return dict(family='igzip_gen_icf_map', isa=m.group(1), args={'rdi': P('STREAM'), 'rsi': P('MATCHLOOKUP')}, loadrule=stream_rule, count_arg=None)
    m = re.match(r'^set_long_icf_fg_(0\d)$', sym)
    if m:
        return dict(family='igzip_set_long', isa=m.group(1), args={'rdi': P('NEXT_IN'), 'rcx': P('MATCHLOOKUP')}, loadrule=no_ptr_load, count_arg=None)
    m = re.match(r'^isal_update_histogram_(0\d)$', sym)
    if m:
        return dict(family='igzip_histogram', isa=m.group(1), args={'rdi': P('NEXT_IN'), 'rdx': P('HIST')}, loadrule=no_ptr_load, count_arg=None)
    m = re.match(r'^isal_deflate_hash_crc_(0\d)$', sym)
    if m:
        return dict(family='igzip_hash', isa=m.group(1), args={'rdi': P('HASHTBL'), 'rcx': P('DICT')}, loadrule=no_ptr_load, count_arg=None)
    if sym in ('build_heap', 'build_huff_tree'):
        return dict(family='igzip_heap', isa='base', args={'rdi': P('HEAP')}, loadrule=no_ptr_load, count_arg=None)
    return None
