"""CMPUNITS: a unit (dimension) lint for the match-length computations of the asm kernels.
Types of a general-purpose register:
  DATA  loaded from memory (8 data bytes)          XD   xor of two DATA words: one bit per data BIT that differs
  MK    pmovmskb / kmov of a byte compare: one bit per BYTE (also after not / xor with an all-ones constant)
  BIT   bsf/tzcnt of XD: a bit index               BYTE bsf/tzcnt of MK, or BIT >> 3: a byte index
  MIX   join of XD and MK (granularity depends on the path);  MIXI  bsf/tzcnt of MIX
Rule: whatever is added to a register that the function also uses to form addresses (a byte offset or pointer) must not be
BIT or MIXI: a first-difference index is a byte count only after the bit index was divided by 8, on every path."""
import re
from asmdb import REG64, parse_mem, is_mem, is_cond_jump
import regdef

IMM = re.compile(r'^(0x[0-9a-f]+|-?\d+)$')
O = None


def join(a, b):
    if a == b:
        return a
    if a is None or b is None:
        return None
    if {a, b} == {'XD', 'MK'} or 'MIX' in (a, b) and {a, b} <= {'XD', 'MK', 'MIX'}:
        return 'MIX'
    if {a, b} <= {'BIT', 'BYTE', 'MIXI'}:
        return 'MIXI'
    return None


def analyse(u, f):
    """-> (findings [(insn, type, dest reg)], number of bsf/tzcnt sites typed)"""
    addr_regs = set()
    for a in f.addrs:
        for o in u.insns[a].ops:
            if is_mem(o):
                m = parse_mem(o)
                for r in (m['base'], m['index']):
                    if r in REG64:
                        addr_regs.add(REG64[r][0])
    IN = {f.entry: {}}
    work = [f.entry]
    while work:
        a = work.pop()
        st = dict(IN[a])
        step(u.insns[a], st, None, addr_regs)
        for n in u.succ(f, a):
            if n not in IN:
                IN[n] = st
                work.append(n)
            else:
                old = IN[n]
                new = {}
                for r in set(old) & set(st):
                    j = join(old[r], st[r])
                    if j is not None:
                        new[r] = j
                if new != old:
                    IN[n] = new
                    work.append(n)
    out = []
    nsites = 0
    for a in f.addrs:
        if a in IN:
            st = dict(IN[a])
            nsites += step(u.insns[a], st, out, addr_regs)
    return out, nsites


def step(i, st, out, addr_regs):
    mn, ops = i.mn, i.ops
    n = 0
    if is_cond_jump(mn) or mn in ('jmp', 'ret', 'cmp', 'test', 'nop', 'endbr64') or not ops:
        return 0
    d = REG64.get(ops[0]) if not is_mem(ops[0]) else None
    src = ops[1] if len(ops) > 1 else None
    t = None
    if d is None:
        _, defs = regdef.def_use(i)
        for r in defs:
            st.pop(r, None)
        return 0
    r0 = d[0]

    def ty(o):
        if o is None:
            return None
        if is_mem(o):
            return 'DATA' if parse_mem(o)['size'] in (8, 4, None) else None
        g = REG64.get(o)
        return st.get(g[0]) if g else None
    if mn == 'mov' and src is not None:
        t = ty(src) if (is_mem(src) or src in REG64) else None
        if is_mem(src) and d[1] < 32:
            t = None
    elif mn == 'xor' and src is not None:
        a_, b_ = st.get(r0), ty(src)
        if ops[0] == src:
            t = None
        elif a_ == 'DATA' and b_ == 'DATA':
            t = 'XD'
        elif a_ in ('MK', 'XD', 'MIX') and IMM.match(src or ''):
            t = a_            # inverting a compare mask / constant flip keeps the granularity
        elif a_ == 'XD' and b_ == 'XD':
            t = 'XD'
    elif mn in ('pmovmskb', 'vpmovmskb', 'movmskps', 'vmovmskps') or mn.startswith('kmov'):
        t = 'MK'
    elif mn in ('not',):
        t = st.get(r0)
    elif mn in ('bsf', 'tzcnt', 'bsr', 'lzcnt') and src is not None:
        s = ty(src)
        n = 1 if s in ('XD', 'MK', 'MIX') else 0
        t = {'XD': 'BIT', 'MK': 'BYTE', 'MIX': 'MIXI'}.get(s)
    elif mn in ('shr', 'sar') and src is not None and IMM.match(src):
        s = st.get(r0)
        if s == 'BIT' and int(src, 0) == 3:
            t = 'BYTE'
        elif s == 'MIXI':
            t = 'MIXI'
        elif s in ('XD', 'MK', 'MIX'):
            t = s if False else None
    elif mn in ('and', 'or') and src is not None:
        a_, b_ = st.get(r0), ty(src)
        if IMM.match(src or ''):
            t = a_ if a_ in ('MK', 'XD', 'MIX') else None
        elif a_ == b_ and a_ in ('MK', 'XD'):
            t = a_
    elif mn in ('add', 'lea') and src is not None:
        s = ty(src) if mn == 'add' else None
        if mn == 'lea':
            m = parse_mem(src)
            for r in (m['base'], m['index']):
                if r in REG64 and st.get(REG64[r][0]) in ('BIT', 'MIXI'):
                    s = st.get(REG64[r][0])
        if out is not None and s in ('BIT', 'MIXI') and (r0 in addr_regs or mn == 'lea'):
            out.append((i, s, r0))
        t = None
    elif mn.startswith('cmov') and src is not None:
        t = join(st.get(r0), ty(src))
    if t is None:
        st.pop(r0, None)
    else:
        st[r0] = t
    return n
