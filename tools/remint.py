"""REMINT: constant-interval x congruence abstract interpretation of the 64-bit general-purpose registers of one asm kernel.
A value is (lo, hi, m, r): lo <= v <= hi (either may be infinite) and v == r (mod m) (m = 0: v == r exactly, m = 1: nothing known).
Precise transfer for mov / add / sub / inc / dec / shl / lea-without-index on 64-bit operands and for `lea r, [rel symbol]` (the
register becomes offset 0 from that symbol); every other definition of a register (tools/regdef.def_use) gives the full range.
Branch refinement on the flags of the last add / sub / cmp / test of a register with an immediate (signed conditions; unsigned ones
only when the register is known non-negative).  Widening after a fixed number of visits, then three descending passes.
Byte counts are assumed < 2^62 so that the signed views do not wrap.  Used for the remainder a count register holds behind the
fold loops of the CRC kernels, which the affine domain of tools/bounds.py loses."""
from math import gcd, inf
from common import AnalysisBroken
from asmdb import REG64, parse_mem, is_mem, is_cond_jump
import regdef
from bounds import IMM, imm

TOP = (-inf, inf, 1, 0)
NOFLAG_PREFIX = ('mov', 'lea', 'p', 'v', 'nop', 'endbr', 'jmp', 'push', 'pop', 'xorps', 'xorpd', 'andps', 'andpd', 'orps', 'shufps', 'blend', 'lddqu', 'crc32', 'prefetch', 'cmov', 'set')
FLAG_VECTOR = ('ptest', 'vptest', 'pcmpistr', 'pcmpestr', 'vpcmpistr', 'vpcmpestr', 'popcnt', 'vcomis', 'vucomis', 'pop')


def const(c):
    return (c, c, 0, c)


def norm(v):
    lo, hi, m, r = v
    if lo == hi and lo not in (inf, -inf):
        return const(lo)
    if m == 0:
        return const(r)
    if m > 1:
        r %= m
        if lo != -inf and lo % m != r:
            lo += (r - lo) % m
        if hi != inf and hi % m != r:
            hi -= (hi - r) % m
        if lo == hi:
            return const(lo)
    else:
        m, r = 1, 0
    return (lo, hi, m, r)


def join(a, b):
    m = gcd(gcd(a[2], b[2]), abs(a[3] - b[3]))
    return norm((min(a[0], b[0]), max(a[1], b[1]), m, a[3] if m != 1 else 0))


def addc(v, c):
    lo, hi, m, r = v
    return norm((lo + c, hi + c, m, r + c))


def sub(a, b):
    m = gcd(a[2], b[2])
    return norm((a[0] - b[1], a[1] - b[0], m, (a[3] - b[3]) if m != 1 else 0))


def is64(op):
    return op in REG64 and REG64[op][0] == op


class RemInt:
    def __init__(self, u, f, count_reg):
        self.u, self.f, self.count_reg = u, f, count_reg
        self.base = {}         # (insn addr of a `lea r, [rel sym]`) -> reloc target; registers derived from it are offsets from that symbol

    def flags_kept(self, mn):
        return mn.startswith(NOFLAG_PREFIX) and not mn.startswith(FLAG_VECTOR) or is_cond_jump(mn)

    @staticmethod
    def stale(st, d):
        if st['fl'] and st['fl'][1] == d:
            st['fl'] = None

    def transfer(self, st, i):
        """st: {'r': {reg: value}, 'src': {reg: lea addr}, 'fl': flags descriptor or None}"""
        mn, ops = i.mn, i.ops
        r, src = st['r'], st['src']
        done = False
        if len(ops) >= 1 and is64(ops[0]):
            d = ops[0]
            if mn == 'mov' and len(ops) == 2 and IMM.match(ops[1]):
                r[d] = const(imm(ops[1])); src.pop(d, None); done = True
                self.stale(st, d)
            elif mn == 'mov' and len(ops) == 2 and is64(ops[1]):
                r[d] = r.get(ops[1], TOP)
                if ops[1] in src:
                    src[d] = src[ops[1]]
                else:
                    src.pop(d, None)
                done = True
                self.stale(st, d)
            elif mn in ('add', 'sub') and len(ops) == 2 and IMM.match(ops[1]):
                c = imm(ops[1])
                r[d] = addc(r.get(d, TOP), c if mn == 'add' else -c)
                st['fl'] = ('res', d, 0, False); done = True
            elif mn == 'sub' and len(ops) == 2 and is64(ops[1]) and ops[1] not in src:
                r[d] = sub(r.get(d, TOP), r.get(ops[1], TOP))
                st['fl'] = None; done = True
            elif mn == 'add' and len(ops) == 2 and is64(ops[1]) and ops[1] not in src:
                b = r.get(ops[1], TOP)
                r[d] = sub(r.get(d, TOP), (-b[1], -b[0], b[2], -b[3]))
                st['fl'] = None; done = True
            elif mn in ('inc', 'dec'):
                r[d] = addc(r.get(d, TOP), 1 if mn == 'inc' else -1)
                st['fl'] = ('res', d, 0, False); done = True
            elif mn == 'shl' and len(ops) == 2 and IMM.match(ops[1]) and d not in src:
                k = 1 << imm(ops[1])
                lo, hi, m, rr = r.get(d, TOP)
                r[d] = norm((lo * k, hi * k, m * k if m != 1 else k, rr * k if m != 1 else 0))
                st['fl'] = None; done = True
            elif mn == 'lea' and len(ops) == 2 and is_mem(ops[1]):
                if getattr(i, 'reloc', None) is not None and self.u.reloc_target(i) is not None:
                    r[d] = const(0); src[d] = i.addr
                    self.base[i.addr] = self.u.reloc_target(i); done = True
                    self.stale(st, d)
                else:
                    pm = parse_mem(ops[1])
                    if pm and not pm['rip'] and pm['base'] and not pm['index'] and is64(pm['base']):
                        r[d] = addc(r.get(pm['base'], TOP), pm['disp'] or 0)
                        if pm['base'] in src:
                            src[d] = src[pm['base']]
                        else:
                            src.pop(d, None)
                        done = True
                        self.stale(st, d)
            elif mn in ('or', 'and') and len(ops) == 2 and ops[1] == d:
                st['fl'] = ('res', d, 0, False); done = True      # value unchanged, flags of the value
            elif mn in ('cmp', 'test'):
                done = True
        if mn == 'cmp' and len(ops) == 2 and is64(ops[0]) and IMM.match(ops[1]):
            st['fl'] = ('cmp', ops[0], imm(ops[1]), False); return
        if mn == 'test' and len(ops) == 2 and is64(ops[0]) and ops[0] == ops[1]:
            st['fl'] = ('res', ops[0], 0, False); return
        if done:
            return
        du = regdef.def_use(i)
        for x in du[1]:
            if isinstance(x, str):
                r.pop(x, None); src.pop(x, None)
                if st['fl'] and st['fl'][1] == x:
                    st['fl'] = None
        if not self.flags_kept(mn):
            st['fl'] = None

    def refine(self, st, cc, taken):
        fl = st['fl']
        if not fl:
            return st
        reg = fl[1]
        c, excl = fl[2], fl[3]
        lo, hi, m, rr = st['r'].get(reg, TOP)
        neg = {'l': 'ge', 'ge': 'l', 'le': 'g', 'g': 'le', 'e': 'ne', 'ne': 'e', 'z': 'nz', 'nz': 'z', 's': 'ns', 'ns': 's', 'b': 'ae', 'ae': 'b', 'be': 'a', 'a': 'be',
               'nl': 'l', 'nge': 'ge', 'nle': 'le', 'ng': 'g', 'nb': 'b', 'nae': 'ae', 'nbe': 'be', 'na': 'a', 'c': 'nc', 'nc': 'c'}
        alias = {'nl': 'ge', 'nge': 'l', 'nle': 'g', 'ng': 'le', 'z': 'e', 'nz': 'ne', 'nb': 'ae', 'nae': 'b', 'nbe': 'a', 'na': 'be', 'c': 'b', 'nc': 'ae'}
        if cc not in neg:
            return st
        if not taken:
            cc = neg[cc]
        cc = alias.get(cc, cc)
        if cc in ('s', 'ns'):
            if fl[0] != 'res':
                return st
            cc = 'l' if cc == 's' else 'ge'
        if cc in ('b', 'ae', 'be', 'a'):
            if fl[0] != 'cmp' or not (lo >= 0 and c >= 0):
                return st
            cc = {'b': 'l', 'ae': 'ge', 'be': 'le', 'a': 'g'}[cc]
        if cc == 'l':
            hi = min(hi, c - 1)
        elif cc == 'ge':
            lo = max(lo, c + 1 if excl else c)
        elif cc == 'le':
            hi = min(hi, c - 1 if excl else c)
        elif cc == 'g':
            lo = max(lo, c + 1)
        elif cc == 'e':
            lo, hi = max(lo, c), min(hi, c)
        elif cc == 'ne':
            step = m if m > 1 else 1
            if lo == c:
                lo += step
            if hi == c:
                hi -= step
            st['fl'] = (fl[0], fl[1], c, True)      # the flags are still those of this comparison: a later >= / <= on them is strict
        if lo > hi:
            return None               # edge infeasible
        st['r'][reg] = norm((lo, hi, m, rr))
        return st

    @staticmethod
    def copy(st):
        return {'r': dict(st['r']), 'src': dict(st['src']), 'fl': st['fl']}

    def out_edges(self, a, st):
        i = self.u.insns[a]
        st = self.copy(st)
        self.transfer(st, i)
        out = []
        if is_cond_jump(i.mn):
            for tgt, taken in ((i.target, True), (i.end, False)):
                if tgt in self.f.aset:
                    s2 = self.refine(self.copy(st), i.mn[1:], taken) if i.target != i.end else st
                    if s2 is not None:
                        out.append((tgt, s2))
        else:
            for n in self.u.succ(self.f, a):
                if n in self.f.aset:
                    out.append((n, st))
        return out

    @staticmethod
    def join_st(a, b, widen=False):
        r = {}
        for k in a['r']:
            if k in b['r']:
                v = join(a['r'][k], b['r'][k])
                if widen and v != a['r'][k]:
                    lo = a['r'][k][0] if v[0] == a['r'][k][0] else -inf
                    hi = a['r'][k][1] if v[1] == a['r'][k][1] else inf
                    v = norm((lo, hi, v[2], v[3]))
                if v != TOP:
                    r[k] = v
        src = {k: v for k, v in a['src'].items() if b['src'].get(k) == v and k in r}
        for k in list(r):
            if (k in a['src'] or k in b['src']) and k not in src:
                del r[k]                # offsets from different symbols do not join
        return {'r': r, 'src': src, 'fl': a['fl'] if a['fl'] == b['fl'] else None}

    def run(self):
        u, f = self.u, self.f
        st0 = {'r': {}, 'src': {}, 'fl': None}
        if self.count_reg:
            st0['r'][self.count_reg] = (0, inf, 1, 0)
        IN = {f.entry: st0}
        visits = {}
        work = [f.entry]
        it = 0
        while work:
            a = work.pop()
            it += 1
            if it > 400000:
                raise AnalysisBroken('%s:%s: REMINT did not converge' % (u.name, f.name))
            for n, s in self.out_edges(a, IN[a]):
                if n not in IN:
                    IN[n] = s
                    work.append(n)
                    continue
                visits[n] = visits.get(n, 0) + 1
                j = self.join_st(IN[n], s, widen=visits[n] > 12)
                if j != IN[n]:
                    IN[n] = j
                    work.append(n)
        # descending passes: recompute every state from its predecessors without widening
        order = sorted(IN)
        for _ in range(3):
            edges = {}
            for a in order:
                for n, s in self.out_edges(a, IN[a]):
                    edges.setdefault(n, []).append(s)
            new = {f.entry: st0}
            for n, ss in edges.items():
                if n == f.entry:
                    ss = ss + [st0]
                acc = ss[0]
                for s in ss[1:]:
                    acc = self.join_st(acc, s)
                new[n] = acc
            IN = {a: new.get(a, IN[a]) for a in order}
        self.IN = IN
        return IN

    def offset_of(self, a, reg):
        """-> (lea addr, value) when reg at instruction a is an offset from a relocated symbol with a known value, else None"""
        st = self.IN.get(a)
        if st is None or reg not in st['src'] or reg not in st['r']:
            return None
        return st['src'][reg], st['r'][reg]
