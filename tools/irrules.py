"""Shared queries over LLIR for the C-side rules."""
import re
from common import AnalysisBroken
import llir

WRITERS = {'llvm.memcpy.p0i8.p0i8.i64': [0], 'llvm.memmove.p0i8.p0i8.i64': [0], 'llvm.memset.p0i8.i64': [0], 'wmemset': [0],
           'memcpy': [0], 'memmove': [0], 'memset': [0], '__memcpy_chk': [0], '__memset_chk': [0], '__memmove_chk': [0]}
READONLY_EXT = {'memcmp', 'strnlen', '__assert_fail', 'llvm.ctlz.i32', 'llvm.cttz.i64', 'llvm.dbg.declare', 'llvm.dbg.value',
                'llvm.bswap.i32', 'llvm.bswap.i64', 'llvm.bswap.i16', 'llvm.ctlz.i64', 'llvm.cttz.i32', 'llvm.expect.i64', 'llvm.assume'}

_prov = {}


def prov(mod, f):
    k = (id(mod), f.name)
    if k not in _prov:
        _prov[k] = llir.Prov(mod, f)
    return _prov[k]


def write_sites(mod, f):
    """[(insn, set of destination atoms, kind)] for stores and writing libc/intrinsic calls in f"""
    P = prov(mod, f)
    out = []
    for i in f.all_insns():
        if i.op == 'store':
            out.append((i, P.atoms(i.ops[1]), 'store'))
        elif i.op == 'call' and i.callee in WRITERS:
            for k in WRITERS[i.callee]:
                out.append((i, P.atoms(i.args[k][1]), i.callee))
    return out


def base_root(atom):
    """innermost root of an atom: ('param',k) / ('global',g) / ('alloca',n) / ('call',c) / 'unk'"""
    a = atom
    while a[0] == 'ld':
        a = a[1]
    return a


def is_local(atom):
    return atom[0] == 'alloca'


# ------------------------------------------------------------------ interprocedural write summaries
def _subst(atom, argatoms, depth=0):
    """rewrite an atom of the callee's frame into the caller's frame"""
    if atom[0] == 'param':
        k, off = atom[1], atom[2]
        if k >= len(argatoms):
            return {llir.UNK}
        out = set()
        for a in argatoms[k]:
            if a[0] in ('param', 'global', 'alloca', 'ld'):
                out.add((a[0], a[1], None if (a[2] is None or off is None) else a[2] + off))
            else:
                out.add(a if a[0] != 'const' else llir.UNK)
        return out
    if atom[0] == 'ld':
        inner = _subst(atom[1], argatoms, depth + 1)
        return {('ld', x, atom[2]) if x != llir.UNK and x[0] != 'call' else llir.UNK for x in inner}
    if atom[0] == 'alloca':
        return set()      # callee locals are dead for the caller
    return {atom}


class Summaries:
    """W[f] = atoms (in f's frame) that f or its callees may write; calls to asm symbols use `asm_writes`"""

    def __init__(self, mod, asm_writes=None):
        self.mod = mod
        self.asm_writes = asm_writes or {}
        self.W = {n: None for n in mod.funcs}
        self.unknown_callees = {}
        self._compute()

    def _compute(self):
        mod = self.mod
        local = {}
        calls = {}
        for n, f in mod.funcs.items():
            s = set()
            for i, atoms, kind in write_sites(mod, f):
                s |= {a for a in atoms if not is_local(a)}
            local[n] = s
            cl = []
            P = prov(mod, f)
            for i in f.all_insns():
                if i.op == 'call' and i.callee not in WRITERS and i.callee not in READONLY_EXT and not i.callee.startswith('llvm.'):
                    cl.append((i, [P.atoms(v) for _, v in i.args]))
            calls[n] = cl
        W = {n: set(local[n]) for n in mod.funcs}
        changed = True
        rounds = 0
        while changed and rounds < 30:
            changed = False
            rounds += 1
            for n, f in mod.funcs.items():
                for i, argatoms in calls[n]:
                    c = i.callee
                    if c in mod.funcs:
                        src = W[c]
                    elif c in self.asm_writes:
                        src = self.asm_writes[c]
                    else:
                        self.unknown_callees.setdefault(c, []).append((n, i))
                        src = {llir.UNK}
                    for a in src:
                        for b in _subst(a, argatoms):
                            if len(W[n]) > 400:
                                b = llir.UNK
                            if b not in W[n] and not is_local(b):
                                W[n].add(b)
                                changed = True
        self.W = W
        self.calls = calls


# ------------------------------------------------------------------ effects incl. callees, return sets, guards
def effects(mod, f, S):
    """[(insn, atoms written in f's frame)] for every store, writing libc call and every call whose callee
    (transitively) writes through its arguments or to globals"""
    out = []
    P = prov(mod, f)
    for i, atoms, kind in write_sites(mod, f):
        out.append((i, atoms))
    for i, argatoms in S.calls.get(f.name, []):
        c = i.callee
        if c in mod.funcs:
            src = S.W[c]
        elif c in S.asm_writes:
            src = S.asm_writes[c]
        else:
            src = {llir.UNK}
        w = set()
        for a in src:
            w |= _subst(a, argatoms)
        w = {a for a in w if not is_local(a)}
        if w:
            out.append((i, w))
    return out


_ret_memo = {}


def ret_set(mod, fname, depth=0):
    """set of integer constants a function may return; 'unk' if a returned value is not a constant / callee result"""
    key = (id(mod), fname)
    if key in _ret_memo:
        return _ret_memo[key]
    _ret_memo[key] = set()
    f = mod.funcs.get(fname)
    if f is None:
        _ret_memo[key] = {'unk:' + fname}
        return _ret_memo[key]
    out = set()
    P = prov(mod, f)

    def val(v, seen):
        if v in seen:
            return set()
        seen = seen | {v}
        if re.match(r'^-?\d+$', v):
            return {int(v)}
        if v in P.pidx:
            return {('param', P.pidx[v])}       # resolved at the call sites
        i = f.defs.get(v)
        if i is None:
            return {'unk'}
        if i.op == 'phi':
            r = set()
            for o in i.ops:
                r |= val(o, seen)
            return r
        if i.op == 'select':
            return val(i.ops[1], seen) | val(i.ops[2], seen)
        if i.op == 'call' and i.callee in mod.funcs and depth < 8:
            r = set()
            for x in ret_set(mod, i.callee, depth + 1):
                if isinstance(x, tuple) and x[0] == 'param':
                    r |= val(i.args[x[1]][1], seen) if x[1] < len(i.args) else {'unk'}
                else:
                    r.add(x)
            return r
        if i.op in ('zext', 'sext', 'trunc', 'bitcast', 'freeze'):
            return val(i.ops[0], seen)
        return {'unk:%s' % i.op}
    for i in f.all_insns():
        if i.op == 'ret' and i.ops:
            out |= val(i.ops[0], frozenset())
    _ret_memo[key] = out
    return out


def blocks_reachable_without_edge(f, src, dst):
    """blocks reachable from the entry when the CFG edge src->dst is removed"""
    seen = set()
    work = [f.entry()]
    while work:
        b = work.pop()
        if b in seen:
            continue
        seen.add(b)
        for s in f.blocks[b].succs:
            if b == src and s == dst:
                continue
            work.append(s)
    return seen


def cond_branches(mod, f):
    """[(block, br insn, icmp insn or None)] for every conditional branch"""
    out = []
    for b in f.order:
        blk = f.blocks[b]
        if not blk.insns:
            continue
        t = blk.insns[-1]
        if t.op == 'br' and t.extra.get('cond'):
            c = f.defs.get(t.extra['cond'])
            out.append((b, t, c))
    return out


def returns_via(f, start):
    """values returned on paths that start in block `start` and run to a ret without going through a phi choice made
    elsewhere: returns the set of constants chosen by return-phi incoming edges reachable from start"""
    vals = set()
    seen = set()
    work = [(start, None)]
    while work:
        b, pred = work.pop()
        if (b, pred) in seen:
            continue
        seen.add((b, pred))
        blk = f.blocks[b]
        t = blk.insns[-1] if blk.insns else None
        if t is not None and t.op == 'ret' and t.ops:
            v = t.ops[0]
            i = f.defs.get(v)
            if re.match(r'^-?\d+$', v):
                vals.add(int(v))
            elif i is not None and i.op == 'phi' and i.block == b and pred is not None:
                for val, pb in i.extra['incoming']:
                    if pb == pred:
                        vals.add(int(val) if re.match(r'^-?\d+$', val) else 'var')
            else:
                vals.add('var')
        for s in blk.succs:
            work.append((s, b))
    return vals
