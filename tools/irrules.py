"""Shared queries over LLIR for the C-side rules."""
import re
from common import AnalysisBroken
import llir

WRITERS = {'llvm.memcpy.p0i8.p0i8.i64': [0], 'llvm.memmove.p0i8.p0i8.i64': [0], 'llvm.memset.p0i8.i64': [0], 'wmemset': [0],
           'memcpy': [0], 'memmove': [0], 'memset': [0], '__memcpy_chk': [0], '__memset_chk': [0], '__memmove_chk': [0]}
READONLY_EXT = {'memcmp', 'strnlen', '__assert_fail', 'llvm.ctlz.i32', 'llvm.cttz.i64', 'llvm.dbg.declare', 'llvm.dbg.value',
                'llvm.bswap.i32', 'llvm.bswap.i64', 'llvm.bswap.i16', 'llvm.ctlz.i64', 'llvm.cttz.i32', 'llvm.expect.i64', 'llvm.assume'}

_prov = {}


def prov(mod, f):
    k = (id(mod), f.name)
    if k not in _prov:
        _prov[k] = llir.Prov(mod, f)
    return _prov[k]


def write_sites(mod, f):
    """[(insn, set of destination atoms, kind)] for stores and writing libc/intrinsic calls in f"""
    P = prov(mod, f)
    out = []
    for i in f.all_insns():
        if i.op == 'store':
            out.append((i, P.atoms(i.ops[1]), 'store'))
        elif i.op == 'call' and i.callee in WRITERS:
            for k in WRITERS[i.callee]:
                out.append((i, P.atoms(i.args[k][1]), i.callee))
    return out


def base_root(atom):
    """innermost root of an atom: ('param',k) / ('global',g) / ('alloca',n) / ('call',c) / 'unk'"""
    a = atom
    while a[0] == 'ld':
        a = a[1]
    return a


def is_local(atom):
    return atom[0] == 'alloca'


# ------------------------------------------------------------------ interprocedural write summaries
def _subst(atom, argatoms, depth=0):
    """rewrite an atom of the callee's frame into the caller's frame"""
    if atom[0] == 'param':
        k, off = atom[1], atom[2]
        if k >= len(argatoms):
            return {llir.UNK}
        out = set()
        for a in argatoms[k]:
            if a[0] in ('param', 'global', 'alloca', 'ld'):
                out.add((a[0], a[1], None if (a[2] is None or off is None) else a[2] + off))
            else:
                out.add(a if a[0] != 'const' else llir.UNK)
        return out
    if atom[0] == 'ld':
        inner = _subst(atom[1], argatoms, depth + 1)
        return {('ld', x, atom[2]) if x != llir.UNK and x[0] != 'call' else llir.UNK for x in inner}
    if atom[0] == 'alloca':
        return set()      # callee locals are dead for the caller
    return {atom}


class Summaries:
    """W[f] = atoms (in f's frame) that f or its callees may write; calls to asm symbols use `asm_writes`"""

    def __init__(self, mod, asm_writes=None):
        self.mod = mod
        self.asm_writes = asm_writes or {}
        self.W = {n: None for n in mod.funcs}
        self.unknown_callees = {}
        self._compute()

    def _compute(self):
        mod = self.mod
        local = {}
        calls = {}
        for n, f in mod.funcs.items():
            s = set()
            for i, atoms, kind in write_sites(mod, f):
                s |= {a for a in atoms if not is_local(a)}
            local[n] = s
            cl = []
            P = prov(mod, f)
            for i in f.all_insns():
                if i.op == 'call' and i.callee not in WRITERS and i.callee not in READONLY_EXT and not i.callee.startswith('llvm.'):
                    cl.append((i, [P.atoms(v) for _, v in i.args]))
            calls[n] = cl
        W = {n: set(local[n]) for n in mod.funcs}
        changed = True
        rounds = 0
        while changed and rounds < 30:
            changed = False
            rounds += 1
            for n, f in mod.funcs.items():
                for i, argatoms in calls[n]:
                    c = i.callee
                    if c in mod.funcs:
                        src = W[c]
                    elif c in self.asm_writes:
                        src = self.asm_writes[c]
                    else:
                        self.unknown_callees.setdefault(c, []).append((n, i))
                        src = {llir.UNK}
                    for a in src:
                        for b in _subst(a, argatoms):
                            if len(W[n]) > 400:
                                b = llir.UNK
                            if b not in W[n] and not is_local(b):
                                W[n].add(b)
                                changed = True
        self.W = W
        self.calls = calls


# ------------------------------------------------------------------ effects incl. callees, return sets, guards
def effects(mod, f, S):
    """[(insn, atoms written in f's frame)] for every store, writing libc call and every call whose callee
    (transitively) writes through its arguments or to globals"""
    out = []
    P = prov(mod, f)
    for i, atoms, kind in write_sites(mod, f):
        out.append((i, atoms))
    for i, argatoms in S.calls.get(f.name, []):
        c = i.callee
        if c in mod.funcs:
            src = S.W[c]
        elif c in S.asm_writes:
            src = S.asm_writes[c]
        else:
            src = {llir.UNK}
        w = set()
        for a in src:
            w |= _subst(a, argatoms)
        w = {a for a in w if not is_local(a)}
        if w:
            out.append((i, w))
    return out


_ret_memo = {}
EXT_RETS = {}       # symbol -> set of constants for callees outside the module (asm entry points), filled by the property checks


def _strip(f, v):
    while True:
        d = f.defs.get(v)
        if d is not None and d.op in ('zext', 'sext', 'trunc', 'freeze', 'bitcast'):
            v = d.ops[0]
        else:
            return v


def _sat(pred, x, k):
    return {'eq': x == k, 'ne': x != k, 'sgt': x > k, 'sge': x >= k, 'slt': x < k, 'sle': x <= k,
            'ugt': (x % (1 << 32)) > (k % (1 << 32)), 'uge': (x % (1 << 32)) >= (k % (1 << 32)), 'ult': (x % (1 << 32)) < (k % (1 << 32)), 'ule': (x % (1 << 32)) <= (k % (1 << 32))}[pred]


_NEG = {'eq': 'ne', 'ne': 'eq', 'sgt': 'sle', 'sge': 'slt', 'slt': 'sge', 'sle': 'sgt', 'ugt': 'ule', 'uge': 'ult', 'ult': 'uge', 'ule': 'ugt'}


def edge_constraints(f, v, block):
    """[(pred, const)] known to hold for SSA value v whenever `block` executes, from dominating branches on icmp(v, const)"""
    out = []
    sv = _strip(f, v)
    for b in f.order:
        t = f.blocks[b].insns[-1] if f.blocks[b].insns else None
        if t is None or t.op != 'br' or not t.extra.get('cond'):
            continue
        c = f.defs.get(t.extra['cond'])
        if c is None or c.op != 'icmp' or not re.match(r'^-?\d+$', c.ops[1]) or _strip(f, c.ops[0]) != sv:
            continue
        tt, tf = t.extra['targets']
        k = int(c.ops[1])
        if tt != tf:
            if f.blocks[tt].preds == [b] and f.dominates(tt, block):
                out.append((c.extra['pred'], k))
            if f.blocks[tf].preds == [b] and f.dominates(tf, block):
                out.append((_NEG[c.extra['pred']], k))
    return out


def ret_set(mod, fname, depth=0):
    """set of integer constants a function may return; 'unk...' if a returned value is not a constant / callee result.
    Branch and select conditions on the returned value itself are used to filter ("if (ret < 0) return ret;", "ret > 0 ? OK : ret")."""
    key = (id(mod), fname)
    if key in _ret_memo:
        return _ret_memo[key]
    _ret_memo[key] = set()
    f = mod.funcs.get(fname)
    if f is None:
        _ret_memo[key] = set(EXT_RETS[fname]) if fname in EXT_RETS else {'unk:' + fname}
        return _ret_memo[key]
    out = set()
    P = prov(mod, f)

    def filt(vals, cons):
        r = set()
        for x in vals:
            if isinstance(x, int):
                xs = x if x < (1 << 31) else x - (1 << 32)
                if all(_sat(p, xs, k) for p, k in cons):
                    r.add(x)
            else:
                r.add(x)
        return r

    def val(v, seen, block):
        if v in seen:
            return set()
        seen = seen | {v}
        if re.match(r'^-?\d+$', v):
            return {int(v)}
        if v in P.pidx:
            return {('param', P.pidx[v])}       # resolved at the call sites
        i = f.defs.get(v)
        if i is None:
            return {'unk'}
        r = None
        if i.op == 'phi':
            r = set()
            for o, pb in i.extra['incoming']:
                r |= filt(val(o, seen, pb), edge_constraints(f, o, pb) if not re.match(r'^-?\d+$', o) else [])
        elif i.op == 'select':
            c = f.defs.get(i.ops[0])
            a, b = val(i.ops[1], seen, block), val(i.ops[2], seen, block)
            if c is not None and c.op == 'icmp' and re.match(r'^-?\d+$', c.ops[1]):
                k = int(c.ops[1])
                if _strip(f, i.ops[1]) == _strip(f, c.ops[0]):
                    a = filt(a, [(c.extra['pred'], k)])
                if _strip(f, i.ops[2]) == _strip(f, c.ops[0]):
                    b = filt(b, [(_NEG[c.extra['pred']], k)])
            r = a | b
        elif i.op == 'call' and (i.callee in mod.funcs or i.callee in EXT_RETS) and depth < 8:
            r = set()
            for x in ret_set(mod, i.callee, depth + 1):
                if isinstance(x, tuple) and x[0] == 'param':
                    r |= val(i.args[x[1]][1], seen, block) if x[1] < len(i.args) else {'unk'}
                else:
                    r.add(x)
        elif i.op in ('zext', 'sext', 'trunc', 'bitcast', 'freeze'):
            r = val(i.ops[0], seen, block)
        if r is None:
            return {'unk:%s' % i.op}
        return filt(r, edge_constraints(f, v, block)) if block else r
    def disjunctive(v, block):
        """constraints on v when `block` is entered only through edges each of which tests v against a constant ("a == X || a == Y")"""
        alts = []
        sv = _strip(f, v)
        for p_ in f.blocks[block].preds:
            t = f.blocks[p_].insns[-1]
            if t.op != 'br' or not t.extra.get('cond'):
                return None
            c = f.defs.get(t.extra['cond'])
            if c is None or c.op != 'icmp' or not re.match(r'^-?\d+$', c.ops[1]) or _strip(f, c.ops[0]) != sv:
                return None
            tt, tf = t.extra['targets']
            if tt == block and tf != block:
                alts.append((c.extra['pred'], int(c.ops[1])))
            elif tf == block and tt != block:
                alts.append((_NEG[c.extra['pred']], int(c.ops[1])))
            else:
                return None
        return alts or None

    for i in f.all_insns():
        if i.op == 'ret' and i.ops:
            v0 = i.ops[0]
            d0 = f.defs.get(v0)
            if d0 is not None and d0.op == 'phi' and d0.block == i.block:
                for o, pb in d0.extra['incoming']:
                    vs = val(o, frozenset([v0]), pb)
                    if not re.match(r'^-?\d+$', o):
                        vs = filt(vs, edge_constraints(f, o, pb))
                        # walk up through single-successor blocks to a block entered only through tests of this value
                        alts = None
                        for D in f.dominators().get(pb, {pb}):
                            alts = disjunctive(o, D)
                            if alts:
                                break
                        if alts:
                            u_ = set()
                            for a_ in alts:
                                u_ |= filt(vs, [a_])
                            vs = u_
                    out |= vs
            else:
                out |= val(v0, frozenset(), i.block)
    _ret_memo[key] = out
    return out


def blocks_reachable_without_edge(f, src, dst):
    """blocks reachable from the entry when the CFG edge src->dst is removed"""
    seen = set()
    work = [f.entry()]
    while work:
        b = work.pop()
        if b in seen:
            continue
        seen.add(b)
        for s in f.blocks[b].succs:
            if b == src and s == dst:
                continue
            work.append(s)
    return seen


def cond_branches(mod, f):
    """[(block, br insn, icmp insn or None)] for every conditional branch"""
    out = []
    for b in f.order:
        blk = f.blocks[b]
        if not blk.insns:
            continue
        t = blk.insns[-1]
        if t.op == 'br' and t.extra.get('cond'):
            c = f.defs.get(t.extra['cond'])
            out.append((b, t, c))
    return out


def returns_via(f, start):
    """values returned on paths that start in block `start` and run to a ret without going through a phi choice made
    elsewhere: returns the set of constants chosen by return-phi incoming edges reachable from start"""
    vals = set()
    seen = set()
    work = [(start, None)]
    while work:
        b, pred = work.pop()
        if (b, pred) in seen:
            continue
        seen.add((b, pred))
        blk = f.blocks[b]
        t = blk.insns[-1] if blk.insns else None
        if t is not None and t.op == 'ret' and t.ops:
            v = t.ops[0]
            i = f.defs.get(v)
            if re.match(r'^-?\d+$', v):
                vals.add(int(v))
            elif i is not None and i.op == 'phi' and i.block == b and pred is not None:
                for val, pb in i.extra['incoming']:
                    if pb == pred:
                        vals.add(int(val) if re.match(r'^-?\d+$', val) else 'var')
            else:
                vals.add('var')
        for s in blk.succs:
            work.append((s, b))
    return vals


def reaching_stores(mod, f, at, insn):
    """stores to the local cell `at` (set containing one alloca atom) that may be the last one before `insn`;
    None in the result means a path from the entry reaches `insn` with no store"""
    P = prov(mod, f)
    out = set()
    seen = set()

    def last_in(block, upto):
        blk = f.blocks[block].insns
        for j in reversed(blk[:upto]):
            if j.op == 'store' and P.atoms(j.ops[1]) == at:
                return j
            if j.op == 'call' and any(P.atoms(v) == at for _, v in (j.args or [])):
                return j          # the callee may write through the pointer
        return None
    work = [(insn.block, insn.idx)]
    while work:
        b, upto = work.pop()
        j = last_in(b, upto)
        if j is not None:
            out.add(j)
            continue
        if not f.blocks[b].preds:
            out.add(None)
        for p in f.blocks[b].preds:
            if p not in seen:
                seen.add(p)
                work.append((p, len(f.blocks[p].insns)))
    return out


# ------------------------------------------------------------------ data-dependent early exits of scan loops
def natural_loops(f):
    """{header: set of blocks} (bodies of loops sharing a header are merged)"""
    loops = {}
    for b in f.order:
        for s in f.blocks[b].succs:
            if f.dominates(s, b):          # back edge b -> s
                body = {s, b}
                work = [b]
                while work:
                    x = work.pop()
                    if x == s:
                        continue
                    for p in f.blocks[x].preds:
                        if p not in body:
                            body.add(p)
                            work.append(p)
                loops.setdefault(s, set()).update(body)
    return loops


def data_exits(mod, f, is_data):
    """edges (block, target) that leave a loop and are taken on a condition whose value depends on loaded data
    (is_data(dep) selects the dependencies that count as data): the 'found it' exits of a scan loop"""
    P = prov(mod, f)
    loops = natural_loops(f)
    out = []
    for b in f.order:
        t = f.blocks[b].insns[-1]
        if t.op != 'br' or not t.extra.get('cond'):
            continue
        inl = [L for L in loops.values() if b in L]
        if not inl:
            continue
        if not any(is_data(d) for d in P.deps(t.extra['cond'])):
            continue
        for tgt in t.extra['targets']:
            if any(tgt not in L for L in inl):
                out.append((b, tgt, t))
    return out


def nonzero_on_paths(mod, f, edge, maxpaths=64):
    """enumerate the paths from CFG edge (b, tgt) to the returns; for each, classify the returned value as
    ('const', c) | ('nonzero', why) | ('unknown', text).  Phis are resolved by the incoming edge, conditional
    branches on values known on the path are followed only along the consistent edge; a comparison with 0 taken
    on the path makes the compared value non-zero.  Returns [(class, [blocks])]; raises AnalysisBroken if a path re-enters a block."""
    b0, t0, _ = edge
    results = []

    def ev(v, env, nz):
        if re.match(r'^-?\d+$', v):
            return ('const', int(v))
        if v in env:
            return env[v]
        sv = _strip(f, v)
        if sv != v:
            return ev(sv, env, nz)
        if v in nz:
            return ('nonzero', nz[v])
        d = f.defs.get(v)
        if d is None:
            return ('unknown', v)
        if d.op == 'or':
            a, c = ev(d.ops[0], env, nz), ev(d.ops[1], env, nz)
            for x in (a, c):
                if x[0] == 'nonzero' or (x[0] == 'const' and x[1] != 0):
                    return ('nonzero', 'bitwise OR with a non-zero value')
            if a[0] == 'const' and c[0] == 'const':
                return ('const', a[1] | c[1])
        if d.op == 'select':
            c = ev(d.ops[0], env, nz)
            if c[0] == 'const' or c[0] == 'nonzero':
                return ev(d.ops[1] if (c[0] == 'nonzero' or c[1]) else d.ops[2], env, nz)
            a, e = ev(d.ops[1], env, nz), ev(d.ops[2], env, nz)
            if all(x[0] == 'nonzero' or (x[0] == 'const' and x[1] != 0) for x in (a, e)):
                return ('nonzero', 'both select arms non-zero')
        if d.op == 'icmp':
            a, c = ev(d.ops[0], env, nz), ev(d.ops[1], env, nz)
            if a[0] == 'const' and c[0] == 'const':
                return ('const', int(_sat(d.extra['pred'], a[1], c[1])))
            if c == ('const', 0) and a[0] == 'nonzero' and d.extra['pred'] in ('ne', 'eq'):
                return ('const', int(d.extra['pred'] == 'ne'))
        if d.op == 'sub' and ev(d.ops[0], env, nz) == ('const', 0):
            a = ev(d.ops[1], env, nz)
            if a[0] == 'nonzero':
                return a
            if a[0] == 'const':
                return ('const', -a[1])
        return ('unknown', '%s = %s' % (v, d.text.strip()[:80] if d.text else d.op))

    def walk(prev, blk, env, nz, path):
        if len(results) > maxpaths:
            raise AnalysisBroken('%s: more than %d paths from the exit edge to a return' % (f.name, maxpaths))
        if blk in path:
            raise AnalysisBroken('%s: a path from the early exit %s->%s re-enters block %s before returning' % (f.name, b0, t0, blk))
        path = path + [blk]
        env = dict(env)
        for i in f.blocks[blk].insns:
            if i.op == 'phi':
                for v, pb in i.extra['incoming']:
                    if pb == prev:
                        env[i.dst] = ev(v, env, nz)
            elif i.op == 'ret':
                results.append((ev(i.ops[0], env, nz) if i.ops else ('unknown', 'void'), path))
                return
            elif i.op == 'br':
                if not i.extra.get('cond'):
                    walk(blk, i.extra['targets'][0], env, nz, path)
                    return
                c = ev(i.extra['cond'], env, nz)
                tt, tf = i.extra['targets']
                d = f.defs.get(i.extra['cond'])
                for tgt, truth in ((tt, True), (tf, False)):
                    if c[0] == 'const' and bool(c[1]) != truth:
                        continue
                    if c[0] == 'nonzero' and not truth:
                        continue
                    nz2 = dict(nz)
                    if d is not None and d.op == 'icmp' and re.match(r'^-?\d+$', d.ops[1]):
                        k = int(d.ops[1])
                        pred = d.extra['pred'] if truth else _NEG[d.extra['pred']]
                        if (pred == 'ne' and k == 0) or (pred in ('sgt', 'ugt') and k >= 0) or (pred in ('sge', 'uge') and k >= 1) or (pred == 'slt' and k <= 0) or (pred == 'sle' and k < 0) or (pred == 'eq' and k != 0):
                            nz2[_strip(f, d.ops[0])] = 'compared %s %d on this path' % (pred, k)
                    walk(blk, tgt, env, nz2, path)
                return
            elif i.op == 'switch':
                raise AnalysisBroken('%s: switch on a path from an early exit, not modelled' % f.name)
    walk(b0, t0, {}, {}, [])
    return results


# ------------------------------------------------------------------ constant-length fills of arrays
def array_fills(mod):
    """[(func, insn, N, elem size, length)] for every memset/memcpy/memmove with a constant length whose destination is the first element of an array [N x T]"""
    out = []
    for fn, f in sorted(mod.funcs.items()):
        for i in f.all_insns():
            if i.op != 'call' or not re.match(r'^(llvm\.)?mem(set|cpy|move)', i.callee) or len(i.args) < 3 or not re.match(r'^\d+$', i.args[2][1]):
                continue
            v = i.args[0][1]
            for _ in range(4):
                d = f.defs.get(v)
                if d is None:
                    break
                if d.op == 'bitcast':
                    v = d.ops[0]
                    continue
                if d.op == 'getelementptr':
                    m = re.match(r'^\[(\d+) x (.+)\]$', d.extra.get('basety', '').strip())
                    idx = [x.split()[-1] for x in d.extra.get('idx', [])]
                    if m and idx == ['0', '0']:
                        try:
                            es = mod.types.size_align(m.group(2))[0]
                        except Exception:
                            break
                        out.append((f, i, int(m.group(1)), es, int(i.args[2][1])))
                break
    return out


def narrow_masks(mod):
    """[(function, insn, constant)]: `and` of a 64-bit value with a constant in [2^31, 2^32) - what `x &= ~mask` gives when the complement was taken
    in 32 bits and zero-extended: besides the intended bits it clears bits 32..63"""
    out = []
    for fn, f in mod.funcs.items():
        for i in f.all_insns():
            if i.op == 'and' and (i.ty or '') == 'i64':
                for o in i.ops:
                    if re.match(r'^\d+$', o) and 2 ** 31 <= int(o) < 2 ** 32:
                        out.append((f, i, int(o)))
    return out


def is_narrow_mask_const(c, width=64):
    return width == 64 and 2 ** 31 <= c < 2 ** 32
