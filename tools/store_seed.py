#!/usr/bin/env python3
"""store_seed.py <id> <property> "<what it needs to manifest>" : copy a confirmed seeded change from /tmp/seed/out/<id> to /verif/seeded/<id>/"""
import sys, os, shutil, json
sid, prop, needs = sys.argv[1], sys.argv[2], sys.argv[3]
src = '/tmp/seed/out/' + (sys.argv[4] if len(sys.argv) > 4 else sid)
dst = '/verif/seeded/' + sid
os.makedirs(dst, exist_ok=True)
for f in os.listdir(src):
    if f.endswith(('.c', '.sh', '.md', '.diff', '.log', '.h', '.py')) and f != 'patch.check.diff':
        shutil.copy(os.path.join(src, f), os.path.join(dst, f))
meta = dict(id=sid, property=prop, breaks=prop, needs_to_manifest=needs,
            confirmed_by='tools/confirm_seed.sh: (1) repository test suite 16/16 PASS with the change, (2) demo FAILS with the change, (3) demo PASSES without it',
            what_was_run=['/tmp/seedtools/run_suite_in.sh <worktree> (make check on a worktree copy with the change applied)',
                          'gcc -O1 -I<worktree>/include demo.c <worktree>/.libs/libisal.a -o demo && ./demo (with and without the change)'],
            demo_with_change=open(os.path.join(src, 'demo.with.log')).read()[-400:] if os.path.exists(os.path.join(src, 'demo.with.log')) else '',
            demo_without_change=open(os.path.join(src, 'demo.without.log')).read()[-200:] if os.path.exists(os.path.join(src, 'demo.without.log')) else '',
            detected_by=[])
json.dump(meta, open(os.path.join(dst, 'meta.json'), 'w'), indent=1)
print('stored', dst, os.listdir(dst))
