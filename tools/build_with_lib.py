#!/usr/bin/env python3
"""Build a small C program against the library objects assembled/compiled from /repo's current tree
(used only for concrete REPLAY of statically reported findings and for demonstrations of seeded
changes; never by a check).  usage: build_with_lib.py prog.c -o exe [--keep]"""
import sys, os, subprocess, shutil
sys.path.insert(0, os.path.dirname(os.path.abspath(__file__)))
import asmdb, cbuild


def main():
    src = sys.argv[1]
    out = sys.argv[sys.argv.index('-o') + 1]
    units = asmdb.units('default')
    objs = [u.obj for u in units.values()] + list(cbuild.objs('default').values())
    cmd = ['clang', '-O1', '-g', '-w', '-I', os.path.join(asmdb.REPO, 'include'), '-I', os.path.join(asmdb.REPO, 'igzip'), '-no-pie', '-o', out, src] + objs
    subprocess.run(cmd, check=True)


if __name__ == '__main__':
    main()
