"""ACCT: balance of the stream counters.  For every C function that receives the stream (struct isal_zstream* / struct inflate_state*)
a path-sensitive forward dataflow tracks, per direction X in {in, out}, the counters next_X, avail_X, total_X as LINEAR FORMS over symbolic
atoms: entry values E_f, SSA values, value-numbered loads (address provenance x memory epoch), one fresh "bytes moved" atom per call that
passes the stream on (the callee is balanced - checked on its own), and used(bitbuf) for the bit-buffer idiom set_buf / buffer_used / buffer_ptr.
States are kept apart at joins (disjunctive, bounded) together with the branch decisions already taken, so that a later test of the same
condition follows the consistent edge only; at loop heads the states are merged relationally: a counter that differs becomes a join atom while
        total - next      total + avail      (next + avail where there is no total)
must agree, which is exactly what balanced updates preserve.  At every return these must equal their entry values.  A residual that only
mentions parameters and entry values (update_state: start_in must be the old next_in) becomes an obligation at every call site, evaluated with
the caller's forms."""
import re
from common import AnalysisBroken
import irrules

INT = re.compile(r'^-?\d+$')
DIRS = {'in': ('next_in', 'avail_in', 'total_in'), 'out': ('next_out', 'avail_out', 'total_out')}
MAXSTATES = 48
PURE = ('buffer_used', 'buffer_ptr', 'is_full', 'load_le_u64', 'load_le_u32', 'load_le_u16', 'bsr', 'tzbytecnt', 'compute_hash', 'compute_hash_mad', 'compute_long_hash')


def lf(atom=None, k=0):
    d = {}
    if atom is not None:
        d[atom] = 1
    if k:
        d[1] = k
    return d


def add(a, b, s=1):
    out = dict(a)
    for k, v in b.items():
        n = out.get(k, 0) + s * v
        if n:
            out[k] = n
        else:
            out.pop(k, None)
    return out


def scale(a, s):
    return {k: v * s for k, v in a.items()} if s else {}


def canon(form):
    return tuple(sorted(form.items(), key=lambda kv: str(kv[0])))


def fmt(a):
    if not a:
        return '0'
    parts = []
    for k, v in sorted(a.items(), key=lambda kv: str(kv[0])):
        if k == 1:
            parts.append('%+d' % v)
            continue
        n = k if isinstance(k, str) else fmt_atom(k)
        parts.append(('+' if v == 1 else '-' if v == -1 else '%+d*' % v) + n)
    s = ' '.join(parts)
    return s[1:] if s.startswith('+') else s


def fmt_atom(k):
    if k[0] == 'J':
        return '%s@%s' % (k[1], k[2])
    if k[0] == 'moved':
        return 'moved_%s(%s)' % (k[1], k[2])
    if k[0] == 'used':
        return 'used(bitbuf)'
    if k[0] == 'ld':
        return 'load(%s)' % ','.join(str(x) for x in k[1])
    if k[0] == 'op':
        return '%s(%s, %s)' % (k[1], fmt(dict(k[3])), fmt(dict(k[4])))
    return ':'.join(str(x) for x in k)


class State:
    __slots__ = ('F', 'bb', 'ver', 'preds', 'env', 'epoch', 'snap')

    def __init__(self):
        self.F, self.bb, self.ver, self.preds, self.env, self.epoch, self.snap = {}, {}, {}, {}, {}, ('entry', 0), {}

    def copy(self):
        s = State()
        s.F, s.bb, s.ver, s.preds, s.env, s.epoch, s.snap = dict(self.F), dict(self.bb), dict(self.ver), dict(self.preds), dict(self.env), self.epoch, dict(self.snap)
        return s

    def key(self):
        return (tuple(sorted((k, canon(v)) for k, v in self.F.items())), tuple(sorted((str(k), canon(v)) for k, v in self.bb.items())),
                tuple(sorted((str(k), str(v)) for k, v in self.ver.items())), tuple(sorted(self.snap.items())))

    def absorb(self, o, blk):
        """another state with the same counters reaches the same block: keep what both agree on"""
        ch = False
        for k in list(self.preds):
            if o.preds.get(k) != self.preds[k]:
                del self.preds[k]
                ch = True
        if o.epoch != self.epoch and self.epoch != (blk, 0):
            self.epoch = (blk, 0)
            ch = True
        for k in list(self.env):
            if k not in o.env or o.env[k] != self.env[k]:
                del self.env[k]
                ch = True
        return ch


class Fn:
    def __init__(self, mod, f, pidx, kind, off):
        self.mod, self.f, self.pidx, self.kind, self.off = mod, f, pidx, kind, off
        self.inv = {v: k for k, v in off.items()}
        self.P = irrules.prov(mod, f)
        self.fields = list(off)
        self.rets = []       # (insn, State)
        self.calls = []      # (insn, callee, State before, [arg forms])
        self.widened = set()
        self.store_hook = None
        self.call_hook = None
        self.lost = []       # reasons why precision was lost
        back = set()
        # back edges by DFS
        seen, stack = set(), set()

        def dfs(b):
            seen.add(b)
            stack.add(b)
            for s in self.succs(b):
                if s in stack:
                    back.add((b, s))
                elif s not in seen:
                    dfs(s)
            stack.discard(b)
        import sys
        sys.setrecursionlimit(10000)
        dfs(f.order[0])
        self.heads = {h for _, h in back}
        self.back = back

    def succs(self, b):
        t = self.f.blocks[b].insns[-1]
        if t.op == 'br':
            return list(dict.fromkeys(t.extra.get('targets', [])))
        if t.op == 'switch':
            cs = t.extra['cases'].items() if isinstance(t.extra['cases'], dict) else t.extra['cases']
            return list(dict.fromkeys([t.extra['default']] + [x[1] for x in cs]))
        return []

    # ---- forms
    def form(self, st, v):
        if INT.match(v):
            return lf(None, int(v))
        if v in ('null', 'zeroinitializer', 'false', 'undef', 'poison'):
            return {}
        if v == 'true':
            return lf(None, 1)
        if v in st.env:
            return st.env[v]
        return lf(v)

    def field_of(self, ptr):
        at = self.P.atoms(ptr)
        if len(at) != 1:
            return None
        a = next(iter(at))
        if a[0] == 'param' and a[1] == self.pidx and a[2] in self.inv:
            return self.inv[a[2]]
        return None

    def is_base(self, v):
        return irrules._strip(self.f, v) == self.f.params[self.pidx][1]

    def bbkey(self, v):
        at = self.P.atoms(v)
        return tuple(sorted(at, key=str)) if at else None

    def initial(self):
        st = State()
        for n in self.fields:
            st.F[n] = lf('E_' + n)
        return st

    def invariants(self, st):
        """{(dir, which): form} - zero when balanced"""
        out = {}
        for d, (n, a, t) in DIRS.items():
            if n not in st.F:
                continue
            if t in st.F:
                out[(d, 'total-next')] = add(add(st.F[t], st.F[n], -1), add(lf('E_' + t), lf('E_' + n), -1), -1)
                out[(d, 'total+avail')] = add(add(st.F[t], st.F[a]), add(lf('E_' + t), lf('E_' + a)), -1)
            else:
                out[(d, 'next+avail')] = add(add(st.F[n], st.F[a]), add(lf('E_' + n), lf('E_' + a)), -1)
        return out

    def widen(self, head, states):
        """merge all states arriving at a loop head into one"""
        base = states[0].copy()
        base.preds = {}
        base.env = dict(states[0].env)
        for d, (n, a, t) in DIRS.items():
            if n not in base.F:
                continue
            invs = [self.invariants(s) for s in states]
            same = all(all(canon(i[k]) == canon(invs[0][k]) for k in invs[0] if k[0] == d) for i in invs)
            if all(canon(s.F[n]) == canon(base.F[n]) for s in states) and same and all(canon(s.F[a]) == canon(base.F[a]) for s in states):
                continue
            J = lf(('J', n, head))
            if same:
                i0 = invs[0]
                if t in base.F:
                    A = add(base.F[t], base.F[n], -1)
                    B = add(base.F[t], base.F[a])
                    base.F[n] = J
                    base.F[t] = add(J, A)
                    base.F[a] = add(B, base.F[t], -1)
                else:
                    C = add(base.F[n], base.F[a])
                    base.F[n] = J
                    base.F[a] = add(C, J, -1)
            else:
                self.lost.append('the %s counters are not updated in step around the loop at %s' % (d, head))
                base.F[n] = J
                base.F[a] = lf(('J', a, head))
                if t in base.F:
                    base.F[t] = lf(('J', t, head))
        for s in states[1:]:
            for k in list(base.bb):
                if k not in s.bb or canon(s.bb[k]) != canon(base.bb[k]):
                    del base.bb[k]
            for k in set(base.ver) | set(s.ver):
                if base.ver.get(k, 0) != s.ver.get(k, 0):
                    base.ver[k] = ('J', head)
            for k in list(base.env):
                if k not in s.env or s.env[k] != base.env[k]:
                    del base.env[k]
        base.epoch = (head, 0)
        base.snap = {k: v for k, v in base.snap.items() if k in base.env and canon(base.env[k]) == v}
        return base

    def run(self):
        f = self.f
        entry = f.order[0]
        EDGE = {entry: {None: {self.initial().key(): self.initial()}}}     # block -> pred -> {key: state}: the CURRENT out-states of each incoming edge
        work = [entry]
        visits = {}
        hw = {}
        order = {b: n for n, b in enumerate(f.order)}
        while work:
            work.sort(key=lambda b: order.get(b, 0))
            b = work.pop(0)
            visits[b] = visits.get(b, 0) + 1
            if visits[b] > 80:
                raise AnalysisBroken('acct: no fixpoint in %s at %s' % (f.name, b))
            merged = {}
            for pr, d in EDGE[b].items():
                for k, s_ in d.items():
                    if k in merged:
                        merged[k] = merged[k].copy()
                        merged[k].absorb(s_, b)
                    else:
                        merged[k] = s_
            states = list(merged.values())
            if len(states) > MAXSTATES and b not in self.heads:
                self.lost.append('more than %d distinct states at %s' % (MAXSTATES, b))
                self.heads.add(b)
            if b in self.heads:
                w = self.widen(b, states)
                sig = (w.key(), tuple(sorted((k, canon(v)) for k, v in w.env.items())), w.epoch)
                if hw.get(b) == sig:
                    continue
                hw[b] = sig
                states = [w]
            outs = {}
            for st0 in states:
                for s_, tgt in self.block(b, st0.copy()):
                    outs.setdefault(tgt, []).append(s_)
            for tgt in self.succs(b):
                lst = outs.get(tgt, [])
                new = {}
                for s_ in lst:
                    s2 = self.enter(b, tgt, s_)
                    k = s2.key()
                    if k in new:
                        new[k].absorb(s2, tgt)
                    else:
                        new[k] = s2
                old = EDGE.setdefault(tgt, {}).get(b)
                same = old is not None and set(old) == set(new) and all(old[k].preds == new[k].preds and old[k].epoch == new[k].epoch and old[k].env == new[k].env for k in new)
                EDGE[tgt][b] = new
                if not same and tgt in self.heads and (b, tgt) not in self.back:
                    # the loop is entered with a new state: iterate it afresh instead of meeting states of the previous round
                    for pr in list(EDGE[tgt]):
                        if (pr, tgt) in self.back:
                            del EDGE[tgt][pr]
                    hw.pop(tgt, None)
                if not same and new and tgt not in work:
                    work.append(tgt)
                elif not same and not new and old and tgt not in work:
                    work.append(tgt)
        return self

    def enter(self, prev, blk, st):
        s = st.copy()
        vals = {}
        for i in self.f.blocks[blk].insns:
            if i.op != 'phi':
                break
            for v, pb in i.extra['incoming']:
                if pb == prev:
                    vals[i.dst] = self.form(st, v)
                    break
            else:
                vals[i.dst] = lf(i.dst)
        for k, v in vals.items():
            s.env[k] = v if len(v) <= 40 else lf(k)
        return s

    def predkey(self, st, c):
        d = self.f.defs.get(c)
        if d is None or d.op != 'icmp':
            return None
        fa, fb = self.form(st, d.ops[0]), self.form(st, d.ops[1])
        a, b = canon(fa), canon(fb)
        p = d.extra['pred']
        if set(fa) <= {1} and set(fb) <= {1}:
            x, y = fa.get(1, 0), fb.get(1, 0)
            ux, uy = x % (1 << 64), y % (1 << 64)
            return ('const',), {'eq': x == y, 'ne': x != y, 'slt': x < y, 'sle': x <= y, 'sgt': x > y, 'sge': x >= y, 'ult': ux < uy, 'ule': ux <= uy, 'ugt': ux > uy, 'uge': ux >= uy}[p]
        # canonical: eq / ult / slt with a polarity
        if p in ('eq', 'ne'):
            x, y = sorted([a, b], key=str)
            return ('eq', x, y), p == 'eq'
        sg = p[0]
        rel = p[1:]
        if rel == 'lt':
            return (sg + 'lt', a, b), True
        if rel == 'ge':
            return (sg + 'lt', a, b), False
        if rel == 'gt':
            return (sg + 'lt', b, a), True
        if rel == 'le':
            return (sg + 'lt', b, a), False
        return None

    def block(self, b, st):
        """executes block b on st; yields (state, successor)"""
        f = self.f
        for i in f.blocks[b].insns:
            if i.op == 'phi':
                continue
            if i.op == 'ret':
                self.rets.append((i, st))
                return []
            if i.op == 'br':
                if not i.extra.get('cond'):
                    return [(st, i.extra['targets'][0])]
                tt, tf = i.extra['targets']
                if tt == tf:
                    return [(st, tt)]
                pk = self.predkey(st, i.extra['cond'])
                if pk is not None:
                    key, pol = pk
                    if key == ('const',):
                        return [(st, tt if pol else tf)]
                    if key[1] == key[2] and key[0] == 'eq':
                        return [(st, tt if pol else tf)]
                    if key in st.preds:
                        taken = st.preds[key] == pol
                        return [(st, tt if taken else tf)]
                    s1, s2 = st, st.copy()
                    s1.preds[key] = pol
                    s2.preds[key] = not pol
                    return [(s1, tt), (s2, tf)]
                return [(st, tt), (st.copy(), tf)]
            if i.op == 'switch':
                return [(st if n == 0 else st.copy(), s) for n, s in enumerate(self.succs(b))]
            if i.op == 'unreachable':
                return []
            self.step(i, st)
        return []

    def step(self, i, st):
        f = self.f
        op = i.op
        if op == 'store':
            fld = self.field_of(i.ops[1])
            if fld:
                st.F[fld] = self.form(st, i.ops[0])
            else:
                if self.store_hook is not None:
                    self.store_hook(i, st)
                st.epoch = (st.epoch[0], st.epoch[1] + 1)
            return
        if op == 'call':
            cal = re.sub(r'\.\d+$', '', i.callee or '')
            if cal.startswith('llvm.dbg') or cal.startswith('llvm.lifetime'):
                return
            if cal == 'set_buf' and len(i.args) >= 2:
                k = self.bbkey(i.args[0][1])
                if k:
                    st.bb[k] = self.form(st, i.args[1][1])
                    st.ver[k] = ('S', i.uid if hasattr(i, 'uid') else id(i))
                st.epoch = (st.epoch[0], st.epoch[1] + 1)
                return
            if cal in ('buffer_used', 'buffer_ptr') and i.args:
                k = self.bbkey(i.args[0][1])
                U = lf(('used', k, st.ver.get(k, 0)))
                st.env[i.dst] = U if cal == 'buffer_used' else (add(st.bb[k], U) if k in st.bb else lf(i.dst))
                return
            if i.dst:
                st.env[i.dst] = lf(i.dst)
            if cal in PURE:
                return
            if cal.startswith(('llvm.memcpy', 'llvm.memset', 'llvm.memmove')) and i.args:
                if self.call_hook is not None:
                    self.call_hook(i, st)
                dv = self.f.defs.get(irrules._strip(self.f, i.args[0][1]))
                root = i.args[0][1]
                for _ in range(6):
                    dd = self.f.defs.get(irrules._strip(self.f, root))
                    if dd is not None and dd.op == 'getelementptr':
                        root = dd.ops[0]
                    else:
                        break
                dd = self.f.defs.get(irrules._strip(self.f, root))
                if dd is not None and dd.op == 'load' and self.field_of(dd.ops[0]) in ('next_out', 'next_in'):
                    return
            if cal.startswith('llvm.') and not cal.startswith(('llvm.mem',)):
                return
            st.epoch = (st.epoch[0], st.epoch[1] + 1)
            for ty, v in i.args:
                k = self.bbkey(v)
                if k:
                    for kk in list(st.ver):
                        if set(kk) & set(k) or any(a[0] == 'param' and a[1] == self.pidx and a[2] == 0 for a in k):
                            st.ver[kk] = ('C', i.block, i.dst or str(id(i) % 100000))
            passes = any(self.is_base(v) for _, v in i.args)
            mods = MODSETS.get(cal) if cal else None
            if passes:
                self.calls.append((i, (i.callee or '').lstrip('@'), st.copy(), [self.form(st, v) for _, v in i.args]))
                tag = i.dst or ('%s@%s' % (cal or 'indirect', i.block))
                for d, (n, a, t) in DIRS.items():
                    if n not in st.F or (mods is not None and d not in mods):
                        continue
                    c = lf(('moved', d, tag))
                    st.F[n] = add(st.F[n], c)
                    st.F[a] = add(st.F[a], c, -1)
                    if t in st.F:
                        st.F[t] = add(st.F[t], c)
                for kk in list(st.ver):
                    st.ver[kk] = ('C', i.block, tag)
                # decisions that mention a counter's old value stay valid (forms are symbolic), nothing to drop
            return
        if not i.dst:
            return
        r = None
        if op == 'load':
            fld = self.field_of(i.ops[0])
            if fld:
                r = st.F[fld]
                st.snap[i.dst] = canon(r)
            else:
                at = self.P.atoms(i.ops[0])
                if at and all(a[0] in ('param', 'mem', 'global', 'ld') for a in at) and len(at) == 1:
                    r = lf(('ld', tuple(sorted(at, key=str)), st.epoch, ''))
        elif op in ('add', 'sub'):
            r = add(self.form(st, i.ops[0]), self.form(st, i.ops[1]), 1 if op == 'add' else -1)
        elif op == 'mul':
            a, b = self.form(st, i.ops[0]), self.form(st, i.ops[1])
            if set(b) <= {1}:
                r = scale(a, b.get(1, 0))
            elif set(a) <= {1}:
                r = scale(b, a.get(1, 0))
        elif op == 'shl' and INT.match(i.ops[1]) and int(i.ops[1]) < 32:
            r = scale(self.form(st, i.ops[0]), 1 << int(i.ops[1]))
        elif op in ('zext', 'sext', 'trunc', 'bitcast', 'freeze', 'ptrtoint', 'inttoptr'):
            r = self.form(st, i.ops[0])
        elif op == 'getelementptr' and i.ops[0] != '?':
            o = self.mod.types.gep_offset(i.extra['basety'], i.extra['idx'])
            o = o[0] if isinstance(o, tuple) else o
            if o is not None:
                r = add(self.form(st, i.ops[0]), lf(None, o))
            elif len(i.extra['idx']) == 1 and i.extra['basety'].strip() == 'i8':
                r = add(self.form(st, i.ops[0]), self.form(st, i.extra['idx'][0].split()[-1]))
        elif op == 'sdiv' and INT.match(i.ops[1]) and int(i.ops[1]) == 1:
            r = self.form(st, i.ops[0])
        elif op == 'select':
            a, b = self.form(st, i.ops[1]), self.form(st, i.ops[2])
            if canon(a) == canon(b):
                r = a
        elif op in ('sdiv', 'udiv', 'urem', 'srem', 'and', 'or', 'xor', 'lshr', 'ashr', 'shl', 'mul', 'icmp'):
            r = lf(('op', op, i.extra.get('pred', '') if op == 'icmp' else '', canon(self.form(st, i.ops[0])), canon(self.form(st, i.ops[1]))))
        if r is None or len(r) > 40:
            r = lf(i.dst)
        st.env[i.dst] = r


def stream_param(f):
    for idx, (ty, name) in enumerate(f.params):
        if 'struct.isal_zstream*' in ty:
            return idx, 'z'
        if 'struct.inflate_state*' in ty:
            return idx, 'i'
    return None, None


MODSETS = {}


def modsets(mod, offz, offi):
    """{function: set of directions whose counters it may change, directly or through callees that get the stream}"""
    direct, edges = {}, {}
    for fn, f in mod.funcs.items():
        pidx, kind = stream_param(f)
        if pidx is None or not f.order:
            continue
        off = offz if kind == 'z' else offi
        inv = {v: k for k, v in off.items()}
        P = irrules.prov(mod, f)
        ds = set()
        cs = set()
        for i in f.all_insns():
            if i.op == 'store':
                for a in P.atoms(i.ops[1]):
                    if a[0] == 'param' and a[1] == pidx and a[2] in inv:
                        ds.add('in' if inv[a[2]].endswith('_in') else 'out')
            elif i.op == 'call' and any(irrules._strip(f, v) == f.params[pidx][1] for _, v in i.args):
                cal = re.sub(r'\.\d+$', '', i.callee or '')
                cs.add(cal or '?')
        direct[fn], edges[fn] = ds, cs
    ch = True
    while ch:
        ch = False
        for fn in direct:
            for c in edges[fn]:
                add_ = direct.get(c, {'in', 'out'}) if c != '?' else {'in', 'out'}
                if not add_ <= direct[fn]:
                    direct[fn] |= add_
                    ch = True
    return direct


def analyse(mod, offz, offi):
    """-> {function: Fn}"""
    MODSETS.clear()
    MODSETS.update(modsets(mod, offz, offi))
    out = {}
    for fn, f in sorted(mod.funcs.items()):
        pidx, kind = stream_param(f)
        if pidx is None or not f.order:
            continue
        out[fn] = Fn(mod, f, pidx, kind, offz if kind == 'z' else offi).run()
    return out


# functions that (re)initialise counters: the fields they set to zero; everything else must stay balanced
ZEROED = {
    'isal_deflate_init': {'total_in', 'total_out'},
    'isal_deflate_reset': {'total_in', 'total_out'},
    'isal_deflate_stateless_init': {'total_in', 'total_out'},
    'isal_inflate_init': {'next_in', 'avail_in', 'next_out', 'avail_out', 'total_out'},
    'isal_inflate_reset': {'total_out'},
    'isal_inflate_stateless': {'total_out'},     # documented: a stateless call counts its output from zero
}
NOT_DECIDED = {
    'isal_inflate': 'total_out deliberately counts bytes parked in tmp_out_buffer and is corrected with tmp_out_valid - tmp_out_processed (data-dependent bookkeeping, not a per-update balance)',
}


def check(rep, kind, floor, offz, offi, mod, only=None, suffix=None):
    """kind 'z' = compression side (struct isal_zstream), 'i' = decompression side (struct inflate_state)"""
    side = 'compression' if kind == 'z' else 'decompression'
    R = rep.rule('R-ACCT-BALANCE-' + (suffix or ('DEFLATE' if kind == 'z' else 'INFLATE')),
                 'every portable C function of the %s side that receives the stream: on every path to every return (path-sensitive, branch decisions remembered, loops merged relationally) '
                 'total_X - next_X and total_X + avail_X (next_X + avail_X where no total exists) equal their entry values, i.e. the three counters of a direction always move by the same amount; '
                 'initialisers may only zero the counters they are documented to zero; a residual over parameters becomes an obligation at each call site; callees that get the stream (incl. asm kernels, '
                 'assumed) are balanced' % side, floor=floor, unit='function returns x invariants')
    res = analyse(mod, offz, offi)
    called = {c for a in res.values() for _, c, _, _ in a.calls}
    nfun = 0
    for fn, a in sorted(res.items()):
        if a.kind != kind:
            continue
        base = re.sub(r'\.\d+$', '', fn)
        if only is not None and base not in only:
            continue
        if base in NOT_DECIDED:
            R.notes.append('%s: not decided - %s' % (base, NOT_DECIDED[base]))
            continue
        nfun += 1
        zero = ZEROED.get(base, set())
        seen = set()
        if not a.rets:
            raise AnalysisBroken('acct: %s has no reachable return' % fn)
        param_resid = {}
        for ri, st in a.rets:
            inv = a.invariants(st)
            # expected residual of an initialiser
            exp_state = State()
            for n in a.fields:
                exp_state.F[n] = {} if n in zero else lf('E_' + n)
            exp = a.invariants(exp_state)
            for k, form in inv.items():
                d = add(form, exp[k], -1)
                key = (k, canon(d))
                if key in seen:
                    continue
                seen.add(key)
                R.instance()
                if not d:
                    R.ok(sample='%s: %s %s balanced on every path' % (fn, k[0], k[1]) if fn in ('isal_deflate_stateless', 'decode_literal_block') else None)
                    continue
                atoms = [x for x in d if x != 1]
                pnames = {n for _, n in a.f.params}
                if atoms and all((isinstance(x, str) and (x in pnames or x.startswith('E_'))) for x in atoms) and any(x in pnames for x in atoms) and base not in ZEROED and fn in called:
                    param_resid.setdefault(k, d)
                    R.ok()
                    continue
                R.fail(mod.where(a.f, ri), '%s: at this return the %s counters are out of step: (%s) differs from its entry value by %s%s' %
                       (fn, k[0], k[1].replace('total', 'total_' + k[0]).replace('next', 'next_' + k[0]).replace('avail', 'avail_' + k[0]), fmt(d),
                        '; precision lost: ' + a.lost[0] if a.lost else ''), key='R-ACCT|%s|%s|%s|%s' % (base, k[0], k[1], fmt(d)[:60]))
        a.param_resid = param_resid
    # call-site obligations
    for fn, a in sorted(res.items()):
        if a.kind != kind or re.sub(r'\.\d+$', '', fn) in NOT_DECIDED or (only is not None and re.sub(r'\.\d+$', '', fn) not in only):
            continue
        done = set()
        for i, cal, st, args in a.calls:
            cal_fn = res.get(cal)
            if cal_fn is None or not getattr(cal_fn, 'param_resid', None):
                continue
            for k, d in cal_fn.param_resid.items():
                sub = {}
                for atom, c in d.items():
                    if atom == 1:
                        sub = add(sub, lf(None, c))
                    elif atom.startswith('E_'):
                        sub = add(sub, scale(st.F[atom[2:]], c))
                    else:
                        idx = [n for _, n in cal_fn.f.params].index(atom)
                        sub = add(sub, scale(args[idx], c))
                kk = (id(i), k, canon(sub))
                if kk in done:
                    continue
                done.add(kk)
                R.instance()
                R.check(not sub, mod.where(a.f, i), '%s calls %s with arguments for which the callee leaves the %s counters out of step by %s (it needs %s = 0)' % (fn, cal, k[0], fmt(sub), fmt(d)),
                        key='R-ACCT|call|%s|%s|%s' % (fn, cal, k[1]), sample='%s -> %s: %s = 0 holds' % (fn, cal, fmt(d)))
    R.notes.append('%d functions analysed' % nfun)


def _nonneg_ge1(form, st, depth=0):
    """form >= 1 for unsigned quantities: a positive constant plus non-negative atoms, or a form known to be non-zero on this path"""
    if not form:
        return False
    if all(c > 0 for c in form.values()) and form.get(1, 0) >= 1:
        return True
    k = ('eq',) + tuple(sorted([canon(form), canon({})], key=str))
    if st.preds.get(k) is False:
        return True
    return False


def avail_ge1(st, A):
    """is the form A (an unsigned amount of space) provably >= 1 from the branch decisions taken on this path?"""
    if _nonneg_ge1(A, st):
        return True
    ca = canon(A)
    for key, pol in st.preds.items():
        if key[0] == 'ult':
            x, y = key[1], key[2]
            if y == ca and pol is True:          # x < A
                return True
            if x == ca and pol is False:         # A >= y
                if _nonneg_ge1(dict(y), st):
                    return True
        elif key[0] == 'eq' and ca in key[1:] and canon({}) in key[1:] and pol is False:
            return True
    return False


def check_direct_out(rep, mod, offz, floor):
    """every direct (non-memcpy) store through the pointer held in next_out must be covered by avail_out >= 1 on every path that reaches it"""
    R = rep.rule('R-OUT-DIRECT', 'compression side: every direct store through the pointer loaded from stream->next_out (byte patches of an already copied header) executes only on paths on which the branch decisions taken '
                 'imply avail_out - (offset of the store) >= 1 (path-sensitive: the clipped copy count, its non-zero test and the space tests are remembered as predicates over linear forms)', floor=floor, unit='direct stores')
    MODSETS.update(modsets(mod, offz, offz))
    n = 0
    for fn, f in sorted(mod.funcs.items()):
        pidx, kind = stream_param(f)
        if kind != 'z' or not f.order or fn.startswith(('isal_write_gzip_header', 'isal_write_zlib_header')):
            continue
        P = irrules.prov(mod, f)
        sites = [i for i in f.all_insns() if i.op == 'store' and any(a[0] == 'ld' and a[1] == ('param', pidx, offz['next_out']) for a in P.atoms(i.ops[1]))]
        if not sites:
            continue
        a = Fn(mod, f, pidx, kind, offz)
        seen = {}

        def hook(i, st, a=a, seen=seen, sites=sites):
            if i in sites:
                # the address: next_out form + constant offset
                pf = a.form(st, i.ops[1])
                off = add(pf, st.F['next_out'], -1)
                ok = set(off) <= {1} and off.get(1, 0) >= 0 and avail_ge1(st, add(st.F['avail_out'], lf(None, off.get(1, 0)), -1))
                seen.setdefault(id(i), [i, True, None])
                if not ok:
                    seen[id(i)][1] = False
                    seen[id(i)][2] = 'avail_out = %s, store at next_out + %s, decisions on the path: %d' % (fmt(st.F['avail_out']), fmt(off), len(st.preds))
        a.store_hook = hook
        a.run()
        for i in sites:
            n += 1
            R.instance()
            rec = seen.get(id(i))
            if rec is None:
                R.fail(mod.where(f, i), '%s: direct store through next_out is unreachable in the analysis' % fn, key='R-OUT-DIRECT|%s|%d' % (fn, i.line or 0))
            else:
                R.check(rec[1], mod.where(f, i), '%s: a path reaches this store through next_out without a decision that implies one byte of output space is left (%s): it writes beyond avail_out' % (fn, rec[2]),
                        key='R-OUT-DIRECT|%s|%d' % (fn, i.line or 0), sample='%s: store covered by avail_out >= 1' % fn)
    if n == 0:
        raise AnalysisBroken('R-OUT-DIRECT: no direct store through next_out found')


def check_count_resume(rep, mod, off_with_count, floor):
    """headers that may be written in pieces: the copy resumes at the offset recorded in state->count and count advances by what was copied"""
    R = rep.rule('R-COUNT-RESUME', 'write_stream_header / write_header (a wrapper or block header written across calls): on every path the memcpy into the output reads the header at offset state->count (the bytes already '
                 'written), copies n bytes, and state->count afterwards is its old value + n or 0 (complete) - path-sensitive linear forms; the same n moves next_out / avail_out / total_out (R-ACCT-BALANCE)', floor=floor, unit='(function, path states)')
    MODSETS.update(modsets(mod, off_with_count, off_with_count))
    for fn in ('write_stream_header', 'write_header'):
        f = mod.funcs.get(fn)
        if f is None:
            raise AnalysisBroken(fn + ' not found')
        pidx, kind = stream_param(f)
        a = Fn(mod, f, pidx, kind, off_with_count)
        a.fields = list(a.fields) + ['#copied']
        init0 = a.initial

        def initial(init0=init0):
            st = init0()
            st.F['#copied'] = {}
            return st
        a.initial = initial
        events = []

        def hook(i, st, a=a, events=events):
            if not (i.callee or '').startswith('llvm.memcpy'):
                return
            dst = a.form(st, i.args[0][1])
            if canon(dst) != canon(st.F['next_out']):
                return
            n = a.form(st, i.args[2][1])
            events.append((i, canon(st.F['count']), a.form(st, i.args[1][1]), n, st))
            st.F['#copied'] = add(st.F['#copied'], n)
        a.call_hook = hook
        a.run()
        if not events:
            raise AnalysisBroken('%s: no copy into next_out found' % fn)
        seen = set()
        for i, cnt, src, n, st in events:
            key = (id(i), cnt, canon(src), canon(n))
            if key in seen:
                continue
            seen.add(key)
            R.instance()
            c = dict(cnt)
            rest = add(src, c, -1)
            dep = [k for k in c if k != 1 and k in rest]
            R.check(not dep, mod.where(f, i), '%s: the piece is copied from %s while %s bytes are already written: the copy does not resume at offset state->count' % (fn, fmt(src), fmt(c)), key='R-COUNT-RESUME|%s|src|%d' % (fn, i.line or 0),
                    sample='%s: source = header + count' % fn)
        # at the returns: count is 0 (complete) or its entry value plus everything copied on this path
        done = set()
        for ri, st in a.rets:
            final = st.F['count']
            k = (canon(final), canon(st.F['#copied']))
            if k in done:
                continue
            done.add(k)
            R.instance()
            ok = not final or canon(final) == canon(add(lf('E_count'), st.F['#copied']))
            R.check(ok, mod.where(f, ri), '%s: state->count is %s at this return although %s bytes were copied on this path: it is neither 0 (header complete) nor its entry value plus the bytes copied' % (fn, fmt(final), fmt(st.F['#copied'])), key='R-COUNT-RESUME|%s|final|%s' % (fn, fmt(final)[:40]),
                    sample='%s: count in {0, old, old + n}' % fn)


def check_stored_len(rep, mod, offi_with_len, floor=1):
    """stored blocks: the bytes still owed by the current stored block are counted down by exactly what is delivered"""
    R = rep.rule('R-STORED-LEN-BALANCE', 'decode_literal_block: on every path to every return (path-sensitive linear forms, the engine of R-ACCT-BALANCE) total_out + type0_block_len equals its entry value - every byte of a '
                 'stored block that is delivered, from the bit buffer or from the input, is taken off the length the block still owes, so the block ends (and "output full with data pending" is reported) exactly where LEN says',
                 floor=floor, unit='function returns')
    MODSETS.update(modsets(mod, offi_with_len, offi_with_len))
    f = mod.funcs.get('decode_literal_block')
    if f is None:
        raise AnalysisBroken('decode_literal_block not found (inlined away?)')
    pidx, kind = stream_param(f)
    a = Fn(mod, f, pidx, kind, offi_with_len)
    a.run()
    if not a.rets:
        raise AnalysisBroken('acct: decode_literal_block has no reachable return')
    seen = set()
    for ri, st in a.rets:
        d = add(add(st.F['total_out'], st.F['type0_block_len']), add(lf('E_total_out'), lf('E_type0_block_len')), -1)
        k = canon(d)
        if k in seen:
            continue
        seen.add(k)
        if any('moved_' in fmt({k: 1}) for k in d if k != 1):
            # the residual mentions what a callee moved: the callee's effect on type0_block_len is not summarised, so nothing is decided here
            raise AnalysisBroken('R-STORED-LEN-BALANCE: decode_literal_block moves the counters through a callee (%s): not decided' % fmt(d))
        R.instance()
        R.check(not d, mod.where(f, ri), 'decode_literal_block: at this return total_out + type0_block_len differs from its entry value by %s: bytes were delivered without being taken off the stored block\'s remaining '
                'length (the block then over-runs into the next block header, or a complete block is reported as pending)' % fmt(d), key='R-STORED-LEN-BALANCE|%s' % fmt(d),
                sample='decode_literal_block: balanced at every return')
