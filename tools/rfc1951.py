# independent RFC1951 helpers (reference side)
LEN_BASE=[3,4,5,6,7,8,9,10,11,13,15,17,19,23,27,31,35,43,51,59,67,83,99,115,131,163,195,227,258]
LEN_EXTRA=[0,0,0,0,0,0,0,0,1,1,1,1,2,2,2,2,3,3,3,3,4,4,4,4,5,5,5,5,0]
DIST_BASE=[1,2,3,4,5,7,9,13,17,25,33,49,65,97,129,193,257,385,513,769,1025,1537,2049,3073,4097,6145,8193,12289,16385,24577]
DIST_EXTRA=[0,0,0,0,1,1,2,2,3,3,4,4,5,5,6,6,7,7,8,8,9,9,10,10,11,11,12,12,13,13]
CL_ORDER=[16,17,18,0,8,7,9,6,10,5,11,4,12,3,13,2,14,1,15]
def canonical(lengths):
    maxl=max(lengths) if lengths else 0
    bl=[0]*(maxl+2)
    for l in lengths:
        if l: bl[l]+=1
    code=0; nxt=[0]*(maxl+2)
    for b in range(1,maxl+1):
        code=(code+bl[b-1])<<1; nxt[b]=code
    out=[None]*len(lengths)
    for i,l in enumerate(lengths):
        if l: out[i]=nxt[l]; nxt[l]+=1
    return out
def rev(c,l):
    r=0
    for i in range(l): r=(r<<1)|((c>>i)&1)
    return r
def kraft(lengths):
    from fractions import Fraction
    return sum(Fraction(1,1<<l) for l in lengths if l)
class Bits:
    def __init__(s,b): s.b=b; s.p=0
    def get(s,n):
        v=0
        for i in range(n):
            v|=((s.b[s.p>>3]>>(s.p&7))&1)<<i; s.p+=1
        return v
def decode_sym(bits,lengths,codes):
    c=0;l=0
    table={(lengths[i],codes[i]):i for i in range(len(lengths)) if lengths[i]}
    while True:
        c=(c<<1)|bits.get(1); l+=1
        if (l,c) in table: return table[(l,c)]
        if l>15: raise ValueError('bad code')
def parse_block_header(data,nbits):
    """returns (bfinal,btype,litlen_lengths,dist_lengths,bits_consumed)"""
    b=Bits(data+b'\0'*8)
    bfinal=b.get(1); btype=b.get(2)
    if btype==1:
        ll=[8]*144+[9]*112+[7]*24+[8]*8; dl=[5]*30
        return bfinal,btype,ll,dl,b.p
    assert btype==2
    hlit=b.get(5)+257; hdist=b.get(5)+1; hclen=b.get(4)+4
    cl=[0]*19
    for i in range(hclen): cl[CL_ORDER[i]]=b.get(3)
    clc=canonical(cl)
    lens=[]
    while len(lens)<hlit+hdist:
        s=decode_sym(b,cl,clc)
        if s<16: lens.append(s)
        elif s==16: lens+= [lens[-1]]*(3+b.get(2))
        elif s==17: lens+=[0]*(3+b.get(3))
        else: lens+=[0]*(11+b.get(7))
    assert len(lens)==hlit+hdist
    return bfinal,btype,lens[:hlit]+[0]*(286-hlit),lens[hlit:]+[0]*(30-hdist),b.p
