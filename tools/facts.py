"""FACTS: path-sensitive evaluation of the dispatch resolvers.  Every path through a
resolver is enumerated (they are acyclic; cmovcc is split like a branch); along a path
the analysis tracks which CPUID leaf / XCR0 word (and AND-mask) each register holds, the
predicate the flags express, and derives the set of feature bits KNOWN SET on the path,
the symbol whose address is stored to the dispatch slot, and register preservation."""
import re
from common import AnalysisBroken
from asmdb import REG64, parse_mem, is_mem

CPUID1_ECX = {0: 'SSE3', 1: 'PCLMULQDQ', 9: 'SSSE3', 12: 'FMA', 19: 'SSE4.1', 20: 'SSE4.2', 22: 'MOVBE', 23: 'POPCNT', 25: 'AES',
              26: 'XSAVE', 27: 'OSXSAVE', 28: 'AVX'}
CPUID7_EBX = {3: 'BMI1', 5: 'AVX2', 8: 'BMI2', 16: 'AVX512F', 17: 'AVX512DQ', 19: 'ADX', 21: 'AVX512IFMA', 28: 'AVX512CD',
              30: 'AVX512BW', 31: 'AVX512VL'}
CPUID7_ECX = {1: 'AVX512VBMI', 6: 'AVX512VBMI2', 8: 'GFNI', 9: 'VAES', 10: 'VPCLMULQDQ', 11: 'AVX512VNNI', 12: 'AVX512BITALG',
              14: 'AVX512VPOPCNTDQ'}
XCR0 = {1: 'XCR0.SSE', 2: 'XCR0.AVX', 5: 'XCR0.OPMASK', 6: 'XCR0.ZMMHI', 7: 'XCR0.HI16'}
WORDS = {('C1', 'ecx'): CPUID1_ECX, ('C7', 'ebx'): CPUID7_EBX, ('C7', 'ecx'): CPUID7_ECX, ('X0', 'eax'): XCR0}
GPRS = ['rax', 'rbx', 'rcx', 'rdx', 'rsi', 'rdi', 'rbp', 'rsp', 'r8', 'r9', 'r10', 'r11', 'r12', 'r13', 'r14', 'r15']
MAXPATHS = 4096


def bits(src, mask):
    tab = WORDS.get(src, {})
    return {tab.get(b, '%s.%s[%d]' % (src[0], src[1], b)) for b in range(32) if mask >> b & 1}


def imm(s):
    try:
        return int(s, 0) & 0xffffffff
    except ValueError:
        return None


class Path:
    __slots__ = ('facts', 'neg', 'trace', 'stored', 'slot', 'store_insn', 'nstores', 'problems', 'preserved', 'final')


def resolver_paths(u, entry):
    """enumerate all paths from entry to ret.  Returns list of Path."""
    insns = u.insns
    paths = []

    def finish(st, facts, neg, trace, problems):
        p = Path()
        p.facts = frozenset(facts)
        p.neg = frozenset(neg)
        p.trace = trace
        p.stored = st.get('STORED')
        p.slot = st.get('SLOT')
        p.store_insn = st.get('STOREINSN')
        p.nstores = st.get('NSTORES', 0)
        p.problems = problems
        p.preserved = all(st.get(r) == ('ORIG', r) for r in GPRS if r != 'rsp') and st.get('SPD', 0) == 8
        p.final = {r: st.get(r) for r in GPRS}
        paths.append(p)
        if len(paths) > MAXPATHS:
            raise AnalysisBroken('%s: resolver at %#x has more than %d paths' % (u.name, entry, MAXPATHS))

    def step(a, st, facts, neg, trace, problems, visited):
        while True:
            if a not in insns:
                raise AnalysisBroken('%s: resolver path leaves decoded code at %#x' % (u.name, a))
            if a in visited:
                raise AnalysisBroken('%s: resolver at %#x contains a cycle (at %#x)' % (u.name, entry, a))
            visited = visited | {a}
            i = insns[a]
            mn = i.mn
            ops = i.ops
            nxt = i.end
            st = dict(st)
            if mn in ('endbr64', 'nop'):
                a = nxt
                continue
            if mn == 'push':
                r = REG64[ops[0]][0]
                st['STACK'] = st.get('STACK', ()) + (st.get(r),)
                st['SPD'] = st.get('SPD', 0) - 8
                a = nxt
                continue
            if mn == 'pop':
                r = REG64[ops[0]][0]
                stack = st.get('STACK', ())
                if not stack:
                    problems = problems + ['pop with empty stack at %s' % u.where(i)]
                    st[r] = None
                else:
                    st[r] = stack[-1]
                    st['STACK'] = stack[:-1]
                st['SPD'] = st.get('SPD', 0) + 8
                a = nxt
                continue
            if mn == 'ret':
                st['SPD'] = st.get('SPD', 0) + 8
                finish(st, facts, neg, trace, problems)
                return
            if mn == 'cpuid':
                leaf = st.get('rax')
                leafn = {1: 'C1', 7: 'C7'}.get(leaf[1] if leaf and leaf[0] == 'K' else None, 'C?')
                if leafn == 'C7' and st.get('rcx') != ('K', 0):
                    leafn = 'C7?'
                    problems = problems + ['cpuid leaf 7 executed with ecx not known to be 0 at %s' % u.where(i)]
                for r, nm in (('rax', 'eax'), ('rbx', 'ebx'), ('rcx', 'ecx'), ('rdx', 'edx')):
                    st[r] = ('F', (leafn, nm), 0xffffffff)
                st['FL'] = st.get('FL')
                a = nxt
                continue
            if mn == 'xgetbv':
                ok = st.get('rcx') == ('K', 0)
                if not ok:
                    problems = problems + ['xgetbv executed with ecx not known to be 0 at %s' % u.where(i)]
                if 'OSXSAVE' not in facts:
                    problems = problems + ['xgetbv executed on a path where CPUID.1:ECX.OSXSAVE was not seen set (it faults with #UD otherwise) at %s' % u.where(i)]
                st['rax'] = ('F', ('X0' if ok else 'X?', 'eax'), 0xffffffff)
                st['rdx'] = ('F', ('X0', 'edx'), 0xffffffff)
                a = nxt
                continue
            if mn == 'lea':
                d = REG64[ops[0]][0]
                if i.reloc is not None:
                    t = u.reloc_target(i)
                    st[d] = ('SYM', t[1], t[2])
                else:
                    m = parse_mem(ops[1])
                    if m and m['rip']:
                        tgt = nxt + m['disp']
                        names = u.labels.get(tgt)
                        st[d] = ('SYM', names[0], 0) if names else None
                    else:
                        st[d] = None
                a = nxt
                continue
            if mn == 'mov':
                if is_mem(ops[0]):
                    m = parse_mem(ops[0])
                    src = REG64.get(ops[1])
                    st['NSTORES'] = st.get('NSTORES', 0) + 1
                    st['STORED'] = st.get(src[0]) if src else None
                    st['SLOT'] = u.reloc_target(i) if (i.reloc is not None and m['rip']) else None
                    st['STOREINSN'] = i
                    if not src or src[1] != 64:
                        problems = problems + ['dispatch store is not a single 64-bit register store: %s' % u.where(i)]
                    a = nxt
                    continue
                if is_mem(ops[1]):
                    problems = problems + ['resolver loads from memory: %s' % u.where(i)]
                    st[REG64[ops[0]][0]] = None
                    a = nxt
                    continue
                d = REG64[ops[0]][0]
                if ops[1] in REG64:
                    st[d] = st.get(REG64[ops[1]][0])
                else:
                    v = imm(ops[1])
                    st[d] = ('K', v) if v is not None else None
                a = nxt
                continue
            if mn == 'xor' and len(ops) == 2 and ops[0] == ops[1]:
                st[REG64[ops[0]][0]] = ('K', 0)
                st['FL'] = None
                a = nxt
                continue
            if mn == 'and' and ops[0] in REG64:
                d = REG64[ops[0]][0]
                v = st.get(d)
                m = imm(ops[1])
                st[d] = ('F', v[1], v[2] & m) if v and v[0] == 'F' and m is not None else None
                st['FL'] = None
                a = nxt
                continue
            if mn == 'test' and ops[0] in REG64:
                v = st.get(REG64[ops[0]][0])
                m = imm(ops[1])
                st['FL'] = ('TEST', v[1], v[2] & m) if v and v[0] == 'F' and m is not None else ('OPAQUE', i.text)
                a = nxt
                continue
            if mn == 'cmp' and ops[0] in REG64:
                v = st.get(REG64[ops[0]][0])
                m = imm(ops[1])
                st['FL'] = ('CMP', v[1], v[2], m) if v and v[0] == 'F' and m is not None else ('OPAQUE', i.text)
                a = nxt
                continue
            if mn == 'jmp':
                if i.target is None:
                    raise AnalysisBroken('%s: indirect jump inside resolver: %s' % (u.name, u.where(i)))
                a = i.target
                continue
            cc = None
            if mn.startswith('cmov'):
                cc = mn[4:]
            elif mn.startswith('j'):
                cc = mn[1:]
            if cc:
                fl = st.get('FL')

                def outcome(zf):
                    f = set(facts)
                    n = set(neg)
                    if fl and fl[0] == 'TEST':
                        b = bits(fl[1], fl[2])
                        if not zf:
                            if len(b) == 1:
                                f |= b
                            else:
                                n.add('?some-of(' + ','.join(sorted(b)) + ')')
                        else:
                            n |= {'!' + x for x in b}
                    elif fl and fl[0] == 'CMP':
                        if zf and fl[2] == fl[3]:
                            f |= bits(fl[1], fl[2])
                        elif zf:
                            # equal to a value that is not the full mask: bits of the compared value are set
                            f |= bits(fl[1], fl[2] & fl[3])
                        else:
                            n.add('!all(' + ','.join(sorted(bits(fl[1], fl[2]))) + ')')
                    elif fl and fl[0] == 'OPAQUE':
                        n.add(('zf:' if zf else 'nz:') + fl[1])
                    else:
                        n.add('?unknown-flags')
                    return f, n
                if cc in ('e', 'z'):
                    zf_taken = True
                elif cc in ('ne', 'nz'):
                    zf_taken = False
                else:
                    raise AnalysisBroken('%s: resolver uses condition %s, not modelled: %s' % (u.name, cc, u.where(i)))
                if fl is None:
                    problems = problems + ['condition consumed with undefined flags at %s' % u.where(i)]
                ft, nt = outcome(zf_taken)       # condition true
                ff, nf = outcome(not zf_taken)   # condition false
                if mn.startswith('cmov'):
                    d = REG64[ops[0]][0]
                    st2 = dict(st)
                    st2[d] = st.get(REG64[ops[1]][0]) if ops[1] in REG64 else None
                    step(nxt, st2, ft, nt, trace + [(i, True)], problems, visited)
                    facts, neg, trace = ff, nf, trace + [(i, False)]
                    a = nxt
                    continue
                step(i.target, st, ft, nt, trace + [(i, True)], problems, visited)
                facts, neg, trace = ff, nf, trace + [(i, False)]
                a = nxt
                continue
            raise AnalysisBroken('%s: instruction not modelled in resolver: %s' % (u.name, u.where(i)))

    init = {r: ('ORIG', r) for r in GPRS}
    step(entry, init, set(), set(), [], [], frozenset())
    return paths


def find_entry_points(u):
    """discover multibinary interfaces structurally: X = {endbr64; jmp [slot]}, slot initial value
    -> X_mbinit = {endbr64; call resolver}.  Returns list of dict(name, slot, mbinit, resolver)."""
    out = []
    datarel = u.elf.relmap.get('.data', {})
    for fn, f in u.funcs.items():
        if not f.slotjumps or len(f.addrs) > 4:
            continue
        a, slot = f.slotjumps[0]
        sec, sname, off = slot
        y = u.elf.syms.get(sname)
        if y is None or off != 0:
            raise AnalysisBroken('%s:%s jumps through %s+%d, not a named slot' % (u.name, fn, sname, off))
        r = datarel.get(y.value) if sec == '.data' else None
        if r is None:
            raise AnalysisBroken('%s: dispatch slot %s has no initial relocation' % (u.name, sname))
        # initial target
        typ, tname, add, tsym = r[1], r[2], r[3], r[4]
        if tsym.type == 3:
            taddr = add
        else:
            taddr = tsym.value + add
        # decode mbinit: [endbr64]; call resolver ; falls through into X
        b = taddr
        seq = []
        while b in u.insns and len(seq) < 3:
            seq.append(u.insns[b])
            if u.insns[b].mn == 'call':
                break
            b = u.insns[b].end
        if not seq or seq[-1].mn != 'call' or seq[-1].target is None:
            raise AnalysisBroken('%s: initial target of slot %s is not {endbr64; call resolver}' % (u.name, sname))
        falls = seq[-1].end
        out.append(dict(name=fn, slot=sname, slot_sym=y, slot_sec=sec, mbinit=taddr, resolver=seq[-1].target,
                        falls_into=falls, entry=f.entry, mbinit_insns=seq, typ=typ))
    return out
