"""R-CURSOR-PROGRESS: every loop of the portable match finders that carries the input cursor around advances it by at least one byte on
every back edge.  Lower bounds of the added amounts come from constants and from the comparisons that dominate the update
(match_length >= SHORTEST_MATCH and the like); a cursor that can stand still or move backwards means the call may never return."""
import re
from common import AnalysisBroken
import irrules

FUNCS = ('isal_deflate_body_base', 'isal_deflate_finish_base', 'isal_deflate_icf_body_hash_hist_base', 'isal_deflate_icf_finish_hash_hist_base', 'isal_deflate_icf_finish_hash_map_base',
         'gen_icf_map_h1_base', 'set_long_icf_fg_base', 'isal_deflate_hash_base')
NOT_DECIDED = {('set_long_icf_fg_base', 'while.cond'): 'the outer cursor is the exit value of the inner loop, whose own back edge is decided'}


def lb_int(f,v,block,depth=0):
    if re.match(r'^-?\d+$',v): return int(v)
    sv=irrules._strip(f,v)
    best=None
    for p,c in irrules.edge_constraints(f,sv,block)+irrules.edge_constraints(f,v,block):
        x={'uge':c,'sge':c,'ugt':c+1,'sgt':c+1,'eq':c}.get(p)
        if p=='ne' and c==0: x=1
        if x is not None and (best is None or x>best): best=x
    d=f.defs.get(sv)
    if d is not None and depth<6:
        if d.op=='add':
            a,b=lb_int(f,d.ops[0],block,depth+1),lb_int(f,d.ops[1],block,depth+1)
            if a is not None and b is not None and (best is None or a+b>best): best=a+b
        if d.op=='select':
            a,b=lb_int(f,d.ops[1],block,depth+1),lb_int(f,d.ops[2],block,depth+1)
            if a is not None and b is not None: best=max(best if best is not None else -10**9,min(a,b))
        if d.op=='phi':
            vals=[lb_int(f,x,pb,depth+1) for x,pb in d.extra['incoming']]
            if all(x is not None for x in vals): best=max(best if best is not None else -10**9,min(vals))
    return best
def delta(f,v,phi,depth=0,seen=None):
    seen=seen or set()
    if v==phi: return 0
    if v in seen or depth>30: return None
    seen.add(v)
    d=f.defs.get(v)
    if d is None: return None
    if d.op=='bitcast': return delta(f,d.ops[0],phi,depth+1,seen)
    if d.op=='getelementptr' and len(d.extra['idx'])==1:
        b=delta(f,d.ops[0],phi,depth+1,seen)
        if b is None: return None
        idx=d.extra['idx'][0].split()[-1]
        l=lb_int(f,idx,d.block)
        return None if l is None else b+l
    if d.op=='phi':
        vals=[delta(f,x,phi,depth+1,set(seen)) for x,_ in d.extra['incoming']]
        return None if any(x is None for x in vals) else min(vals)
    if d.op=='select':
        vals=[delta(f,x,phi,depth+1,set(seen)) for x in d.ops[1:]]
        return None if any(x is None for x in vals) else min(vals)
    return None


def check(rep, mod, floor):
    R = rep.rule('R-CURSOR-PROGRESS', 'portable match finders and hash primers: on every back edge of every loop that carries a byte cursor (a loop-header phi of type i8*), the cursor has advanced by a provable minimum of >= 1 byte '
                 '(sum of the lower bounds of the added indices: constants and values bounded below by dominating comparisons): the loops terminate and never step backwards', floor=floor, unit='back edges')
    for fn in FUNCS:
        f = mod.funcs.get(fn)
        if f is None:
            raise AnalysisBroken(fn + ' not found')
        loops = irrules.natural_loops(f)
        n = 0
        for h, L in sorted(loops.items()):
            for i in f.blocks[h].insns:
                if i.op != 'phi' or not (i.ty or '').endswith('i8*'):
                    continue
                for v, pb in i.extra['incoming']:
                    if pb not in L:
                        continue
                    if (fn, h) in NOT_DECIDED:
                        R.notes.append('%s %s: not decided - %s' % (fn, h, NOT_DECIDED[(fn, h)]))
                        continue
                    n += 1
                    R.instance()
                    d = delta(f, v, i.dst)
                    R.check(d is not None and d >= 1, mod.where(f, f.blocks[pb].insns[-1]), '%s: around the loop at %s (back edge from %s) the cursor %s advances by %s: it can stand still or move backwards, so the loop need not terminate' %
                            (fn, h, pb, i.dst, 'an amount with no provable lower bound' if d is None else 'at least %d' % d), key='R-CURSOR-PROGRESS|%s|%s|%s' % (fn, h, pb), sample='%s: +%s per iteration' % (fn, d) if d else None)
        if n == 0 and not any(k[0] == fn for k in NOT_DECIDED):
            raise AnalysisBroken('%s: no loop-carried byte cursor found' % fn)
