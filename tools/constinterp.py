"""CONSTINTERP: constant-propagation interpreter for the data-independent slice of an LLIR function.
Values are Python ints (known on every execution) or TOP (depends on input data).  Control flow is
followed concretely while branch conditions are known; at a branch on a TOP condition both arms are
interpreted up to the branch's immediate post-dominator and their environments joined (values that
differ become TOP).  This evaluates exactly what the compiler could fold: loop counters, schedules
of constants, table indices - never any input data.  An `observe` callback sees every instruction
with the current environment.  Fails closed (AnalysisBroken) on anything not modelled or when the
step budget is exhausted (e.g. a loop whose exit depends on data)."""
import re
from common import AnalysisBroken

TOP = 'TOP'
INT = re.compile(r'^-?\d+$')


def _w(ty):
    m = re.match(r'^i(\d+)$', ty or '')
    return int(m.group(1)) if m else 64


def _signed(x, w):
    x &= (1 << w) - 1
    return x - (1 << w) if x >> (w - 1) else x


class Interp:
    def __init__(self, mod, f, observe=None, budget=200000, params=None, load_hook=None, value_hook=None):
        self.mod, self.f, self.observe, self.budget = mod, f, observe, budget
        self.load_hook = load_hook        # load_hook(insn) -> int | None: value of a load that the caller fixes (an enumerated parameter field)
        self.value_hook = value_hook      # value_hook(insn) -> int | None: a partition value the caller enumerates exhaustively for this instruction
        self.pd = f.postdominators()
        self.steps = 0
        self.params = params or {}

    def val(self, v, env):
        if INT.match(v):
            return int(v)
        if v in ('true', 'false'):
            return int(v == 'true')
        if v in ('null', 'zeroinitializer'):
            return 0
        if v in env:
            return env[v]
        if v in self.params:
            return self.params[v]
        return TOP

    def ipdom(self, b):
        cands = self.pd.get(b, set()) - {b}
        best = None
        for c in cands:
            if c == '#exit':
                continue
            if all(o == c or o == '#exit' or o in self.pd.get(c, set()) for o in cands):
                best = c
        return best

    def run(self):
        env = {}
        self.region(None, self.f.order[0], None, env)
        return env

    def phivals(self, blk, prev, env):
        out = {}
        for i in self.f.blocks[blk].insns:
            if i.op != 'phi':
                break
            for v, pb in i.extra['incoming']:
                if pb == prev:
                    out[i.dst] = self.val(v, env)
                    break
            else:
                out[i.dst] = TOP
        return out

    def region(self, prev, blk, stop, env, entered=None):
        """interpret from blk (entered from prev) until `stop` (exclusive) or a return; env is updated in place.
        Returns the values of stop's phis as seen from the entering edge(s), or None after a return."""
        f = self.f
        while True:
            pv = entered if entered is not None else self.phivals(blk, prev, env)
            entered = None
            if blk == stop:
                return pv
            self.steps += 1
            if self.steps > self.budget:
                raise AnalysisBroken('%s: constant interpretation exceeded %d block visits (a loop exit depends on data?)' % (f.name, self.budget))
            env.update(pv)
            for i in f.blocks[blk].insns:
                if i.op == 'phi':
                    if self.observe:
                        self.observe(i, env, self)
                    continue
                if i.op == 'ret':
                    if self.observe:
                        self.observe(i, env, self)
                    return None
                if i.op == 'br':
                    if not i.extra.get('cond'):
                        prev, blk = blk, i.extra['targets'][0]
                        break
                    c = self.val(i.extra['cond'], env)
                    tt, tf = i.extra['targets']
                    if c != TOP:
                        prev, blk = blk, (tt if c else tf)
                        break
                    j = self.ipdom(blk)
                    if j is None:
                        raise AnalysisBroken('%s: data-dependent branch in %s without a join block' % (f.name, blk))
                    e1, e2 = dict(env), dict(env)
                    pv1 = self.region(blk, tt, j, e1)
                    pv2 = self.region(blk, tf, j, e2)
                    if pv1 is None and pv2 is None:
                        return None
                    if pv1 is None or pv2 is None:
                        # one arm returns (an early exit on a data-dependent test): execution continues with the other arm only
                        keep_e, keep_pv = (e2, pv2) if pv1 is None else (e1, pv1)
                        env.clear()
                        env.update(keep_e)
                        entered = keep_pv
                        prev, blk = None, j
                        break
                    env.clear()
                    for k in set(e1) | set(e2):
                        a, b_ = e1.get(k, TOP), e2.get(k, TOP)
                        env[k] = a if a == b_ else TOP
                    entered = {k: (pv1.get(k, TOP) if pv1.get(k, TOP) == pv2.get(k, TOP) else TOP) for k in set(pv1) | set(pv2)}
                    prev, blk = None, j
                    break
                if i.op == 'switch':
                    c = self.val(i.ops[0], env)
                    if c == TOP:
                        raise AnalysisBroken('%s: switch on data in %s not modelled' % (f.name, blk))
                    cases = {int(k): v for k, v in (i.extra['cases'].items() if isinstance(i.extra['cases'], dict) else i.extra['cases'])}
                    prev, blk = blk, cases.get(c, i.extra['default'])
                    break
                self.exec(i, env)
            else:
                raise AnalysisBroken('%s: block %s has no terminator' % (f.name, blk))

    def call_value(self, i, env, depth=[0]):
        """a call of a function defined in the module whose arguments are all integers known here: the callee is interpreted with them
        (no hooks: anything it loads is unknown) and the value it returns on every path is the result; anything else is unknown"""
        g = self.mod.funcs.get((i.callee or '').lstrip('@')) if getattr(i, 'callee', None) else None
        if g is None or not g.order or depth[0] >= 3 or not re.match(r'^i\d+$', i.ty or ''):
            return TOP
        args = getattr(i, 'args', None)
        if args is None or len(args) != len(g.params):
            return TOP
        params = {}
        for (ty, v), (pty, pname) in zip(args, g.params):
            x = self.val(v, env)
            if x == TOP or not re.match(r'^i\d+$', pty.split()[0]):
                return TOP
            params[pname] = x
        rets = []

        def obs(j, e, ip):
            if j.op == 'ret':
                rets.append(ip.val(j.ops[0], e) if j.ops else TOP)
        depth[0] += 1
        try:
            Interp(self.mod, g, obs, budget=20000, params=params).run()
        except AnalysisBroken:
            return TOP
        finally:
            depth[0] -= 1
        return rets[0] if rets and all(x == rets[0] for x in rets) else TOP

    def exec(self, i, env):
        if self.observe:
            self.observe(i, env, self)
        if not i.dst:
            return
        if self.value_hook is not None:
            v = self.value_hook(i)
            if v is not None:
                env[i.dst] = v
                return
        op = i.op
        w = _w(i.ty)
        M = (1 << w) - 1
        r = TOP
        if op in ('add', 'sub', 'mul', 'and', 'or', 'xor', 'shl', 'lshr', 'ashr', 'udiv', 'urem', 'sdiv', 'srem'):
            a, b = self.val(i.ops[0], env), self.val(i.ops[1], env)
            if a != TOP and b != TOP:
                a &= M
                b &= M
                if op == 'add':
                    r = a + b
                elif op == 'sub':
                    r = a - b
                elif op == 'mul':
                    r = a * b
                elif op == 'and':
                    r = a & b
                elif op == 'or':
                    r = a | b
                elif op == 'xor':
                    r = a ^ b
                elif op == 'shl':
                    r = a << b if b < w else TOP
                elif op == 'lshr':
                    r = a >> b if b < w else TOP
                elif op == 'ashr':
                    r = _signed(a, w) >> b if b < w else TOP
                elif op in ('udiv', 'urem') and b:
                    r = a // b if op == 'udiv' else a % b
                elif op in ('sdiv', 'srem') and b:
                    sa, sb = _signed(a, w), _signed(b, w)
                    q = abs(sa) // abs(sb) * (1 if (sa < 0) == (sb < 0) else -1)
                    r = q if op == 'sdiv' else sa - q * sb
                if r != TOP:
                    r = _signed(r & M, w)
            elif op in ('and', 'mul') and 0 in (a, b):
                r = 0
        elif op in ('zext', 'sext', 'trunc'):
            a = self.val(i.ops[0], env)
            if a != TOP:
                fw = _w(i.extra.get('fromty'))
                if op == 'zext':
                    r = a & ((1 << fw) - 1)
                elif op == 'sext':
                    r = _signed(a, fw)
                else:
                    r = _signed(a & M, w)
        elif op in ('bitcast', 'freeze'):
            r = self.val(i.ops[0], env)
        elif op == 'icmp':
            a, b = self.val(i.ops[0], env), self.val(i.ops[1], env)
            if a != TOP and b != TOP:
                w2 = _w(i.ty)
                ua, ub = a & ((1 << w2) - 1), b & ((1 << w2) - 1)
                sa, sb = _signed(a, w2), _signed(b, w2)
                r = int({'eq': ua == ub, 'ne': ua != ub, 'ugt': ua > ub, 'uge': ua >= ub, 'ult': ua < ub, 'ule': ua <= ub,
                         'sgt': sa > sb, 'sge': sa >= sb, 'slt': sa < sb, 'sle': sa <= sb}[i.extra['pred']])
        elif op == 'load':
            v = self.load_hook(i) if self.load_hook is not None else None
            if v is None and i.ops[0].startswith('@'):
                g = self.mod.globals.get(i.ops[0][1:], '')
                m = re.search(r'\bconstant i\d+ (-?\d+)', g)
                if m:
                    v = int(m.group(1))       # a read-only scalar global: its initialiser
            r = TOP if v is None else v
        elif op == 'call':
            r = self.call_value(i, env)
        elif op == 'select':
            c = self.val(i.ops[0], env)
            if c != TOP:
                r = self.val(i.ops[1] if c else i.ops[2], env)
            else:
                a, b = self.val(i.ops[1], env), self.val(i.ops[2], env)
                r = a if a == b else TOP
        env[i.dst] = r
