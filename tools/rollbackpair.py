"""R-ROLLBACK-PAIR: the portable block decoder gives up with ISAL_END_INPUT after restoring BOTH the input position (read_in, read_in_length, next_in, avail_in) and
the output position (next_out, avail_out, total_out) it had saved; the next call decodes the same symbol group again.  The two snapshots have to describe the same moment:
no update of an output field may lie between taking the input snapshot and taking the output snapshot (or output produced in between stays written and is produced
again), and no consumption of input between the output snapshot and the input snapshot.  Snapshots are found from the restores: a store to a state field of a value that
is a load of the same field (the saved copy, an SSA value after sroa)."""
import re
from common import AnalysisBroken
import irrules

IN_FIELDS = ['read_in', 'read_in_length', 'next_in', 'avail_in']
OUT_FIELDS = ['next_out', 'avail_out', 'total_out']


def check(rep, mod, offs, funcs=('decode_huffman_code_block_stateless_base',), floor=6):
    R = rep.rule('R-ROLLBACK-PAIR', 'in the portable block decoder, the saved copies of the input position and of the output position that the ISAL_END_INPUT exit restores are taken at the same moment: between the '
                 'snapshot loads of the input fields and those of the output fields (CFG reachability, the segment to the later snapshot not passing the earlier one again) there is no store to a field of the other '
                 'group and no call that receives the state', floor=floor, unit='(input snapshot, output snapshot) pairs')
    for fn in funcs:
        f = mod.funcs.get(fn)
        if f is None:
            raise AnalysisBroken('R-ROLLBACK-PAIR: %s not found' % fn)
        P = irrules.prov(mod, f)
        byoff = {offs[k]: k for k in IN_FIELDS + OUT_FIELDS}

        def field_of(ptr):
            at = P.atoms(ptr)
            if len(at) == 1:
                a = list(at)[0]
                if a[0] == 'param' and a[1] == 0 and a[2] in byoff:
                    return byoff[a[2]]
            return None
        snaps = {}
        for i in f.all_insns():
            if i.op != 'store':
                continue
            fld = field_of(i.ops[1])
            if fld is None:
                continue
            d = f.defs.get(irrules._strip(f, i.ops[0]))
            if d is not None and d.op == 'load' and field_of(d.ops[0]) == fld:
                snaps.setdefault(fld, set()).add(d)
        missing = [k for k in IN_FIELDS + OUT_FIELDS if k not in snaps]
        if missing:
            raise AnalysisBroken('R-ROLLBACK-PAIR: %s restores no saved copy of %s' % (fn, ', '.join(missing)))
        pos = {}
        for b in f.order:
            for n, i in enumerate(f.blocks[b].insns):
                pos[id(i)] = (b, n)
        succ = {b: list(f.blocks[b].insns[-1].extra.get('targets') or []) for b in f.order}

        def reach(src, avoid):
            seen, work = set(), list(succ.get(src, []))
            while work:
                x = work.pop()
                if x in seen or x == avoid:
                    continue
                seen.add(x)
                work += succ.get(x, [])
            return seen

        def mutations(group):
            out = []
            for i in f.all_insns():
                if i.op == 'store' and field_of(i.ops[1]) in group:
                    d = f.defs.get(irrules._strip(f, i.ops[0]))
                    if d is not None and d.op == 'load' and field_of(d.ops[0]) == field_of(i.ops[1]):
                        continue      # the restore itself
                    out.append(i)
                elif i.op == 'call' and any(any(a[0] == 'param' and a[1] == 0 for a in P.atoms(o)) for o in i.ops if o.startswith('%')):
                    out.append(i)
            return out

        def between(A, B_, M):
            """is M on a path from A to B that does not pass A again after M"""
            (ba, na), (bb, nb), (bm, nm) = pos[id(A)], pos[id(B_)], pos[id(M)]
            if ba == bb:
                if na < nb:
                    return bm == ba and na < nm < nb
                # B before A in the same block: any path A -> B leaves the block and comes back
                after = reach(ba, None)
                return (bm == ba and (nm > na or nm < nb)) or (bm in after and ba in reach(bm, None))
            from_a = reach(ba, None) | {ba}
            if bm == ba:
                if nm <= na:
                    return False
                return bb in reach(ba, ba) or bb in succ.get(ba, [])
            if bm == bb:
                return nm < nb and bm in from_a
            if bm not in from_a:
                return False
            return bb in reach(bm, ba)
        muts = {'in': mutations(IN_FIELDS), 'out': mutations(OUT_FIELDS)}
        for fi in IN_FIELDS:
            for fo in OUT_FIELDS:
                for Li in snaps[fi]:
                    for Lo in snaps[fo]:
                        R.instance()
                        bad = None
                        (bi, ni), (bo, no) = pos[id(Li)], pos[id(Lo)]
                        first_in = (bi == bo and ni < no) or (bi != bo and bo in reach(bi, None) and not (bi in reach(bo, bi)))
                        if bi == bo or first_in or True:
                            for M in muts['out']:
                                if between(Li, Lo, M) and not (bi == bo and ni > no):
                                    bad = ('output', M)
                                    break
                            if bad is None:
                                for M in muts['in']:
                                    if between(Lo, Li, M) and not (bi == bo and no > ni):
                                        bad = ('input', M)
                                        break
                        R.check(bad is None, mod.where(f, Lo), '%s: the saved %s (restored on ISAL_END_INPUT) is taken after %s has already been %s since the saved %s was taken (%s): the roll-back restores two different moments '
                                '- what happened in between is done twice' % (fn, fo, 'output' if bad and bad[0] == 'output' else 'input', 'produced' if bad and bad[0] == 'output' else 'consumed', fi,
                                                                               mod.where(f, bad[1]) if bad else ''), key='R-ROLLBACK-PAIR|%s|%s|%s' % (fn, fi, fo),
                                sample='%s: %s and %s saved at the same moment' % (fn, fi, fo) if (fi, fo) == ('next_in', 'next_out') else None)
