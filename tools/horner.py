"""HORNER: value numbering of the RAID kernels' vector arithmetic over the algebra { XOR, multiply-by-2 in GF(2^8)/0x11D }.

Every source-walking inner loop (a single basic block that fetches `array[tmp]` and branches back) is summarised by evaluating its
body once over symbolic head values; forms are XOR-sets of atoms, and the only non-linear idiom accepted is the reduction step
        2*f  =  (f + f bytewise)  XOR  (0x1d where the top bit of f is set)
in its SSE (pcmpgtb/pand), AVX (vpblendvb), AVX-512 (vpcmpb|vpmovb2m + vpblendmb / masked xor) spellings, with the 0x1d constant
read from the object's data or from the immediate that is broadcast.  The summary assigns each register a ROLE
        CUR(lane)   out = fresh load of the next source at `lane`
        PACC        out = head(self) ^ head(CUR)                 (xor of the sources before the current one)
        PINC        out = head(self) ^ load(next source, lane)    (xor including the newest fetch)
        QACC        out = 2 * (head(self) ^ head(CUR))            (Horner step)
and the straight-line code before and after the loop is evaluated the same way, so that every parity store (gen kernels) or every
tested value (check kernels) is shown to be   P: init ^ all sources of the lane,   Q: Horner sum ^ last source   at the SAME lane as
the loads it was computed from.  Which sources the loop visits is R-SRC-COVER's part; which bytes are stored is P-COVER's."""
import re
from asmdb import REG64, parse_mem, is_mem, VREG, KREG, is_cond_jump
from common import AnalysisBroken
import provenance

IMM = re.compile(r'^(0x[0-9a-f]+|-?\d+)$')
ZERO = ('x', frozenset())
TOP = None


def vreg(o):
    o = re.sub(r'\{[^}]*\}', '', o).strip()
    m = re.match(r'^[xyz]mm(\d+)$', o)
    if m:
        return 'v' + m.group(1)
    if re.match(r'^k[0-7]$', o):
        return o
    g = REG64.get(o)
    if g:
        return g[0]
    return None


def kmask(o):
    m = re.search(r'\{(k[1-7])\}', o)
    return m.group(1) if m else None


def X(*atoms):
    s = set()
    for a in atoms:
        s ^= {a}
    return ('x', frozenset(s))


def xor(a, b):
    if a is TOP or b is TOP:
        return TOP
    if a == ZERO:
        return b
    if b == ZERO:
        return a
    if a[0] == 'x' and b[0] == 'x':
        return ('x', a[1] ^ b[1])
    for p, q in ((a, b), (b, a)):
        if p[0] == 'dbl' and q[0] == 'pm' and p[1] == q[1]:
            return X(('m2', p[1]))
    return TOP


def orr(a, b):
    if a is TOP or b is TOP:
        return TOP
    sa = a[1] if a[0] == 'or' else (frozenset([a]) if a[0] == 'x' else None)
    sb = b[1] if b[0] == 'or' else (frozenset([b]) if b[0] == 'x' else None)
    if sa is None or sb is None:
        return TOP
    return ('or', sa | sb)


class Eval:
    """straight-line evaluation of a list of instructions over forms"""

    def __init__(self, u, f, acc_by_addr, env, cls_of):
        self.u, self.f, self.acc, self.st, self.cls_of = u, f, acc_by_addr, dict(env), cls_of
        self.stores = []     # (insn, class, lane, value)
        self.tests = []      # (insn, value, next cond jump mnemonic/target)
        self.gpr_written = set()
        self.width = {}
        self.loads = 0

    def get(self, o):
        if is_mem(o):
            return self.load(o)
        if IMM.match(o):
            return ('imm', int(o, 0))
        r = vreg(o)
        return self.st.get(r, TOP) if r else TOP

    def wcheck(self, o, v):
        """a general-purpose register must be consumed at the width it was produced with"""
        g = REG64.get(o)
        if g and v is not TOP and v[0] in ('x', 'or') and self.width.get(g[0]) != g[1]:
            return TOP
        return v

    def lane(self, o):
        m = parse_mem(o)
        if m is None or m['rip']:
            return None
        idx = REG64[m['index']][0] if m['index'] in REG64 else m['index']
        if idx in self.gpr_written:
            return ('moved', idx, m['disp'])
        return (idx, m['scale'] if idx else 1, m['disp'])

    def load(self, o, insn=None):
        insn = insn or self.cur
        m = parse_mem(o)
        if m and m['rip']:
            t = self.u.reloc_target(insn)
            if t is None:
                return TOP
            b = self.u.elf.sym_extent(t[1])[t[2]:]
            n = m['size'] or 16
            if len(b) >= n and len(set(b[:n])) == 1:
                return ('cbyte', b[0])
            return TOP
        a = self.acc.get(insn.addr)
        if a is None:
            return TOP
        c = self.cls_of(a)
        if c is None:
            return TOP
        self.loads += 1
        return X(('ld', c, self.lane(o)))

    def step(self, i):
        self.cur = i
        mn, ops = i.mn, i.ops
        if is_cond_jump(mn) or mn in ('jmp', 'ret', 'nop', 'endbr64', 'vzeroupper', 'prefetcht0', 'prefetchnta') or not ops:
            return
        if mn == 'cmp' and not (len(ops) == 2 and IMM.match(ops[1]) and int(ops[1], 0) == 0 and not is_mem(ops[0])):
            return
        st = self.st
        base = re.sub(r'^v', '', mn)
        dmem = is_mem(ops[0])
        d = None if dmem else vreg(ops[0])
        k = kmask(ops[0])
        three = len(ops) >= 3 and not IMM.match(ops[2])
        isv = (d or '').startswith(('v', 'k')) and d not in ('v',)
        # stores
        if dmem and mn.startswith(('mov', 'vmov')) and len(ops) == 2:
            a = self.acc.get(i.addr)
            c = self.cls_of(a) if a is not None else None
            self.stores.append((i, c, self.lane(ops[0]), self.wcheck(ops[1], self.get(ops[1]))))
            return
        if dmem:
            a = self.acc.get(i.addr)
            self.stores.append((i, self.cls_of(a) if a is not None else None, self.lane(ops[0]), TOP))
            return
        res = TOP
        if mn in ('test', 'ptest', 'vptest') or mn.startswith(('kortest', 'ktest')):
            v = self.get(ops[0]) if ops[0] == ops[1] else TOP
            self.tests.append((i, self.wcheck(ops[0], v)))
            return
        if mn == 'cmp' and len(ops) == 2 and IMM.match(ops[1]) and int(ops[1], 0) == 0 and not is_mem(ops[0]):
            self.tests.append((i, self.wcheck(ops[0], self.get(ops[0]))))
            return
        if mn.startswith(('mov', 'vmov', 'kmov', 'lddqu', 'vlddqu')) and len(ops) == 2 and not k:
            res = self.get(ops[1])
            if res is not TOP and res[0] == 'imm':
                res = ('imm', res[1])
        elif base in ('pxor', 'pxord', 'pxorq', 'xorps', 'xorpd', 'xor'):
            a_, b_ = (ops[1], ops[2]) if three else (ops[0], ops[1])
            if vreg(a_) and vreg(a_) == vreg(b_) and not k:
                res = ZERO
            else:
                va, vb = self.get(a_), self.get(b_)
                if k and not re.search(r'\{z\}', ops[0]):
                    # merge masking: k ? a^b : old dest
                    old, km = st.get(d, TOP), st.get(k, TOP)
                    if old is not TOP and km is not TOP and km[0] == 'ksgn' and old == va and old[0] == 'dbl' and old[1] == km[1] and vb is not TOP and vb == ('cbyte', 0x1d):
                        res = X(('m2', old[1]))
                elif not k:
                    res = xor(va, vb)
        elif base in ('pternlogq', 'pternlogd') and len(ops) == 4 and IMM.match(ops[3]) and int(ops[3], 0) == 0x96 and not k:
            res = xor(xor(self.get(ops[0]), self.get(ops[1])), self.get(ops[2]))
        elif base in ('por', 'pord', 'porq', 'orps', 'orpd', 'or') and not k:
            a_, b_ = (ops[1], ops[2]) if three else (ops[0], ops[1])
            res = orr(self.get(a_), self.get(b_))
        elif base == 'paddb' and not k:
            a_, b_ = (ops[1], ops[2]) if three else (ops[0], ops[1])
            va = self.get(a_)
            if vreg(a_) == vreg(b_) and va is not TOP and va[0] == 'x':
                res = ('dbl', va[1])
        elif base == 'pcmpgtb' and not k:
            a_, b_ = (ops[1], ops[2]) if three else (ops[0], ops[1])
            va, vb = self.get(a_), self.get(b_)
            if (d or '').startswith('k'):
                if va == ZERO and vb is not TOP and vb[0] == 'x':
                    res = ('ksgn', vb[1])
            elif va == ZERO and vb is not TOP and vb[0] == 'x':
                res = ('sgn', vb[1])      # 0 > f  <=>  top bit of f set
        elif base in ('pand', 'pandd', 'pandq', 'andps', 'andpd') and not k:
            a_, b_ = (ops[1], ops[2]) if three else (ops[0], ops[1])
            va, vb = self.get(a_), self.get(b_)
            for p, q in ((va, vb), (vb, va)):
                if p is not TOP and q is not TOP and p[0] == 'sgn' and q == ('cbyte', 0x1d):
                    res = ('pm', p[1])
        elif base == 'pblendvb':
            if len(ops) == 4:
                a_, b_, m_ = self.get(ops[1]), self.get(ops[2]), self.get(ops[3])
            else:       # SSE4.1: implicit xmm0
                a_, b_, m_ = self.get(ops[0]), self.get(ops[1]), st.get('v0', TOP)
            if a_ == ZERO and b_ == ('cbyte', 0x1d) and m_ is not TOP and m_[0] == 'x':
                res = ('pm', m_[1])
        elif base == 'pcmpb' and len(ops) == 4 and IMM.match(ops[3]) and not k:
            va, vb, p = self.get(ops[1]), self.get(ops[2]), int(ops[3], 0)
            if p == 1 and vb == ZERO and va is not TOP and va[0] == 'x':        # a < 0
                res = ('ksgn', va[1])
            elif p == 6 and va == ZERO and vb is not TOP and vb[0] == 'x':      # 0 > b
                res = ('ksgn', vb[1])
        elif base in ('pcmpltb', 'pcmpnleb') and len(ops) == 3 and not k:
            va, vb = self.get(ops[1]), self.get(ops[2])
            if base == 'pcmpltb' and vb == ZERO and va is not TOP and va[0] == 'x':
                res = ('ksgn', va[1])
            elif base == 'pcmpnleb' and va == ZERO and vb is not TOP and vb[0] == 'x':
                res = ('ksgn', vb[1])
        elif base == 'pmovb2m':
            va = self.get(ops[1])
            if va is not TOP and va[0] == 'x':
                res = ('ksgn', va[1])
        elif base == 'pblendmb' and k:
            va, vb, km = self.get(ops[1]), self.get(ops[2]), st.get(k, TOP)
            if va == ZERO and vb == ('cbyte', 0x1d) and km is not TOP and km[0] == 'ksgn':
                res = ('pm', km[1])
        elif base == 'pbroadcastb' and not k:
            va = self.get(ops[1])
            if va is not TOP and va[0] == 'imm':
                res = ('cbyte', va[1] & 0xff)
            elif va is not TOP and va[0] == 'cbyte':
                res = va
        elif base in ('inserti128', 'insertf128', 'inserti64x4', 'perm2i128', 'perm2f128', 'broadcasti128', 'broadcastf128', 'broadcasti64x4', 'broadcasti32x4', 'broadcasti64x2'):
            vals = [self.get(o) for o in ops[1:] if not IMM.match(o)]
            if vals and all(v is not TOP and v[0] == 'cbyte' and v == vals[0] for v in vals):
                res = vals[0]
        if d is None:
            return
        if not d.startswith(('v', 'k')) or d in ('v',):
            # general-purpose destination: only immediates and 8/64-bit xor accumulations are values
            self.gpr_written.add(d)
            w = REG64[re.sub(r'\{[^}]*\}', '', ops[0]).strip()][1]
            if mn in ('xor', 'or') and res is not TOP and res[0] in ('x', 'or') and self.width.get(d) != w and res != ZERO:
                res = TOP
            if mn in ('mov', 'xor', 'or') and res is not TOP and res[0] in ('imm', 'x', 'or'):
                st[d] = res
                self.width[d] = w
            else:
                st.pop(d, None)
                self.width.pop(d, None)
            return
        if res is TOP:
            st.pop(d, None)
        else:
            st[d] = res


def global_consts(u, f):
    """forward may-dataflow of the loop-invariant vector constants (zero, replicated byte) and GPR immediates over the whole function"""
    IN = {f.entry: {}}
    work = [f.entry]
    dummy_acc = {}
    while work:
        a = work.pop()
        ev = Eval(u, f, dummy_acc, IN[a], lambda a_: None)
        ev.step(u.insns[a])
        out = {r: v for r, v in ev.st.items() if v == ZERO or v[0] in ('cbyte', 'imm')}
        i = u.insns[a]
        if i.mn == 'call':
            out = {}
        for n in u.succ(f, a):
            if n not in IN:
                IN[n] = out
                work.append(n)
            else:
                new = {r: v for r, v in IN[n].items() if out.get(r) == v}
                if new != IN[n]:
                    IN[n] = new
                    work.append(n)
    return IN


def inner_loops(u, f, acc):
    """[(head, back-jump address)] of single-block loops that fetch a pointer from a varying element of the array"""
    targets = {}
    for a in f.addrs:
        i = u.insns[a]
        if (is_cond_jump(i.mn) or i.mn == 'jmp') and i.target is not None:
            targets.setdefault(i.target, []).append(a)
    out = []
    for a in f.addrs:
        i = u.insns[a]
        if not is_cond_jump(i.mn) or i.target is None or i.target > a:
            continue
        h = i.target
        body = [x for x in f.addrs if h <= x <= a]
        if any((is_cond_jump(u.insns[x].mn) or u.insns[x].mn in ('jmp', 'ret', 'call')) for x in body[:-1]):
            continue
        if any(x in targets for x in body[1:]):
            continue
        varying = [x for x in body if x in acc and acc[x].kind == 'load' and acc[x].addr[0] == 'P' and acc[x].addr[1] == 'ARRAY' and acc[x].addr[2] is None]
        if varying:
            out.append((h, a))
    return out


def straight_back(u, f, h, preds, stop):
    """the unique straight-line chain of instructions that ends just before h, going back until a join point / branch"""
    chain = []
    a = h
    while True:
        ps = [p for p in preds.get(a, []) if not (p >= a and a == h)]
        ps = [p for p in ps if p < a or a != h]
        if a == h:
            ps = [p for p in preds.get(a, []) if p < h or p > stop]
            ps = [p for p in ps if p != stop]
        if len(ps) != 1:
            break
        p = ps[0]
        i = u.insns[p]
        if is_cond_jump(i.mn) or i.mn in ('jmp', 'ret', 'call') or i.end != a:
            break
        chain.append(p)
        a = p
        if len(chain) > 200:
            break
    chain.reverse()
    return chain


def straight_fwd(u, f, a, limit=200):
    out = []
    while a in f.aset and len(out) < limit:
        i = u.insns[a]
        out.append(a)
        if is_cond_jump(i.mn) or i.mn in ('jmp', 'ret', 'call'):
            break
        a = i.end
    return out


def analyse(sym, info, pidx, qidx):
    """-> list of loop records: dict(head, where, lanes=[dict(lane, kind, problems)], notes)"""
    u, f = info['unit'], info['func']
    acc = {}
    for a in info['accesses']:
        acc.setdefault(a.insn.addr, a)

    def cls_of(a):
        if a.addr[0] != 'P':
            return None
        t = a.addr[1]
        if isinstance(t, tuple) and t[1] == 'ARRAY':
            idx = t[2]
            if idx is None:
                return 'SRCV'
            if idx == pidx:
                return 'P'
            if qidx is not None and idx == qidx:
                return 'Q'
            return 'SRC%+d%+dn' % idx
        return None
    consts = global_consts(u, f)
    preds = {}
    for a in f.addrs:
        for n in u.succ(f, a):
            preds.setdefault(n, []).append(a)
    recs = []
    for h, back in inner_loops(u, f, acc):
        body = [x for x in f.addrs if h <= x <= back]
        regs = set()
        for x in body:
            for o in u.insns[x].ops:
                for m in re.finditer(r'\b[xyz]mm\d+\b', o):
                    regs.add(vreg(m.group(0)))
            i = u.insns[x]
            if i.mn in ('xor', 'or') and i.ops and not is_mem(i.ops[0]) and vreg(i.ops[0]):
                regs.add(vreg(i.ops[0]))
        inv = consts.get(h, {})
        # pre path
        chain = straight_back(u, f, h, preds, back)
        start = chain[0] if chain else h
        penv = {r: X(('u', r)) for r in regs}
        penv.update(consts.get(start, {}))
        pv = Eval(u, f, acc, penv, cls_of)
        for x in chain:
            pv.step(u.insns[x])
        pre = pv.st
        # loop body over symbolic head values
        env = {r: X(('h', r)) for r in regs}
        env.update(inv)
        ev = Eval(u, f, acc, env, cls_of)
        ev.width = dict(pv.width)
        for x in body:
            ev.step(u.insns[x])
        out = ev.st
        # post path
        post = straight_fwd(u, f, u.insns[back].end)
        qenv = {r: X(('e', r)) for r in regs}
        qenv.update(inv)
        qv = Eval(u, f, acc, qenv, cls_of)
        qv.width = dict(ev.width)
        for x in post:
            qv.step(u.insns[x])
        # roles
        cur = {}      # reg -> lane
        for r in regs:
            o = out.get(r, TOP)
            if o is not TOP and o[0] == 'x' and len(o[1]) == 1:
                (at,) = o[1]
                if at[0] == 'ld' and at[1] == 'SRCV':
                    cur[r] = at[2]
        roles = {}
        for r in regs:
            o = out.get(r, TOP)
            if r in cur or o is TOP or o[0] != 'x':
                continue
            if o == X(('h', r)):
                continue
            for s, ln in cur.items():
                if o == X(('h', r), ('h', s)):
                    roles[r] = ('PACC', s, ln)
                elif o == X(('m2', X(('h', r), ('h', s))[1])):
                    roles[r] = ('QACC', s, ln)
            if r not in roles and len(o[1]) == 2 and ('h', r) in o[1]:
                (other,) = o[1] - {('h', r)}
                if other[0] == 'ld' and other[1] == 'SRCV':
                    roles[r] = ('PINC', None, other[2])
        recs.append(dict(head=h, back=back, where=u.where(u.insns[h], f), out=out, pre=pre, cur=cur, roles=roles, stores=qv.stores, tests=qv.tests,
                         post=post, regs=regs, body_moved=bool(ev.gpr_written & {l[0] for l in cur.values() if l}), post_eval=qv,
                         body_stores=ev.stores))
    return recs


IDX = {'raid_pq_gen': ((-16, 8), (-8, 8)), 'raid_pq_check': ((-16, 8), (-8, 8)), 'raid_xor_gen': ((-8, 8), None), 'raid_xor_check': (None, None)}


def fmt(v):
    if v is TOP:
        return 'an unrecognised value'
    if v[0] == 'x':
        if not v[1]:
            return '0'
        return ' ^ '.join(sorted(fmt_atom(a) for a in v[1]))
    if v[0] == 'or':
        return ' | '.join(sorted('(' + fmt(x) + ')' for x in v[1]))
    return '%s(%s)' % (v[0], fmt(('x', v[1])) if isinstance(v[1], frozenset) else v[1])


def fmt_atom(a):
    if a[0] in ('h', 'e', 'u'):
        return {'h': 'head', 'e': 'exit', 'u': 'unknown'}[a[0]] + '.' + a[1]
    if a[0] == 'ld':
        l = a[2]
        return '%s[%s%+d]' % (a[1], l[0] if l else '?', l[-1] if l else 0)
    if a[0] == 'm2':
        return '2*(' + fmt(('x', a[1])) + ')'
    return str(a)


def nonzero_return(u, f, target):
    """the straight-line code at `target` sets the return register to a non-zero constant before ret"""
    val = None
    for a in straight_fwd(u, f, target, 60):
        i = u.insns[a]
        if i.mn == 'mov' and i.ops and REG64.get(i.ops[0], ('', 0))[0] == 'rax' and IMM.match(i.ops[1]):
            val = int(i.ops[1], 0)
        elif i.ops and not is_mem(i.ops[0]) and REG64.get(i.ops[0], ('', 0))[0] == 'rax' and i.mn not in ('cmp', 'test', 'push'):
            val = None
        if i.mn == 'ret':
            return bool(val)
    return False


def check(rep, floor):
    R = rep.rule('V-HORNER', 'RAID asm kernels, by value numbering over {xor, 2* in GF(2^8)/0x11D}: in every source-walking loop the P accumulator of a lane is updated as P ^= source and the Q accumulator '
                 'as Q = 2*(Q ^ source) (reduction constant 0x1d, mask taken from the SAME value that is doubled), both start from zero (P of a check kernel: from the stored parity), '
                 'and each parity store (gen) / each value tested for zero before the mismatch branch (check) is accumulator ^ last source [^ stored parity] of the SAME lane it was loaded from',
                 floor=floor, unit='lane obligations')
    res, _ = provenance.analyse('default')
    nloops = 0
    for sym, info in sorted(res.items()):
        fam = info['fam']['family']
        if fam not in IDX:
            continue
        u, f = info['unit'], info['func']
        pidx, qidx = IDX[fam]
        recs = analyse(sym, info, pidx, qidx)
        if not recs:
            raise AnalysisBroken('V-HORNER: no source-walking loop found in %s' % sym)
        is_check = fam.endswith('_check')
        is_pq = '_pq_' in fam
        for r in recs:
            nloops += 1
            where = '%s: %s' % (u.name, r['where'])
            key0 = 'V-HORNER|%s|%#x' % (sym, r['head'] - f.entry)
            pre, roles, cur = r['pre'], r['roles'], r['cur']
            if r['body_stores']:
                R.instance()
                R.fail(where, 'the source-walking loop stores to memory', key=key0 + '|bodystore')
            lanes = {}
            for reg, (kind, s, ln) in roles.items():
                lanes.setdefault(ln, {})[kind] = (reg, s)
            for s, ln in cur.items():
                lanes.setdefault(ln, {})
            if not lanes:
                R.instance()
                R.fail(where, 'no accumulator of the form P ^= source / Q = 2*(Q ^ source) recognised in this loop', key=key0 + '|noroles')
                continue

            def src_ok(v, ln):
                return v is not TOP and v[0] == 'x' and len(v[1]) == 1 and next(iter(v[1]))[0] == 'ld' and next(iter(v[1]))[1].startswith('SRC') and next(iter(v[1]))[1] != 'SRCV' and next(iter(v[1]))[2] == ln
            tested = set()
            test_ok = False
            if is_check:
                last = u.insns[r['post'][-1]] if r['post'] else None
                tests = r['tests']
                if tests and last is not None and last.mn in ('jne', 'jnz') and last.target is not None:
                    ti, tv = tests[-1]
                    between = [u.insns[a] for a in r['post'] if ti.addr < a < last.addr]
                    if not any(provenance.writes_flags(x) for x in between) and nonzero_return(u, f, last.target):
                        test_ok = True
                        if tv is not TOP:
                            tested = set(tv[1]) if tv[0] == 'or' else {tv}
            for ln, d in sorted(lanes.items(), key=lambda kv: str(kv[0])):
                want = ['P'] + (['Q'] if is_pq else [])
                for which in want:
                    R.instance()
                    key = key0 + '|%s|%s' % (ln[-1] if ln else '?', which)
                    lane_s = 'lane %s%+d' % (ln[0], ln[-1]) if ln and ln[0] != 'moved' else 'a lane whose index register is modified inside the computation'
                    if ln is None or ln[0] == 'moved' or r['body_moved']:
                        R.fail(where, '%s: the position register changes between the loads and the store of this lane' % sym, key=key)
                        continue
                    # expected exit form and initial values
                    if which == 'P':
                        if 'PACC' in d:
                            reg, s = d['PACC']
                            form = X(('e', reg), ('e', s))
                            init_ok = src_ok(pre.get(s, TOP), ln)
                            p0 = pre.get(reg, TOP)
                        elif 'PINC' in d:
                            reg, s = d['PINC']
                            form = X(('e', reg))
                            init_ok = True
                            p0 = pre.get(reg, TOP)
                            # inclusive accumulator starts as the first source itself
                            if src_ok(p0, ln):
                                p0 = ZERO
                            elif not is_check:
                                p0 = TOP
                        else:
                            R.fail(where, '%s %s: no register is updated as P ^= source for this lane (loop-carried values: %s)' % (sym, lane_s, {k: fmt(v) for k, v in sorted(r['out'].items()) if k in r['regs'] and v != X(('h', k))}), key=key)
                            continue
                        if is_check and fam == 'raid_pq_check':
                            par = X(('ld', 'P', ln))
                            if p0 == par:
                                pass
                            elif p0 == ZERO:
                                form = xor(form, par)
                            else:
                                init_ok = False
                        elif p0 != ZERO:
                            init_ok = False
                        if not init_ok:
                            R.fail(where, '%s %s: the P accumulator %s does not start from zero / the last source of the same lane (it starts as %s, current-source register as %s)'
                                   % (sym, lane_s, reg, fmt(pre.get(reg, TOP)), fmt(pre.get(s, TOP)) if s else '-'), key=key)
                            continue
                    else:
                        if 'QACC' not in d:
                            R.fail(where, '%s %s: no register is updated as Q = 2*(Q ^ source) for this lane; loop-carried values: %s' %
                                   (sym, lane_s, {k: fmt(v) for k, v in sorted(r['out'].items()) if k in r['regs'] and v != X(('h', k))}), key=key)
                            continue
                        reg, s = d['QACC']
                        form = X(('e', reg), ('e', s))
                        if pre.get(reg, TOP) != ZERO or not src_ok(pre.get(s, TOP), ln):
                            R.fail(where, '%s %s: the Q accumulator %s must start from zero and the current-source register from the last source (they start as %s and %s)'
                                   % (sym, lane_s, reg, fmt(pre.get(reg, TOP)), fmt(pre.get(s, TOP))), key=key)
                            continue
                        if is_check:
                            form = xor(form, X(('ld', 'Q', ln)))
                    if is_check:
                        if not test_ok:
                            R.fail(where, '%s: the code after the loop does not end in a zero test whose non-zero outcome branches to a return of a non-zero constant' % sym, key=key)
                        else:
                            R.check(form in tested, where, '%s %s: the value tested for zero does not include %s (%s mismatch of this lane would go unnoticed); tested: %s'
                                    % (sym, lane_s, fmt(form), which, ' | '.join(sorted(fmt(x) for x in tested)) or 'an unrecognised value'), key=key,
                                    sample='%s %s: %s tested' % (sym, lane_s, fmt(form)) if sym == 'pq_check_sse' and ln[-1] == 0 else None)
                    else:
                        st = [(i, c, l, v) for i, c, l, v in r['stores'] if c == which and l == ln]
                        if len(st) != 1:
                            R.fail(where, '%s %s: expected exactly one store of the %s parity for this lane after the loop, found %d' % (sym, lane_s, which, len(st)), key=key)
                            continue
                        i, c, l, v = st[0]
                        R.check(v == form, '%s: %s' % (u.name, u.where(i, f)), '%s %s: the %s parity stored is %s, expected %s' % (sym, lane_s, which, fmt(v), fmt(form)), key=key,
                                sample='%s %s: %s = %s' % (sym, lane_s, which, fmt(form)) if sym == 'pq_gen_avx512' and ln[-1] == 0 else None)
            if not is_check:
                # no parity store outside the recognised lanes
                for i, c, l, v in r['stores']:
                    if c in ('P', 'Q') and l not in lanes:
                        R.instance()
                        R.fail('%s: %s' % (u.name, u.where(i, f)), '%s: parity store at a lane (%s) for which the loop fetched no source' % (sym, l), key=key0 + '|extra|%s' % (l,))
    R.notes.append('%d source-walking loops in 9 kernels' % nloops)
