#!/usr/bin/env python3
"""seed_matrix.py [seed ids...] : apply every stored seeded change (seeded/<id>/patch.diff) to a scratch worktree of /repo,
run every claimed check against it (VERIF_REPO), and record in seeded/<id>/meta.json which checks and rules report it.
/repo is never touched; the scratch worktree lives outside /repo and /verif and is removed at the end."""
import json, os, re, subprocess, sys, tempfile, shutil
V = '/verif'
VRUN = os.environ.get('SEED_VERIF', V)     # a frozen snapshot of /verif to run the checks from while /verif itself is being edited
ids = sys.argv[1:] or sorted(d for d in os.listdir(V + '/seeded') if os.path.isfile(V + '/seeded/%s/patch.diff' % d))
checks = [c['property_id'] for c in json.load(open(V + '/MANIFEST.json'))['checks']]
wt = tempfile.mkdtemp(prefix='seedmx-')
os.rmdir(wt)
subprocess.check_call(['git', '-C', '/repo', 'worktree', 'add', '-q', '--detach', wt, 'HEAD'])
summary = {}
try:
    for sid in ids:
        subprocess.check_call(['git', '-C', wt, 'checkout', '-q', '--', '.'])
        r = subprocess.run(['git', '-C', wt, 'apply', V + '/seeded/%s/patch.diff' % sid])
        if r.returncode:
            summary[sid] = 'PATCH DOES NOT APPLY'
            continue
        meta = json.load(open(V + '/seeded/%s/meta.json' % sid))
        only = os.environ.get('SEED_CHECKS')
        det = []
        for c in (only.split(',') if only else checks):
            p = subprocess.run([VRUN + '/check', c], env=dict(os.environ, VERIF_REPO=wt), stdout=subprocess.PIPE, stderr=subprocess.STDOUT, text=True)
            if p.returncode == 1:
                rules = sorted(set(re.findall(r'violation \[([^\]]+)\]', p.stdout)))
                det.append(dict(check=c, rules=rules))
            elif p.returncode != 0:
                det.append(dict(check=c, rules=['ANALYSIS-BROKEN (exit %d): %s' % (p.returncode, (re.findall(r'ANALYSIS-BROKEN[^\n]*', p.stdout) or [''])[0][:200])]))
        meta['detected_by'] = det
        meta['detected'] = any(d for d in det if not d['rules'][0].startswith('ANALYSIS-BROKEN'))
        json.dump(meta, open(V + '/seeded/%s/meta.json' % sid, 'w'), indent=1)
        summary[sid] = ', '.join('%s[%s]' % (d['check'], ' '.join(d['rules'])[:80]) for d in det) or 'MISSED'
        print(sid, '->', summary[sid], flush=True)
finally:
    subprocess.call(['git', '-C', '/repo', 'worktree', 'remove', '--force', wt])
    shutil.rmtree(wt, ignore_errors=True)
    subprocess.call(['git', '-C', '/repo', 'worktree', 'prune'])
