"""T-TAIL-BYTES: the crc32-instruction kernels (crc32_iscsi_00 / _01) finish with a dispatch on the number of bytes left: >= 24 goes back to the block code, 16..23 and 8..15 take
one or two 8-byte steps, and the low three bits are then shifted out one by one into 4-, 2- and 1-byte CRC32 instructions.  Decided by partitioned constant propagation: for
every count v that the guard in front of the tail lets through (0 .. C-1 for "cmp count, C; jae", 0 .. C for "ja"), the tail is followed with the count register concrete
(compares, shifts and the flags they set are evaluated; data registers and memory stay unknown) and the operand widths of the CRC32 instructions executed are added up:
the sum has to be v - every remaining byte enters the CRC exactly once."""
import re
from asmdb import is_cond_jump, REG64, is_mem, parse_mem
from common import AnalysisBroken
import asmdb
from provenance import writes_flags

IMM = re.compile(r'^(0x[0-9a-f]+|\d+)$')


class Unmodelled(Exception):
    pass


def width(op):
    if is_mem(op):
        m = parse_mem(op)
        return m['size'] if m and m['size'] else None
    return REG64[op][1] // 8 if op in REG64 else None


def follow(u, f, start, creg, v, limit=400):
    g = {creg: v}
    CF = ZF = None
    a, n, total = start, 0, 0
    while True:
        n += 1
        if n > limit or a not in f.aset:
            raise Unmodelled('no return reached')
        i = u.insns[a]
        mn, ops = i.mn, i.ops
        nxt = i.end
        if mn == 'ret':
            return total
        if mn == 'jmp':
            if i.target is None:
                raise Unmodelled('indirect jump')
            nxt = i.target
        elif is_cond_jump(mn):
            if CF is None and ZF is None:
                raise Unmodelled('branch on flags that do not come from the count: ' + i.text)
            c = {'jae': CF == 0, 'jnb': CF == 0, 'jnc': CF == 0, 'jb': CF == 1, 'jc': CF == 1, 'je': ZF == 1, 'jz': ZF == 1, 'jne': ZF == 0, 'jnz': ZF == 0,
                 'ja': CF == 0 and ZF == 0, 'jbe': CF == 1 or ZF == 1}.get(mn)
            if c is None:
                raise Unmodelled(i.text)
            if c:
                nxt = i.target
        elif mn == 'crc32':
            w = width(ops[1])
            if w is None:
                raise Unmodelled(i.text)
            total += w
        elif mn == 'cmp' and ops[0] in REG64 and IMM.match(ops[1]):
            x = g.get(REG64[ops[0]][0])
            if x is None:
                CF = ZF = None
            else:
                wbits = REG64[ops[0]][1]
                x &= (1 << wbits) - 1
                k = int(ops[1], 0)
                CF, ZF = int(x < k), int(x == k)
        elif mn in ('test', 'or') and len(ops) == 2 and ops[0] == ops[1] and ops[0] in REG64:
            x = g.get(REG64[ops[0]][0])
            if x is None:
                CF = ZF = None
            else:
                CF, ZF = 0, int(x & ((1 << REG64[ops[0]][1]) - 1) == 0)
        elif mn in ('test', 'and') and ops[0] in REG64 and IMM.match(ops[1]):
            x = g.get(REG64[ops[0]][0])
            if x is None:
                CF = ZF = None
            else:
                y = x & int(ops[1], 0) & ((1 << REG64[ops[0]][1]) - 1)
                CF, ZF = 0, int(y == 0)
                if mn == 'and':
                    g[REG64[ops[0]][0]] = y
        elif mn in ('shl', 'sal') and ops[0] in REG64 and IMM.match(ops[1]):
            r, wbits = REG64[ops[0]]
            x = g.get(r)
            if x is None:
                CF = ZF = None
            else:
                k = int(ops[1], 0)
                x &= (1 << wbits) - 1
                CF = (x >> (wbits - k)) & 1 if 0 < k <= wbits else 0
                x = (x << k) & ((1 << wbits) - 1)
                ZF = int(x == 0)
                g[r] = x
        elif mn == 'mov' and ops[0] in REG64 and ops[1] in REG64 and REG64[ops[0]][1] == 64:
            if REG64[ops[1]][0] in g:
                g[ops[0]] = g[REG64[ops[1]][0]]
            else:
                g.pop(ops[0], None)
        elif mn in ('sub', 'add') and ops[0] in REG64 and IMM.match(ops[1]) and REG64[ops[0]][0] in g:
            r, wbits = REG64[ops[0]]
            k = int(ops[1], 0)
            x = g[r]
            y = (x - k) if mn == 'sub' else (x + k)
            CF = int(x < k) if mn == 'sub' else int(y >> wbits)
            y &= (1 << 64) - 1
            ZF = int(y & ((1 << wbits) - 1) == 0)
            g[r] = y
        else:
            if ops and ops[0] in REG64 and REG64[ops[0]][0] in g and mn not in ('test', 'push'):
                if mn == 'pop':
                    g.pop(REG64[ops[0]][0], None)
                else:
                    raise Unmodelled('the count register is changed by an instruction that is not modelled: ' + i.text)
            if writes_flags(i):
                CF = ZF = None
        a = nxt


def check(rep, floor=2):
    R = rep.rule('T-TAIL-BYTES', 'crc32_iscsi_00 / crc32_iscsi_01: for every byte count the guard in front of the final dispatch lets through (read off its compare and condition), following the dispatch with the count '
                 'register concrete - compares and shifts of the count decide the branches; data stay unknown - executes CRC32 instructions whose operand widths add up to exactly that count: every remaining byte '
                 'is folded in once', floor=floor * 200, unit='(kernel, count) tails')
    units = asmdb.units('default')
    nk = 0
    for un, u in sorted(units.items()):
        for fn, f in sorted(u.funcs.items()):
            if not re.match(r'^crc32_iscsi_0[01]$', fn):
                continue
            order = {a: n for n, a in enumerate(f.addrs)}
            guards = []
            for a in f.addrs:
                i = u.insns[a]
                if i.target is None or order[a] == 0:
                    continue
                p = u.insns[f.addrs[order[a] - 1]]
                if not (p.mn == 'cmp' and p.ops[0] in REG64 and REG64[p.ops[0]][1] == 64 and IMM.match(p.ops[1]) and 0 < int(p.ops[1], 0) <= 256):
                    continue
                C = int(p.ops[1], 0)
                if i.mn in ('jae', 'jnb', 'ja') and i.target < a:
                    guards.append((i, p, i.end, C - 1 if i.mn != 'ja' else C))          # small counts fall through into the tail
                elif i.mn in ('jb', 'jc', 'jbe') and i.target > a:
                    guards.append((i, p, i.target, C - 1 if i.mn != 'jbe' else C))     # small counts branch to the tail
            if not guards:
                raise AnalysisBroken('T-TAIL-BYTES: %s: no guard "cmp count, C; jae block / jb tail" found' % fn)
            nk += 1
            ndec = 0
            for j, p, start, top in guards:
                creg = REG64[p.ops[0]][0]
                res = {}
                for v in range(0, top + 1):
                    try:
                        res[v] = follow(u, f, start, creg, v)
                    except Unmodelled as e:
                        res[v] = e
                if all(isinstance(x, Unmodelled) for x in res.values()):
                    continue          # this compare does not lead straight into a final dispatch (it sits between two block sizes)
                ndec += 1
                for v in range(0, top + 1):
                    R.instance()
                    got = res[v]
                    if isinstance(got, Unmodelled):
                        raise AnalysisBroken('T-TAIL-BYTES: %s: %d bytes left: %s' % (fn, v, got))
                    R.check(got == v, '%s: %s' % (un, u.where(j, f)), '%s: with %d bytes left the final dispatch folds %d bytes into the CRC (the guard "%s; %s" lets counts up to %d into it)' %
                            (fn, v, got, p.text, j.mn, top), key='T-TAIL-BYTES|%s|%#x|%d' % (fn, j.addr - f.entry, v), sample='%s: %d bytes left -> %d folded' % (fn, v, got) if v in (0, top) else None)
            if ndec == 0:
                raise AnalysisBroken('T-TAIL-BYTES: %s: no final dispatch could be followed' % fn)
    if nk < 2:
        raise AnalysisBroken('T-TAIL-BYTES: %d kernels found' % nk)
