"""GF2LIN: abstract interpretation of a loop-free LLVM IR function in the domain of
GF(2)-affine forms.  An abstract value of an iN SSA name is a list of N forms; a form is
an int bitmask over the input bits (bit k = input bit k, bit NIN = the constant 1) or
None (= unknown, TOP).  Every transfer function is exact on the forms it returns; where
exactness cannot be shown it returns TOP, never a guess."""
import re
from common import AnalysisBroken


def extract_function(ll_text, name):
    m = re.search(r'^define [^\n]*@%s\(([^\n]*)\)[^\n]*\{\n(.*?)^\}' % re.escape(name), ll_text, re.M | re.S)
    if not m:
        return None
    return m.group(1), m.group(2)


class Lin:
    def __init__(self, nin):
        self.nin = nin
        self.ONE = 1 << nin

    def const(self, v, w):
        return [self.ONE if (v >> i) & 1 else 0 for i in range(w)]

    def is_const(self, x):
        return all(f is not None and f in (0, self.ONE) for f in x)

    def const_val(self, x):
        return sum(1 << i for i, f in enumerate(x) if f == self.ONE)

    def xor(self, a, b):
        return [None if (p is None or q is None) else p ^ q for p, q in zip(a, b)]

    def shl(self, a, n):
        w = len(a)
        return ([0] * n + a)[:w]

    def lshr(self, a, n):
        w = len(a)
        return (a[n:] + [0] * n)[:w]

    def and_const(self, a, k):
        return [f if (k >> i) & 1 else 0 for i, f in enumerate(a)]

    def or_(self, a, b):
        out = []
        for p, q in zip(a, b):
            if p == 0:
                out.append(q)
            elif q == 0:
                out.append(p)
            elif p == self.ONE or q == self.ONE:
                out.append(self.ONE if (p is not None and q is not None) or p == self.ONE or q == self.ONE else None)
            else:
                out.append(None)  # or of two non-trivial forms is not linear
        return out

    def and_(self, a, b):
        if self.is_const(b):
            return self.and_const(a, self.const_val(b))
        if self.is_const(a):
            return self.and_const(b, self.const_val(a))
        out = []
        for p, q in zip(a, b):
            if p == 0 or q == 0:
                out.append(0)
            elif p is not None and p == q:
                out.append(p)
            else:
                out.append(None)
        return out

    def add(self, a, b):
        """a + b is xor when no bit position can carry (one side is the zero form)"""
        out = []
        for p, q in zip(a, b):
            if p == 0:
                out.append(q)
            elif q == 0:
                out.append(p)
            else:
                return [None] * len(a)
        return out

    def mul_const(self, a, k):
        w = len(a)
        acc = [0] * w
        for s in range(w):
            if (k >> s) & 1:
                acc = self.add(acc, self.shl(a, s))
        return acc


def interpret(params, body, nin_map):
    """params: parameter text; body: IR text of a single-basic-block function.
    nin_map: {param index: number of input bits} for scalar inputs; pointer params are
    symbolic bases.  Returns {(ptr_param_index, byte_offset): form} for every stored byte,
    plus the Lin instance."""
    plist = [p.strip() for p in re.split(r',\s*(?![^<]*>)', params) if p.strip()]
    nin = sum(nin_map.values())
    L = Lin(nin)
    env = {}
    ptr = {}
    bitpos = 0
    for idx, p in enumerate(plist):
        nm = p.split()[-1]
        ty = p.split()[0]
        if idx in nin_map:
            w = int(ty[1:])
            env[nm] = [(1 << (bitpos + i)) if i < nin_map[idx] else 0 for i in range(w)]
            bitpos += nin_map[idx]
        elif ty.endswith('*') or ty == 'ptr':
            ptr[nm] = (idx, 0)
    mem = {}
    blocks = re.findall(r'^\S+:\s', body, re.M)
    if blocks:
        raise AnalysisBroken('GF2LIN: function is not a single basic block (labels %s)' % blocks[:3])

    def val(tok, w):
        tok = tok.strip()
        if tok in env:
            return env[tok]
        if re.match(r'^-?\d+$', tok):
            return L.const(int(tok) & ((1 << w) - 1), w)
        if tok in ('true', 'false'):
            return L.const(1 if tok == 'true' else 0, 1)
        if tok in ('undef', 'poison'):
            return [None] * w
        raise AnalysisBroken('GF2LIN: unknown operand %r' % tok)

    for line in body.split('\n'):
        line = line.split(', !')[0].strip()
        if not line or line.startswith(';'):
            continue
        if line.startswith('call void @llvm.dbg') or line.startswith('ret '):
            continue
        m = re.match(r'^store i(\d+) (\S+), i\d+\* (\S+?)(?:, align \d+)?$', line)
        if m:
            w = int(m.group(1))
            v = val(m.group(2), w)
            p = ptr.get(m.group(3))
            if p is None:
                raise AnalysisBroken('GF2LIN: store through unresolved pointer: ' + line)
            for byte in range(w // 8):
                for b in range(8):
                    mem[(p[0], p[1] + byte, b)] = v[8 * byte + b]
            continue
        m = re.match(r'^(%[\w.]+) = (.*)$', line)
        if not m:
            raise AnalysisBroken('GF2LIN: unhandled IR statement: ' + line)
        dst, rhs = m.groups()
        mm = re.match(r'^(shl|lshr|xor|and|or|add|mul|sub)(?: nuw| nsw| exact| disjoint)* i(\d+) (\S+), (\S+)$', rhs)
        if mm:
            op, w, a, b = mm.group(1), int(mm.group(2)), mm.group(3), mm.group(4)
            A, B = val(a, w), val(b, w)
            if op in ('shl', 'lshr'):
                if not L.is_const(B):
                    env[dst] = [None] * w
                else:
                    n = L.const_val(B)
                    env[dst] = L.shl(A, n) if op == 'shl' else L.lshr(A, n)
            elif op == 'xor':
                env[dst] = L.xor(A, B)
            elif op == 'and':
                env[dst] = L.and_(A, B)
            elif op == 'or':
                env[dst] = L.or_(A, B)
            elif op == 'add':
                env[dst] = L.add(A, B)
            elif op == 'mul':
                if L.is_const(B):
                    env[dst] = L.mul_const(A, L.const_val(B))
                elif L.is_const(A):
                    env[dst] = L.mul_const(B, L.const_val(A))
                else:
                    env[dst] = [None] * w
            else:
                env[dst] = [None] * w
            continue
        mm = re.match(r'^(zext|sext|trunc) i(\d+) (\S+) to i(\d+)$', rhs)
        if mm:
            op, w1, a, w2 = mm.group(1), int(mm.group(2)), mm.group(3), int(mm.group(4))
            A = val(a, w1)
            if op == 'zext':
                env[dst] = A + [0] * (w2 - w1)
            elif op == 'sext':
                env[dst] = A + [A[-1]] * (w2 - w1)
            else:
                env[dst] = A[:w2]
            continue
        mm = re.match(r'^icmp (\w+) i(\d+) (\S+), (\S+)$', rhs)
        if mm:
            pred, w, a, b = mm.group(1), int(mm.group(2)), mm.group(3), mm.group(4)
            A, B = val(a, w), val(b, w)
            r = [None]
            if L.is_const(B):
                k = L.const_val(B)
                nz = [f for f in A if f != 0]
                if pred == 'slt' and k == 0:
                    r = [A[w - 1]]
                elif pred == 'sgt' and k == (1 << w) - 1:
                    r = [None if A[w - 1] is None else A[w - 1] ^ L.ONE]
                elif pred in ('ne', 'eq') and k == 0 and len(nz) <= 1:
                    f = nz[0] if nz else 0
                    r = [f if pred == 'ne' else (None if f is None else f ^ L.ONE)]
            env[dst] = r
            continue
        mm = re.match(r'^select i1 (\S+), i(\d+) (\S+), i\d+ (\S+)$', rhs)
        if mm:
            c, w, a, b = mm.group(1), int(mm.group(2)), mm.group(3), mm.group(4)
            C = val(c, 1)[0]
            A, B = val(a, w), val(b, w)
            if C is None:
                env[dst] = [None] * w
            elif C == L.ONE:
                env[dst] = A
            elif C == 0:
                env[dst] = B
            elif L.is_const(A) and L.is_const(B):
                # B ^ C*(A^B)
                env[dst] = [(B[i] ^ C) if (A[i] != B[i]) else B[i] for i in range(w)]
            else:
                env[dst] = [None] * w
            continue
        mm = re.match(r'^bitcast \S+ (\S+) to \S+$', rhs)
        if mm:
            if mm.group(1) in ptr:
                ptr[dst] = ptr[mm.group(1)]
            continue
        mm = re.match(r'^getelementptr (?:inbounds )?i(\d+), i\d+\* (\S+), i\d+ (-?\d+)$', rhs)
        if mm:
            w, base, idx = int(mm.group(1)), mm.group(2), int(mm.group(3))
            if base in ptr:
                ptr[dst] = (ptr[base][0], ptr[base][1] + idx * (w // 8))
            continue
        raise AnalysisBroken('GF2LIN: unhandled IR statement: ' + line)
    return mem, L
