"""ZEROTYPE: how the zero-detect kernels may combine what they read.  A value is
  D   bits of the buffer, or an OR-combination of such values, or a non-zero indicator derived from them
      (non-zero if and only if some contributing byte is non-zero);
  Z   a zero indicator (pcmpeqb against zero and its pmovmskb: bit set where the byte IS zero);
  F   a 0/1 flag produced by setcc;   DF  D OR F.
The only operations that keep "non-zero iff some byte non-zero" are OR, copying, comparing against zero and complementing
a zero indicator; addition, subtraction, xor, and, shifts and a PTEST/VPTESTM of two DIFFERENT data registers (which ANDs them)
can cancel or drop set bits.  The analysis types every register on every path and reports each such operation."""
import re
from asmdb import REG64, parse_mem, is_mem, VREG, KREG, is_cond_jump
import regdef

IMM = re.compile(r'^(0x[0-9a-f]+|-?\d+)$')
DATA = ('D', 'DF', 'Z')


def regname(o):
    o = re.sub(r'\{[^}]*\}', '', o).strip()
    g = REG64.get(o)
    if g:
        return g[0]
    m = VREG.match(o)
    if m:
        return 'v' + m.group(2) if m.lastindex and m.lastindex >= 2 else 'v' + re.sub(r'^[xyz]mm', '', o)
    if KREG.match(o):
        return o
    return None


def join(a, b):
    if a == b:
        return a
    if a is None or b is None:
        return 'X' if (a in DATA or b in DATA) else None
    if {a, b} <= {'D', 'DF', 'F'}:
        return 'DF'
    return 'X'


def analyse(u, f, is_buf_load):
    IN = {f.entry: {}}
    work = [f.entry]
    while work:
        a = work.pop()
        st = dict(IN[a])
        step(u.insns[a], st, None, is_buf_load)
        for n in u.succ(f, a):
            if n not in IN:
                IN[n] = st
                work.append(n)
            else:
                old = IN[n]
                new = {}
                for r in set(old) | set(st):
                    j = join(old.get(r), st.get(r))
                    if j is not None:
                        new[r] = j
                if new != old:
                    IN[n] = new
                    work.append(n)
    out = []
    nops = 0
    for a in f.addrs:
        if a in IN:
            nops += step(u.insns[a], dict(IN[a]), out, is_buf_load)
    return out, nops


def step(i, st, out, is_buf_load):
    """returns 1 if the instruction consumed a data value"""
    mn, ops = i.mn, i.ops
    if is_cond_jump(mn) or mn in ('jmp', 'ret', 'nop', 'endbr64', 'vzeroupper', 'cmp') or not ops:
        return 0

    def ty(o):
        if o is None:
            return None
        if is_mem(o):
            return 'D' if is_buf_load(i, o) else None
        if IMM.match(o):
            return 'K0' if int(o, 0) == 0 else 'K'
        r = regname(o)
        return st.get(r) if r else None
    d = regname(ops[0]) if not is_mem(ops[0]) else None
    srcs = ops[1:] if len(ops) > 1 else []
    three = len(ops) == 3 and not IMM.match(ops[2])
    a_ = ty(ops[1]) if three else (ty(ops[0]) if len(ops) > 1 else ty(ops[0]))
    b_ = ty(ops[2]) if three else (ty(ops[1]) if len(ops) > 1 else None)
    used = [t for t in ([ty(o) for o in ops[1:]] + ([ty(ops[0])] if not mn.startswith(('mov', 'vmov', 'set', 'lea', 'kmov', 'movzx', 'vpmovmskb', 'pmovmskb')) else [])) if t in DATA or t == 'X']
    res = None
    bad = None
    base = re.sub(r'^v', '', mn)
    if mn.startswith(('mov', 'vmov', 'kmov')) and len(ops) == 2:
        res = ty(ops[1])
        if res in ('K', 'K0'):
            res = None
    elif mn.startswith('set'):
        res = 'F'
    elif base in ('por', 'porq', 'pord', 'or', 'orps', 'orpd') or mn.startswith('kor') and not mn.startswith('kortest'):
        ts = {a_, b_}
        if ts <= {'D'} or ts == {'D', None} and False:
            res = 'D'
        elif 'X' in ts:
            res = 'X'
        elif ts <= {'D', 'DF', 'F'} and ts & {'D', 'DF'}:
            res = 'D' if ts == {'D'} else 'DF'
        elif ts & set(DATA):
            res = 'D' if ts <= {'D', 'K0', None} and None not in ts else ('DF' if None not in ts else 'X')
        elif ts == {'F'}:
            res = 'F'
    elif base in ('pxor', 'pxord', 'pxorq', 'xor', 'xorps') and ((three and ops[1] == ops[2]) or (not three and len(ops) == 2 and ops[0] == ops[1])):
        res = 'ZERO'
    elif base in ('pcmpeqb', 'pcmpeqd', 'pcmpeqq', 'pcmpeqw'):
        ts = [a_, b_]
        if 'ZERO' in ts and 'D' in ts:
            res = 'Z'
        elif any(t in DATA or t == 'X' for t in ts):
            bad = 'compared with something that is not the zero vector'
    elif base in ('pmovmskb',):
        res = ty(ops[1])
    elif mn == 'not':
        res = {'Z': 'D', 'D': 'Z'}.get(ty(ops[0]))
        used = []
    elif base in ('ptest',) or mn.startswith(('vptestm', 'vptestnm')):
        x, y = (ops[0], ops[1]) if base == 'ptest' else (ops[1], ops[2])
        tx, ty_ = ty(x), ty(y)
        if regname(x) != regname(y) and (tx in DATA or tx == 'X') and (ty_ in DATA or ty_ == 'X'):
            bad = 'tests the AND of two different data registers: a byte that is non-zero in only one of them is not seen'
        elif mn.startswith('vptestm'):
            res = 'D' if tx == 'D' and regname(x) == regname(y) else ('X' if tx in DATA else None)
            if mn.startswith('vptestnm'):
                res = 'Z' if res == 'D' else res
        used = []
        d = regname(ops[0]) if mn.startswith('vptest') and base != 'ptest' else None
    elif mn in ('test',) or mn.startswith(('ktest', 'kortest')):
        if len(ops) == 2 and regname(ops[0]) != regname(ops[1]) and not IMM.match(ops[1]) and any(t in DATA for t in (ty(ops[0]), ty(ops[1]))) and mn == 'test':
            bad = 'tests the AND of two different values'
        used = []
        d = None
    elif used:
        bad = 'is not an OR / copy / compare-with-zero'
    n = 1 if (used or bad) else 0
    if bad and out is not None:
        out.append((i, bad, [t for t in (a_, b_) if t]))
    if d is not None and mn not in ('test', 'ptest', 'vptest'):
        if res in (None, 'K', 'K0'):
            st.pop(d, None)
            _, defs = regdef.def_use(i)
            for r in defs:
                if r != d:
                    st.pop(r, None)
        else:
            st[d] = res
    elif d is None and not mn.startswith(('test', 'ptest', 'vptest', 'ktest', 'kortest', 'cmp')):
        _, defs = regdef.def_use(i)
        for r in defs:
            st.pop(r, None)
    return n
