"""V-SAME-OFFSET: byte i of the output depends on byte i of the inputs.  A forward may-dataflow over the vector registers carries, for every register, the set of
ORIGINS of the buffer data that flowed into it: (kind S|D, base pointer, offset), where the address of each load is a whole-function linear form (tools/asmlin.py,
lockstep classes), split into its base part (the pointer: an argument, a pointer fetched from an argument array) and its offset part (cursor atoms, len@entry and a
constant).  At every vector store into a destination buffer, every origin of the stored register has to carry the offset of the store; an origin that is old
destination data (multiply-accumulate) has to come from the very cell that is written.  Values carried round a back edge whose offset names that loop's cursor
are stale (the cursor has moved) and may not be stored.  Lane-wise instruction semantics are assumed (no byte of a vector moves to another position except in
table-lookup operands, which carry table data, not buffer data); byte-granular tails written with the include/memcpy.asm macros are outside this rule."""
import re, collections
from asmdb import is_cond_jump, is_mem, parse_mem, REG64, VREG
from common import AnalysisBroken
import asmlin, provenance
from provenance import base_tag
from earlypass import LEN_ARG

MOVES = ('movdqa', 'movdqu', 'movaps', 'movups', 'movapd', 'movupd', 'movntdqa', 'lddqu', 'movq', 'movd', 'pshufd', 'pmovzxbw', 'pmovzxbd', 'pmovzxbq', 'pmovzxwd', 'pmovzxdq', 'movddup', 'movshdup', 'movsldup',
         'pabsb', 'pabsw', 'pabsd', 'movhlps', 'movlhps')
STALE = ('stale',)


def vnum(op):
    m = VREG.match(re.sub(r'\{[^}]*\}', '', op).strip())
    return int(m.group(2)) if m else None


def split(form, lenreg):
    """-> (base key, offset key) or None: the base part is exactly one non-cursor atom with coefficient 1"""
    base = {k: c for k, c in form.items() if not (k == 1 or k == lenreg + '@entry' or (isinstance(k, tuple) and k[0] == 'J'))}
    if len(base) != 1 or list(base.values()) != [1]:
        return None
    off = {k: c for k, c in form.items() if k not in base}
    return str(list(base)[0]), asmlin.canon(off)


def analyse(sym, info, src_tags, dst_tags, acc_tags=None, typed=False):
    acc_tags = dst_tags if acc_tags is None else acc_tags
    typer = None
    if typed:
        import gftype
        typer = gftype.Typer(info)
        typer.run()
    u, f = info['unit'], info['func']
    lenreg = LEN_ARG[info['fam']['family']]
    L = asmlin.Lin(u, f)
    L.auto_pairs = True
    L.run()
    acc = {}
    for x in info['accesses']:
        acc.setdefault(x.insn.addr, []).append(x)

    def macro(i):
        return bool(i.line and i.line[0].endswith('memcpy.asm'))

    def aform(i, op):
        st = L.IN.get(i.addr)
        if st is None:
            return None
        fm = L.addr({'r': dict(st['r']), 'm': dict(st['m'])}, op)
        return split(fm, lenreg) if fm is not None else None
    heads = {}
    for a in f.addrs:
        i = u.insns[a]
        if (is_cond_jump(i.mn) or i.mn == 'jmp') and i.target is not None and i.target <= a and i.target in f.aset:
            heads.setdefault(i.target, []).append(a)
    # expansions of the byte-granular memcpy.asm macros are taken as ONE load / store of SIZE bytes at their base pointer (tools/lanemacro.py decides that they are)
    import lanemacro
    macros = {m['first']: m for m in lanemacro.summaries(sym, info)}

    def macro_addr(m):
        st_ = L.IN.get(m['first'])
        if st_ is None:
            return None
        S = {'r': dict(st_['r']), 'm': dict(st_['m'])}
        fm = {1: m['base'][1]} if m['base'][1] else {}
        for r1 in m['base'][0]:
            fm = asmlin.add(fm, L.reg(S, r1))
        return split(fm, lenreg)

    def macro_tag(m):
        for b in f.addrs:
            if m['first'] <= b < m['exit']:
                for x in acc.get(b, []):
                    if x.addr[0] == 'P' and base_tag(x.addr) in src_tags + acc_tags + dst_tags:
                        return base_tag(x.addr)
        return None
    joinaddrs = {a for a, st_ in L.IN.items() if any(v == {('J', a, r): 1} for r, v in st_['r'].items())}
    IN = {f.entry: {}}
    work = [f.entry]
    stores, undecided = {}, []
    n = 0
    while work:
        a = work.pop()
        n += 1
        if n > 200000:
            raise AnalysisBroken('samecell: no fixpoint in %s' % sym)
        st = dict(IN[a])
        i = u.insns[a]
        mn, ops = i.mn, i.ops
        succs = u.succ(f, a)
        if a in macros:
            m = macros[a]
            sp, tg = macro_addr(m), macro_tag(m)
            if sp is None or tg is None:
                undecided.append(i)
            elif m['kind'] == 'load':
                st[m['vreg']] = frozenset([('D' if tg in acc_tags else 'S', sp[0], frozenset([sp[1]]))]) if tg in src_tags + acc_tags else frozenset()
            elif tg in dst_tags:
                stores[a] = (i, sp, st.get(m['vreg'], frozenset()))
            mn, ops = 'nop', []
            succs = [m['exit']]
        xs = acc.get(a, [])
        memop = next((o for o in ops if is_mem(o)), None)
        tag = base_tag(xs[0].addr) if xs and xs[0].addr[0] == 'P' else None
        if ops and vnum(ops[0]) is not None and not is_mem(ops[0]):
            d = vnum(ops[0])
            srcs = [vnum(o) for o in ops[1:] if not is_mem(o) and vnum(o) is not None]
            vex = mn.startswith('v')
            merge = '{k' in ops[0] and '{z}' not in ops[0]
            kmask = re.search(r'\{(k\d)\}', ops[0])
            if not vex and mn in ('pxor', 'xorps', 'xorpd', 'psubb', 'pandn') and len(ops) == 2 and ops[0] == ops[1]:
                srcs = []
            elif (not vex and mn not in MOVES) or mn.startswith(('vpternlog', 'vpinsr', 'vfmadd', 'vinserti', 'vinsertf')):
                srcs.append(d)
            if vex and mn in ('vpxor', 'vpxord', 'vpxorq', 'vxorps', 'vxorpd') and len(ops) == 3 and ops[1] == ops[2]:
                srcs = []
            new = set()
            for s_ in srcs:
                new |= st.get(s_, frozenset())
            if merge and kmask:
                # merge masking: the lanes where the mask is clear keep the old contents; those origins are marked as living outside the mask and are ignored by
                # a store under the same mask (any write to the mask register removes the marks)
                new |= {o if o[-1] == 'not:' + kmask.group(1) else o + ('not:' + kmask.group(1),) for o in st.get(d, frozenset())}
            elif merge:
                new |= st.get(d, frozenset())
            if memop is not None and tag in src_tags + acc_tags and not macro(i):
                sp = aform(i, memop)
                if sp is None:
                    undecided.append(i)
                else:
                    new.add(('D' if tag in acc_tags else 'S', sp[0], frozenset([sp[1]])))
            elif memop is not None and macro(i) and tag in src_tags + acc_tags:
                new.add(('macro',))
            if typer is not None and new and a in typer.IN:
                # registers that GFTYPE knows to hold no buffer data any more (a mask broadcast from a scalar, a constant, table data) have no origins
                ts = {k: dict(v) for k, v in typer.IN[a].items()}
                typer.step(a, ts, None)
                if ts['v'].get(d) in ('Z', 'K', 'Kp', 'T'):
                    new = set()
            st[d] = frozenset(new)
        elif ops and is_mem(ops[0]) and tag in dst_tags and xs and xs[0].kind in ('store', 'rmw'):
            v = next((vnum(o) for o in ops[1:] if vnum(o) is not None), None)
            if v is not None and not macro(i):
                sp = aform(i, ops[0])
                km = re.search(r'\{(k\d)\}', ops[0])
                stores[a] = (i, sp, frozenset(o for o in st.get(v, frozenset()) if not (km and o[-1] == 'not:' + km.group(1))))
        elif ops and re.match(r'^k\d$', ops[0]):
            mark = 'not:' + ops[0]
            for r in list(st):
                if any(o[-1] == mark for o in st[r]):
                    st[r] = frozenset(o[:-1] if o[-1] == mark else o for o in st[r])
        lst = L.IN.get(a)
        lout = None
        for s_ in succs:
            out = st
            # registers that get a fresh join atom at s_: on this edge the atom equals the value the register has now, so origins whose offset is that value plus a
            # constant are re-expressed in terms of the atom (this is what relates "loaded at the cursor" before and after a join or a back edge)
            fresh = [r for r, v in L.IN.get(s_, {'r': {}})['r'].items() if v == {('J', s_, r): 1}]
            if fresh and lst is not None and a not in macros:
                if lout is None:
                    lout = {'r': dict(lst['r']), 'm': dict(lst['m'])}
                    L.step(i, lout)
                subs = [(r, lout['r'].get(r, {r + '@entry': 1})) for r in fresh]
                subs = [(r, F) for r, F in subs if F != {('J', s_, r): 1}]
            else:
                subs = []
            if subs or s_ in joinaddrs:
                out = {}
                for r_, os_ in st.items():
                    ns = set()
                    for o in os_:
                        if len(o) < 3 or o[0] in ('stale', 'macro'):
                            ns.add(o)
                            continue
                        al = set()
                        for Ok in o[2]:
                            O = dict(Ok)
                            # an expression that names an atom of the join being entered speaks about the previous arrival there
                            if not any(isinstance(k, tuple) and k[0] == 'J' and k[1] == s_ for k in O):
                                al.add(Ok)
                            for r, F in subs:
                                Dm = asmlin.add(O, F, -1)
                                if set(Dm) <= {1} and abs(Dm.get(1, 0)) <= 512:
                                    al.add(asmlin.canon(asmlin.add({('J', s_, r): 1}, Dm)))
                        ns.add((o[0], o[1], frozenset(al)) + o[3:] if al else STALE)
                    out[r_] = frozenset(ns)
            if s_ not in IN:
                IN[s_] = dict(out)
                work.append(s_)
            else:
                old = IN[s_]
                new = {r: old.get(r, frozenset()) | out.get(r, frozenset()) for r in set(old) | set(out)}
                if new != old:
                    IN[s_] = new
                    if s_ not in work:
                        work.append(s_)
    return stores, undecided


def check(rep, suffix, families, src_tags, dst_tags, floor, acc_tags=None, typed=False):
    R = rep.rule('V-SAME-OFFSET-' + suffix, 'every vector store into a destination buffer writes a value all of whose buffer-data origins (may-dataflow over the vector registers, addresses as whole-function linear '
                 'forms split into pointer and offset) were loaded at the offset that is written; old destination data comes from the very cell that is written; nothing loaded before the cursor moved is stored: '
                 'output byte i is computed from input byte i', floor=floor, unit='destination stores')
    res, _ = provenance.analyse('default')
    nk = 0
    for sym, info in sorted(res.items()):
        if info['fam']['family'] not in families:
            continue
        u, f = info['unit'], info['func']
        stores, und = analyse(sym, info, tuple(src_tags), tuple(dst_tags), None if acc_tags is None else tuple(acc_tags), typed)
        nk += 1
        if und:
            raise AnalysisBroken('V-SAME-OFFSET-%s: %s: the address of the load at %s is not pointer + offset' % (suffix, sym, u.where(und[0], f)))
        for a, (i, sp, origins) in sorted(stores.items()):
            w = '%s: %s' % (u.name, u.where(i, f))
            if sp is None:
                raise AnalysisBroken('V-SAME-OFFSET-%s: %s: the address of the store at %s is not pointer + offset' % (suffix, sym, w))
            R.instance()
            bad = []
            for o in sorted(origins, key=str):
                if o[0] == 'stale':
                    bad.append('a value loaded before the cursor of the enclosing loop moved')
                elif o[0] == 'macro':
                    continue
                elif sp[1] not in o[2]:
                    bad.append('%s data loaded at offset %s' % ('destination' if o[0] == 'D' else 'source', ' = '.join(sorted(asmlin.fmt(dict(x)) or '0' for x in o[2]))))
                elif o[0] == 'D' and o[1] != sp[0]:
                    bad.append('old data of another destination (%s)' % o[1])
            R.check(not bad, w, '%s stores to offset %s a value that depends on %s' % (sym, asmlin.fmt(dict(sp[1])) or '0', '; '.join(bad[:3])), key='V-SAME-OFFSET|%s|%#x' % (sym, a - f.entry),
                    sample='%s: %d origins, all at the offset written' % (sym, len(origins)) if sym.endswith('_sse') and '2vect' in sym else None)
    if nk == 0:
        raise AnalysisBroken('V-SAME-OFFSET-%s: no kernel' % suffix)
    R.notes.append('%d kernels' % nk)
