#!/bin/sh
# try_diff.sh <diff file> [check ids...] : like try_seed.sh for an arbitrary diff (development aid; used for the behaviour-preserving edits of the benign round)
d=$1; shift
[ -d /tmp/mut ] || git -C /repo worktree add -q --detach /tmp/mut HEAD
cd /tmp/mut && git checkout -q --detach $(git -C /repo rev-parse HEAD) && git checkout -q -- . && git apply $d || { echo "patch does not apply"; exit 2; }
cd /verif
checks="$@"; [ -z "$checks" ] && checks=$(python3 -c "import json;print(' '.join(c['property_id'] for c in json.load(open('MANIFEST.json'))['checks']))")
for c in $checks; do
  out=$(VERIF_REPO=/tmp/mut ./check $c 2>&1); r=$?
  echo "$c exit=$r: $(echo "$out" | grep -m3 'violation\|ANALYSIS-BROKEN' | cut -c1-300)"
done
cd /tmp/mut && git checkout -q -- .
