"""R-FOLD-CONST: every carry-less multiply of the folding CRC kernels multiplies DATA by a CONSTANT.  Reaching definitions over the vector registers (may-analysis, union at
joins; a register copy passes the definitions of its source on): for every PCLMULQDQ / VPCLMULQDQ, one source operand has only constant definitions reaching it (loads or
broadcasts from the unit's data section: the rk fold constants, Barrett constants) and the other has at least one definition that is not a constant.  A data block loaded
into the register that carries the fold constants round the loop (the constants are loaded once, in front of the loop) makes every later fold multiply data by data; a
constant loaded over an accumulator drops the folded state."""
import re
from asmdb import is_mem, VREG
from common import AnalysisBroken
import provenance
from provenance import base_tag

COPIES = ('movdqa', 'movdqu', 'movaps', 'movups', 'vmovdqa', 'vmovdqu', 'vmovaps', 'vmovups', 'vmovdqa64', 'vmovdqu64', 'vmovdqa32', 'vmovdqu8')


def vnum(op):
    m = VREG.match(re.sub(r'\{[^}]*\}', '', op).strip())
    return int(m.group(2)) if m else None


def analyse(info):
    u, f = info['unit'], info['func']
    acc = {}
    for x in info['accesses']:
        acc.setdefault(x.insn.addr, []).append(x)
    IN = {f.entry: {}}
    work = [f.entry]
    while work:
        a = work.pop()
        st = dict(IN[a])
        i = u.insns[a]
        mn, ops = i.mn, i.ops
        if ops and not is_mem(ops[0]) and vnum(ops[0]) is not None and not mn.startswith(('ptest', 'vptest', 'comis', 'ucomis')):
            d = vnum(ops[0])
            memop = next((o for o in ops[1:] if is_mem(o)), None)
            xs = acc.get(a, [])
            glob = bool(xs) and all(x.addr[0] == 'P' and base_tag(x.addr) == 'GLOBAL' for x in xs)
            if mn in COPIES and len(ops) == 2 and not is_mem(ops[1]) and vnum(ops[1]) is not None:
                st[d] = st.get(vnum(ops[1]), frozenset([('D', 'entry')]))
            elif (mn in COPIES or mn.startswith(('vbroadcast', 'vpbroadcast', 'movddup', 'vmovddup', 'lddqu'))) and memop is not None and glob:
                st[d] = frozenset([('K', a)])
            else:
                st[d] = frozenset([('D', a)])
        for s_ in u.succ(f, a):
            if s_ not in IN:
                IN[s_] = dict(st)
                work.append(s_)
            else:
                old = IN[s_]
                new = {r: old.get(r, frozenset([('D', 'entry')])) | st.get(r, frozenset([('D', 'entry')])) for r in set(old) | set(st)}
                if new != old:
                    IN[s_] = new
                    if s_ not in work:
                        work.append(s_)
    out = []
    for a in f.addrs:
        i = u.insns[a]
        if 'pclmul' not in i.mn or a not in IN:
            continue
        st = IN[a]
        ops = [o for o in i.ops if not re.match(r'^(0x[0-9a-f]+|\d+)$', o)]
        srcs = ops[1:] if i.mn.startswith('v') else ops[:2]
        kinds = []
        for o in srcs:
            if is_mem(o):
                xs = acc.get(a, [])
                kinds.append('K' if xs and all(x.addr[0] == 'P' and base_tag(x.addr) == 'GLOBAL' for x in xs) else 'D')
            else:
                ds = st.get(vnum(o), frozenset([('D', 'entry')]))
                kinds.append('K' if all(k == 'K' for k, _ in ds) else ('D' if all(k == 'D' for k, _ in ds) else 'KD'))
        out.append((i, srcs, kinds))
    return out


def check(rep, families, floor):
    R = rep.rule('R-FOLD-CONST', 'every (V)PCLMULQDQ of the CRC kernels has one source operand reached only by constant definitions (loads / broadcasts from the data section, possibly through register copies) and '
                 'one source operand that is data (reaching definitions over the vector registers, union at joins): the registers that carry the fold constants round the loops are never loaded with data, and '
                 'no constant is loaded over a fold accumulator', floor=floor, unit='carry-less multiplies')
    res, _ = provenance.analyse('default')
    for sym, info in sorted(res.items()):
        if info['fam']['family'] not in families:
            continue
        u, f = info['unit'], info['func']
        for i, srcs, kinds in analyse(info):
            R.instance()
            ok = sorted(kinds) in (['D', 'K'],)
            R.check(ok, '%s: %s' % (u.name, u.where(i, f)), '%s: "%s" multiplies %s: a fold step needs exactly one constant operand (reached by constant loads only) and one data operand' %
                    (sym, i.text, ' by '.join('%s (%s)' % (o, {'K': 'constant', 'D': 'data', 'KD': 'constant on some paths, data on others'}[k]) for o, k in zip(srcs, kinds))),
                    key='R-FOLD-CONST|%s|%#x' % (sym, i.addr - f.entry), sample='%s: %s x %s' % (sym, kinds[0], kinds[1]) if sym.endswith('_by8') and len(kinds) == 2 else None)
