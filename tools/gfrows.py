"""GFROWS: which row of the expanded coefficient table feeds which destination, in the multiply-accumulate kernels.
gf_Nvect_mad(len, vec, vec_i, mul_array, src, dest[N]) keeps the tables of destination j at mul_array + vec_i*S + j*vec*S
(S = 32 bytes, 8 for GFNI).  BOUNDS, run with the symbolic count N := vec and vec_i normalised to 0, gives every table load an
exact offset c + k*N; its row is k / S.  A forward dataflow labels every vector register with the set of table rows its
contents derive from; what is stored to destination j must derive from row j only."""
import re
from common import AnalysisBroken
from asmdb import REG64, parse_mem, is_mem, VREG
import bounds, provenance

NONE = frozenset()


def vname(o):
    if not o:
        return None
    o = re.sub(r'\{[^}]*\}', '', o).strip()
    return 'v' + re.sub(r'^[xyz]mm', '', o) if VREG.match(o) else None


def analyse(info, stride, tblreg='rcx', zero=('rdx',)):
    """-> (stores [(insn, dest index j or None, rows)], number of table loads with a known row, problems)"""
    u, f, fl = info['unit'], info['func'], info['flow']
    bd = bounds.Bounds(u, f, fl, 'rsi', ptr_args=[tblreg], zero_regs=list(zero))
    bd.run()
    trow = {}
    problems = []
    dest = {}
    for a in info['accesses']:
        bt = provenance.base_tag(a.addr)
        if bt == 'TBL' and a.kind == 'load':
            r = bd.offset_bounds(a.insn.addr, a)
            e = r[0].exact() if r else None
            if e is None and r and (r[0].lo or r[0].hi):
                ks = {x[1] for x in r[0].lo} | {x[1] for x in r[0].hi}
                if len(ks) == 1:
                    e = (0, ks.pop())       # the table cursor moves along the sources; the row is the coefficient of the row stride
            if e is None or e[1] % stride or e[1] < 0:
                problems.append((a.insn, 'table load whose offset is not an exact multiple of the row stride (%s)' % (r[0] if r else None)))
                continue
            trow[(a.insn.addr, a.opidx)] = e[1] // stride
        elif a.kind in ('store', 'rmw') and bt in ('DESTARR[]', 'DEST'):
            j = 0
            if bt == 'DESTARR[]':
                idx = provenance.elem_index(a.addr)
                j = idx[0] // 8 if idx and idx != 'n/a' and idx[1] == 0 else None
            dest[(a.insn.addr, a.opidx)] = j
    IN = {f.entry: {}}
    work = [f.entry]
    while work:
        a = work.pop()
        st = dict(IN[a])
        step(u.insns[a], st, trow, None, dest)
        for n in u.succ(f, a):
            if n not in IN:
                IN[n] = st
                work.append(n)
            else:
                old = IN[n]
                new = {r: old.get(r, NONE) | st.get(r, NONE) for r in set(old) | set(st)}
                if new != old:
                    IN[n] = new
                    work.append(n)
    stores = []
    for a in f.addrs:
        if a in IN:
            step(u.insns[a], dict(IN[a]), trow, stores, dest)
    return stores, len(trow), problems


def step(i, st, trow, out, dest):
    ops = i.ops
    if not ops:
        return
    d = vname(ops[0]) if not is_mem(ops[0]) else None
    if is_mem(ops[0]):
        key = (i.addr, 0)
        if key in dest and out is not None and len(ops) > 1:
            v = vname(ops[1])
            g = REG64.get(ops[1])
            rows = st.get(v, NONE) if v else (st.get(g[0], NONE) if g else NONE)
            out.append((i, dest[key], rows))
        return
    rows = NONE
    for k, o in enumerate(ops[1:], 1):
        if is_mem(o):
            if (i.addr, k) in trow:
                rows |= frozenset([trow[(i.addr, k)]])
        else:
            v = vname(o)
            if v:
                rows |= st.get(v, NONE)
            elif o in REG64:
                rows |= st.get(REG64[o][0], NONE)
    two_operand = len(ops) == 2 and not i.mn.startswith(('mov', 'vmov', 'vbroadcast', 'vpbroadcast', 'lddqu', 'vextract', 'pextr', 'vpextr', 'kmov', 'lea', 'pmovmskb', 'vpmovmskb'))
    if d is not None:
        if two_operand:
            rows |= st.get(d, NONE)
        if i.mn in ('pxor', 'xorps', 'vpxor', 'vpxord', 'vpxorq') and ((len(ops) == 2 and ops[0] == ops[1]) or (len(ops) == 3 and ops[1] == ops[2])):
            rows = NONE
        if re.match(r'^v?pcmp(gt|eq)[bwdq]$', i.mn):
            rows = NONE       # a lane mask (tail handling) is a selector, not a product: it carries no coefficient
        st[d] = rows
    elif ops[0] in REG64:
        g = REG64[ops[0]][0]
        if i.mn in ('vmovq', 'movq', 'vmovd', 'movd', 'vpextrq', 'pextrq', 'vpextrd', 'pextrd', 'vpextrb', 'pextrb', 'vpextrw', 'pextrw'):
            st[g] = rows
        elif i.mn in ('shr', 'shl', 'sar', 'ror', 'rol', 'cmp', 'test'):
            pass
        else:
            st.pop(g, None)


def check_dot(rep, floor):
    R = rep.rule('V-GFROWS-EC', 'dot-product kernels: every load from the coefficient table has an offset whose coefficient of vlen (BOUNDS with N := vlen) is an exact multiple k of the row stride; '
                 'a forward dataflow labels each vector register with the set of table rows its value derives from; the value stored to destination j derives from row j and from no other row', floor=floor, unit='kernels')
    res, _ = provenance.analyse('default')
    for sym, info in sorted(res.items()):
        if info['fam']['family'] != 'ec_dot_prod':
            continue
        R.instance()
        u, f = info['unit'], info['func']
        stride = 8 if 'gfni' in sym else 32
        stores, nt, problems = analyse(info, stride, tblreg='rdx', zero=())
        if nt == 0 or not stores:
            raise AnalysisBroken('%s: no table load with a known row (%d) or no destination store (%d) recognised' % (sym, nt, len(stores)))
        for i, why in problems:
            R.fail('%s: %s' % (u.name, u.where(i, f)), why, key='V-GFROWS|%s|load|%#x' % (sym, i.addr - f.entry))
        bad = 0
        for i, j, rows in stores:
            if j is None or rows != frozenset([j]):
                bad += 1
                R.fail('%s: %s' % (u.name, u.where(i, f)), 'the value stored to destination %s derives from table row(s) %s; destination j must be computed from coefficient row j only' % (j, sorted(rows) or 'none'),
                       key='V-GFROWS|%s|%s|%s' % (sym, j, re.sub(r'\s+', ' ', i.text)))
        if not bad and not problems:
            R.ok(len(stores), sample='%s: %d table loads with known rows, %d destination stores, each from its own row' % (sym, nt, len(stores)) if sym.startswith('gf_6vect') else None)
    return R


def check(rep, floor):
    R = rep.rule('V-GFROWS-MAD', 'multiply-accumulate kernels: every load from the coefficient table has an exact offset c + k*vec (BOUNDS with N := vec, vec_i normalised to 0) whose row k/S is recorded; '
                 'a forward dataflow labels each vector register with the set of table rows its value derives from; the value stored to destination j derives from row j and from no other row', floor=floor, unit='kernels')
    res, _ = provenance.analyse('default')
    for sym, info in sorted(res.items()):
        if info['fam']['family'] != 'ec_mad':
            continue
        R.instance()
        u, f = info['unit'], info['func']
        stride = 8 if 'gfni' in sym else 32
        # the kernel scales vec by S itself (sal vec, 5 / shl vec, 3): rows are multiples of S in the offset's N coefficient
        stores, nt, problems = analyse(info, stride)
        if nt == 0 or not stores:
            raise AnalysisBroken('%s: no table load with a known row (%d) or no destination store (%d) recognised' % (sym, nt, len(stores)))
        for i, why in problems:
            R.fail('%s: %s' % (u.name, u.where(i, f)), why, key='V-GFROWS|%s|load|%#x' % (sym, i.addr - f.entry))
        bad = 0
        for i, j, rows in stores:
            if j is None:
                R.fail('%s: %s' % (u.name, u.where(i, f)), 'store to a destination whose index in dest[] is not constant', key='V-GFROWS|%s|idx|%#x' % (sym, i.addr - f.entry))
                bad += 1
            elif rows != frozenset([j]):
                bad += 1
                R.fail('%s: %s' % (u.name, u.where(i, f)), 'the value stored to destination %d derives from table row(s) %s; destination j must be updated with coefficient row j only' % (j, sorted(rows) or 'none'),
                       key='V-GFROWS|%s|%d|%s' % (sym, j, re.sub(r'\s+', ' ', i.text)))
        if not bad and not problems:
            R.ok(len(stores), sample='%s: %d table loads with known rows, %d destination stores, each from its own row' % (sym, nt, len(stores)) if sym.startswith('gf_6vect') else None)
    return R
