#!/bin/sh
# mutc.sh <file> <sed-expr> <check ids...> : development aid.  Applies one sed expression to a file of the scratch worktree /tmp/mut (reset to /repo HEAD first),
# shows the diff size and runs the given checks against it (VERIF_REPO); /repo is not touched.
f=$1; e=$2; shift 2
[ -d /tmp/mut ] || git -C /repo worktree add -q --detach /tmp/mut HEAD
cd /tmp/mut && git checkout -q --detach $(git -C /repo rev-parse HEAD) && git checkout -q -- . && sed -i "$e" $f
git diff --stat | tail -1
cd /verif
for c in "$@"; do
  out=$(VERIF_REPO=/tmp/mut ./check $c 2>&1); r=$?
  echo "$c exit=$r: $(echo "$out" | grep -m3 'violation\|ANALYSIS-BROKEN' | cut -c1-300)"
done
cd /tmp/mut && git checkout -q -- .
