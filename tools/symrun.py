"""SYMRUN: exact symbolic evaluation of a small C function whose control flow depends on constants only (counted loops over an array): scalars are integers or linear forms
over the initial array cells x[k], pointers are (array, index), the array is a map index -> linear form.  Branches must evaluate to constants (else AnalysisBroken);
every loop is followed concretely.  This is constant propagation with a linear-form value domain for the data - the result is the function's effect on the array as a matrix
over the initial cells, for ALL contents."""
import re
from common import AnalysisBroken


def ladd(a, b, k=1):
    out = dict(a)
    for x, c in b.items():
        n = out.get(x, 0) + k * c
        if n:
            out[x] = n
        else:
            out.pop(x, None)
    return out


def run(mod, fn, max_steps=200000):
    f = mod.funcs.get(fn)
    if f is None:
        raise AnalysisBroken('SYMRUN: %s not found' % fn)
    if len(f.params) != 1 or not f.params[0][0].endswith('*'):
        raise AnalysisBroken('SYMRUN: %s does not take one array' % fn)
    arr = f.params[0][1]
    env = {arr: ('P', 0)}
    mem = {}

    def cell(k):
        return mem[k] if k in mem else {k: 1}

    def val(v):
        if re.match(r'^-?\d+$', v):
            return ('I', int(v))
        if v in env:
            return env[v]
        raise AnalysisBroken('SYMRUN: %s: value %s undefined' % (fn, v))
    blk, prev, steps = f.order[0], None, 0
    while True:
        for i in f.blocks[blk].insns:
            steps += 1
            if steps > max_steps:
                raise AnalysisBroken('SYMRUN: %s does not terminate within %d steps' % (fn, max_steps))
            op = i.op
            if op == 'phi':
                src = [v for v, b in i.extra['incoming'] if b == prev]
                if not src:
                    raise AnalysisBroken('SYMRUN: phi without incoming for %s' % prev)
                env[i.dst] = val(src[0])
            elif op == 'getelementptr':
                base = val(i.ops[0])
                idx = [x.split(' ')[-1] for x in (i.extra or {}).get('idx', [])]
                if base[0] != 'P' or len(idx) != 1:
                    raise AnalysisBroken('SYMRUN: address form not modelled: ' + i.text[:80])
                k = val(idx[0])
                if k[0] != 'I':
                    raise AnalysisBroken('SYMRUN: data-dependent index: ' + i.text[:80])
                env[i.dst] = ('P', base[1] + k[1])
            elif op == 'load':
                p = val(i.ops[0])
                env[i.dst] = ('L', cell(p[1]))
            elif op == 'store':
                v, p = val(i.ops[0]), val(i.ops[1])
                mem[p[1]] = {1: v[1]} if v[0] == 'I' and v[1] else ({} if v[0] == 'I' else v[1])
            elif op in ('add', 'sub'):
                a, b = val(i.ops[0]), val(i.ops[1])
                if a[0] == 'I' and b[0] == 'I':
                    env[i.dst] = ('I', (a[1] + b[1]) if op == 'add' else (a[1] - b[1]))
                else:
                    la = a[1] if a[0] == 'L' else ({1: a[1]} if a[1] else {})
                    lb = b[1] if b[0] == 'L' else ({1: b[1]} if b[1] else {})
                    env[i.dst] = ('L', ladd(la, lb, 1 if op == 'add' else -1))
            elif op in ('zext', 'sext', 'trunc', 'bitcast', 'freeze'):
                env[i.dst] = val(i.ops[0])
            elif op == 'icmp':
                a, b = val(i.ops[0]), val(i.ops[1])
                if a[0] == 'P' and b[0] == 'P':
                    a, b = ('I', a[1]), ('I', b[1])
                if a[0] != 'I' or b[0] != 'I':
                    raise AnalysisBroken('SYMRUN: data-dependent comparison: ' + i.text[:80])
                x, y = a[1], b[1]
                env[i.dst] = ('I', int({'eq': x == y, 'ne': x != y, 'ult': x < y, 'ule': x <= y, 'ugt': x > y, 'uge': x >= y, 'slt': x < y, 'sle': x <= y, 'sgt': x > y, 'sge': x >= y}[i.extra['pred']]))
            elif op == 'br':
                if i.extra.get('cond'):
                    c = val(i.extra['cond'])
                    if c[0] != 'I':
                        raise AnalysisBroken('SYMRUN: data-dependent branch')
                    nxt = i.extra['targets'][0 if c[1] else 1]
                else:
                    nxt = i.extra['targets'][0]
                prev, blk = blk, nxt
                break
            elif op == 'ret':
                return mem
            elif op == 'call' and (i.callee or '').startswith('llvm.dbg'):
                continue
            else:
                raise AnalysisBroken('SYMRUN: %s: instruction not modelled: %s' % (fn, i.text[:80]))
