"""R-PROBE-PURE and L-TRUNC-CMP (inflate header fast path, C02 / C06).

R-PROBE-PURE: a probe - a function whose zero return makes its caller fall back to another parser of the SAME input (header_matches_pregen: "is this ISA-L's own default
header?" before the generic dynamic-header parser) - must not have touched the decoder state on any path that returns 0: no store through the state parameter and no call
that receives it may lie on a path to a zero return.

L-TRUNC-CMP: no equality comparison anywhere in the library compares two values that were BOTH narrowed from a wider integer right before the comparison: the upper parts
are silently left out of the test (e.g. the 61 header bits already in read_in compared in 32-bit temporaries)."""
import re
from common import AnalysisBroken
import irrules

# probe -> (index of the state parameter, why a zero return must be side-effect free)
PROBES = {'header_matches_pregen': (0, 'setup_dynamic_header parses the same header generically when it returns 0')}


def check_probe_pure(rep, mod, floor=1):
    R = rep.rule('R-PROBE-PURE', 'a probe function whose zero return makes the caller parse the same input another way (header_matches_pregen) has, on every path that returns 0, neither stored through its state '
                 'parameter nor passed it to a callee: the fallback parser sees the input position and bit buffer it would have seen without the probe', floor=floor, unit='state writes / calls in probes')
    for name, (pidx, why) in sorted(PROBES.items()):
        f = mod.funcs.get(name)
        if f is None:
            raise AnalysisBroken('R-PROBE-PURE: %s not found' % name)
        P = irrules.prov(mod, f)
        rets = [i for i in f.all_insns() if i.op == 'ret']
        zero_src = set()        # blocks from which a zero return is taken
        for r in rets:
            v = r.ops[0] if r.ops else None
            d = f.defs.get(v) if v else None
            if d is not None and d.op == 'phi':
                for val, blk in d.extra['incoming']:
                    if not re.match(r'^-?\d+$', val) or int(val) == 0:
                        zero_src.add(blk)
            elif v is not None and re.match(r'^-?\d+$', v):
                if int(v) == 0:
                    zero_src.add(r.block)
            else:
                zero_src.add(r.block)
        if not zero_src:
            raise AnalysisBroken('R-PROBE-PURE: %s has no zero return' % name)
        succ = {b: [t for t in (f.blocks[b].insns[-1].extra.get('targets') or [])] for b in f.order}

        def reaches_zero(b, after_self=True):
            seen, work = set(), list(succ.get(b, []))
            if b in zero_src:
                return True
            while work:
                x = work.pop()
                if x in seen:
                    continue
                seen.add(x)
                if x in zero_src:
                    return True
                work += succ.get(x, [])
            return False
        n = 0
        for i in f.all_insns():
            what = None
            if i.op == 'store' and any(a[0] == 'param' and a[1] == pidx for a in P.atoms(i.ops[1])):
                what = 'stores to the state'
            elif i.op == 'call' and any(any(a[0] == 'param' and a[1] == pidx for a in P.atoms(o)) for o in i.ops if o.startswith('%')):
                what = 'passes the state to %s' % i.callee
            if what is None:
                continue
            n += 1
            R.instance()
            R.check(not reaches_zero(i.block), mod.where(f, i), '%s %s on a path that can still return 0 (%s)' % (name, what, why), key='R-PROBE-PURE|%s|%s' % (name, i.line or 0),
                    sample='%s: every state write is followed only by return 1' % name)
        if n == 0 and f.blocks and len(f.order) > 2:
            raise AnalysisBroken('R-PROBE-PURE: %s never writes the state: the rule has nothing to decide' % name)


def check_trunc_cmp(rep, mod):
    R = rep.rule('L-TRUNC-CMP', 'no equality comparison in the library has BOTH operands narrowed (trunc) from a wider integer immediately before the comparison: such a test leaves the upper parts of the two values out '
                 '(every eq/ne comparison of the linked IR is an instance)', floor=300, unit='equality comparisons')
    one = 0
    for fn, f in sorted(mod.funcs.items()):
        for i in f.all_insns():
            if i.op != 'icmp' or i.extra['pred'] not in ('eq', 'ne'):
                continue
            ds = [f.defs.get(o) for o in i.ops[:2]]
            tr = [d is not None and d.op == 'trunc' for d in ds]
            R.instance()
            one += any(tr) and not all(tr)
            R.check(not all(tr), mod.where(f, i), '%s: compares %s and %s, both narrowed from a wider value just before: the upper bits of the originals are not compared' % (fn, i.ops[0], i.ops[1]),
                    key='L-TRUNC-CMP|%s|%s' % (fn, i.line or 0), sample='%s: operands not both narrowed' % fn if fn == 'header_matches_pregen' else None)
    if one < 3:
        raise AnalysisBroken('L-TRUNC-CMP: the matcher no longer sees narrowed comparison operands at all (%d)' % one)


# (function, compared constant): why a signed comparison of a value computed from avail_in / avail_out is intended
SIGNED_OK = {('isal_inflate', '0'): 'avail_out of the INTERNAL window was just computed as sizeof(tmp_out_buffer) - ISAL_LOOK_AHEAD - tmp_out_valid, which may be negative; it is clamped to 0'}


def check_avail_unsigned(rep, mod, offz, offi):
    """avail_in / avail_out are 32-bit UNSIGNED byte counts supplied by the caller: a chunk of 2 GiB or more is legal"""
    R = rep.rule('L-AVAIL-UNSIGNED', 'every 32-bit (or narrower) comparison one of whose operands is computed directly (add / sub / casts / phi) from a loaded avail_in or avail_out field uses an unsigned predicate or '
                 'equality: no byte count of 2^31 or more supplied by the caller is taken for negative (e.g. "not enough input" for a 2 GiB chunk, followed by a copy of the whole chunk into a small buffer)',
                 floor=60, unit='comparisons on avail_in / avail_out')
    for fn, f in sorted(mod.funcs.items()):
        pz = [n for n, (t_, _) in enumerate(f.params) if 'struct.isal_zstream*' in t_]
        pi = [n for n, (t_, _) in enumerate(f.params) if 'struct.inflate_state*' in t_]
        if not pz and not pi:
            continue
        P = irrules.prov(mod, f)
        cells = set()
        for n in pz:
            cells |= {('param', n, o) for o in offz.values()}
        for n in pi:
            cells |= {('param', n, o) for o in offi.values()}

        def direct(v, depth=0):
            d = f.defs.get(v)
            if d is None or depth > 6:
                return False
            if d.op == 'load':
                at = P.atoms(d.ops[0])
                return len(at) == 1 and bool(at & cells)
            if d.op in ('add', 'sub', 'zext', 'sext', 'trunc', 'freeze'):
                return any(direct(o, depth + 1) for o in d.ops if o.startswith('%'))
            if d.op == 'phi':
                return any(direct(x, depth + 1) for x, _ in d.extra['incoming'] if x.startswith('%'))
            return False
        for i in f.all_insns():
            if i.op != 'icmp' or (i.ty or '') not in ('i32', 'i16', 'i8'):
                continue
            if not any(o.startswith('%') and direct(o) for o in i.ops[:2]):
                continue
            R.instance()
            signed = i.extra['pred'] in ('slt', 'sgt', 'sle', 'sge')
            ok = not signed or (fn, i.ops[1]) in SIGNED_OK
            R.check(ok, mod.where(f, i), '%s compares a value computed from avail_in / avail_out as a SIGNED %s quantity (%s): a count of 2^31 bytes or more is taken for negative' % (fn, i.ty, i.extra['pred']),
                    key='L-AVAIL-UNSIGNED|%s|%s' % (fn, i.line or 0), sample='%s: unsigned' % fn if fn == 'fixed_size_read' else None)


def check_zero_run_siblings(rep, mod):
    """RFC 1951 code-length symbols 17 and 18 both mean "a run of zero lengths" and differ only in the run length they encode (3 + 3 bits, 11 + 7 bits)"""
    R = rep.rule('R-ZERO-RUN-SIBLINGS', 'setup_dynamic_header: the arm that handles code-length symbol 17 and the arm that handles symbol 18 perform the same operations (multiset of instructions other than branches / phis '
                 'in the blocks private to each arm: same loads, stores, address steps, comparisons and calls) - they differ only in the constants of the run length: what one arm does to the cursor, to the pointer to '
                 'the previous length and at the switch from the literal/length to the distance table, the other does too', floor=1, unit='arm pairs')
    import collections
    f = mod.funcs.get('setup_dynamic_header')
    if f is None:
        raise AnalysisBroken('setup_dynamic_header not found')
    arms = {}
    for b in f.order:
        t = f.blocks[b].insns[-1]
        c = f.defs.get(t.extra.get('cond', '')) if t.op == 'br' and t.extra.get('cond') else None
        if c is not None and c.op == 'icmp' and c.extra['pred'] == 'eq' and c.ops[1] in ('17', '18'):
            arms[c.ops[1]] = (t.extra['targets'][0], c)
    if set(arms) != {'17', '18'}:
        raise AnalysisBroken('setup_dynamic_header: arms for symbols 17 / 18 not found')
    heads = {h for h in f.order if any(f.dominates(h, p_) for p_ in f.blocks[h].preds)} if hasattr(f.blocks[f.order[0]], 'preds') else set()

    def region(start):
        seen, work = [], [start]
        while work:
            b = work.pop(0)
            if b in seen or b in heads:
                continue
            seen.append(b)
            work += (f.blocks[b].insns[-1].extra.get('targets') or [])
        return seen
    ra, rb = region(arms['17'][0]), region(arms['18'][0])
    ea, eb = [x for x in ra if x not in rb], [x for x in rb if x not in ra]

    def sig(blocks):
        out = collections.Counter()
        for bl in blocks:
            for i in f.blocks[bl].insns:
                if i.op in ('br', 'phi') or (i.op == 'call' and (i.callee or '').startswith('llvm.dbg')):
                    continue
                out[(i.op, i.extra.get('pred') if i.op == 'icmp' else None, re.sub(r'\.\d+$', '', i.callee) if i.op == 'call' else None)] += 1
        return out
    sa, sb = sig(ea), sig(eb)
    if sum(sa.values()) < 10:
        raise AnalysisBroken('setup_dynamic_header: the arm for symbol 17 has only %d instructions' % sum(sa.values()))
    R.instance()
    d1, d2 = sa - sb, sb - sa
    R.check(not d1 and not d2, mod.where(f, arms['18'][1]), 'setup_dynamic_header treats the two zero-run symbols differently: only the arm for 17 has %s, only the arm for 18 has %s - a run written with one of them leaves the '
            'cursor / previous-length pointer / table switch in a different state than the same run written with the other' % (dict(d1) or 'nothing', dict(d2) or 'nothing'), key='R-ZERO-RUN-SIBLINGS',
            sample='%d operations in each arm' % sum(sa.values()))


def check_refill_in_loop(rep, mod):
    """the portable block decoder consumes up to 48 bits per iteration (a packed entry, a distance code, their extra bits) from a 64-bit buffer: the buffer is topped up once per iteration"""
    R = rep.rule('R-REFILL-IN-LOOP', 'decode_huffman_code_block_stateless_base: inside the decode loop a call of inflate_in_load dominates the call of decode_next_lit_len (the bit buffer is refilled in every iteration '
                 'before a symbol group is decoded; the decode helpers only refill when the buffer cannot hold one code, not a whole group with its extra bits)', floor=1, unit='decode loops')
    f = mod.funcs.get('decode_huffman_code_block_stateless_base')
    if f is None:
        raise AnalysisBroken('decode_huffman_code_block_stateless_base not found')
    dec = [i for i in f.all_insns() if i.op == 'call' and re.sub(r'\.\d+$', '', i.callee or '') == 'decode_next_lit_len']
    loads = [i for i in f.all_insns() if i.op == 'call' and re.sub(r'\.\d+$', '', i.callee or '') == 'inflate_in_load']
    if not dec:
        raise AnalysisBroken('no call of decode_next_lit_len in the base decoder')
    loops = irrules.natural_loops(f)
    for d in dec:
        R.instance()
        inner = [(len(L), h, L) for h, L in loops.items() if d.block in L]
        if not inner:
            raise AnalysisBroken('decode_next_lit_len is not called inside a loop')
        _, h, L = min(inner)
        pos = {id(i): n for n, i in enumerate(f.blocks[d.block].insns)}
        ok = any(l.block in L and ((l.block == d.block and pos.get(id(l), 1 << 30) < pos[id(d)]) or (l.block != d.block and f.dominates(l.block, d.block))) for l in loads)
        R.check(ok, mod.where(f, d), 'the decode loop calls decode_next_lit_len without a preceding inflate_in_load in the same iteration: a length symbol whose code and extra bits need more bits than are left is decoded from '
                'an exhausted buffer although input is available', key='R-REFILL-IN-LOOP', sample='refill dominates the decode in the loop at %s' % h)
