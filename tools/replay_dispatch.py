#!/usr/bin/env python3
"""Concrete replay of a C16 finding against the real resolver code (NOT a check: used only
to confirm a statically reported violation).  Builds the library objects from /repo's
current tree, links a stub that calls the entry point, and single-steps the real resolver
under gdb, substituting the outputs of CPUID / XGETBV with the chosen feature assignment.
Prints the symbol the resolver stores into the dispatch slot.

usage: replay_dispatch.py <entry> FEATURE[,FEATURE...]
features: names from tools/facts.py tables, e.g. SSE3,PCLMULQDQ or SSE4.2"""
import sys, os, subprocess, tempfile, shutil
sys.path.insert(0, os.path.dirname(os.path.abspath(__file__)))
import facts, asmdb, cbuild, srcset
from common import scratch


def word(tab, feats):
    v = 0
    for b, n in tab.items():
        if n in feats:
            v |= 1 << b
    return v


def main():
    entry = sys.argv[1]
    feats = set(x for x in sys.argv[2].split(',') if x) if len(sys.argv) > 2 else set()
    c1ecx = word(facts.CPUID1_ECX, feats)
    c7ebx = word(facts.CPUID7_EBX, feats)
    c7ecx = word(facts.CPUID7_ECX, feats)
    xcr0 = word(facts.XCR0, feats) | 1
    d = scratch('isalverif-replay-')
    units = asmdb.units('default')
    objs = [u.obj for u in units.values()] + list(cbuild.objs('default').values())
    main_c = os.path.join(d, 'main.c')
    open(main_c, 'w').write('extern void %s(void);\nint main(void){ %s(); return 0; }\n' % (entry, entry))
    exe = os.path.join(d, 'replay')
    subprocess.run(['clang', '-O0', '-g', '-no-pie', '-o', exe, main_c] + objs, check=True)
    gdbpy = os.path.join(d, 'drive.py')
    open(gdbpy, 'w').write('''
import gdb, re
gdb.execute('set pagination off')
gdb.execute('set confirm off')
gdb.execute('break %(entry)s_dispatch_init')
gdb.execute('run')
n = 0
while n < 2000:
    n += 1
    pc = int(gdb.parse_and_eval('$pc'))
    ins = gdb.execute('x/i $pc', to_string=True)
    txt = ins.split(':', 1)[1].strip()
    if txt.startswith('cpuid'):
        leaf = int(gdb.parse_and_eval('$eax')) & 0xffffffff
        sub = int(gdb.parse_and_eval('$ecx')) & 0xffffffff
        gdb.execute('stepi')
        if leaf == 1:
            gdb.execute('set $ecx = %(c1ecx)d')
        elif leaf == 7 and sub == 0:
            gdb.execute('set $ebx = %(c7ebx)d')
            gdb.execute('set $ecx = %(c7ecx)d')
        print('REPLAY cpuid leaf=%%d sub=%%d substituted' %% (leaf, sub))
        continue
    if txt.startswith('xgetbv'):
        gdb.execute('stepi')
        gdb.execute('set $eax = %(xcr0)d')
        gdb.execute('set $edx = 0')
        print('REPLAY xgetbv substituted eax=%%#x' %% %(xcr0)d)
        continue
    m = re.match(r'mov\\s+%%(r\\w+),0x[0-9a-f]+\\(%%rip\\)', txt)
    if m:
        v = int(gdb.parse_and_eval('$' + m.group(1)))
        sym = gdb.execute('info symbol %%d' %% v, to_string=True).strip()
        print('REPLAY-SELECTED %%s' %% sym.split()[0])
        break
    gdb.execute('stepi')
gdb.execute('kill')
gdb.execute('quit')
''' % dict(entry=entry, c1ecx=c1ecx, c7ebx=c7ebx, c7ecx=c7ecx, xcr0=xcr0))
    p = subprocess.run(['gdb', '-q', '-batch', '-x', gdbpy, exe], capture_output=True, text=True)
    for line in p.stdout.splitlines():
        if line.startswith('REPLAY'):
            print(line)
    if 'REPLAY-SELECTED' not in p.stdout:
        print(p.stdout[-2000:], p.stderr[-2000:])
        return 1
    return 0


if __name__ == '__main__':
    sys.exit(main())
