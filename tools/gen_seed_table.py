#!/usr/bin/env python3
"""regenerate the seed table of DESIGN.md from seeded/*/meta.json"""
import json, os, re
V = '/verif'
rows = []
for d in sorted(os.listdir(V + '/seeded')):
    mp = V + '/seeded/%s/meta.json' % d
    if not os.path.isfile(mp):
        continue
    m = json.load(open(mp))
    det = m.get('detected_by') or []
    real = [x for x in det if not x['rules'][0].startswith('ANALYSIS-BROKEN')]
    broken = [x for x in det if x['rules'][0].startswith('ANALYSIS-BROKEN')]
    cell = '; '.join('%s: %s' % (x['check'], ', '.join(r.split('[')[0] if False else r for r in x['rules'][:3])) for x in real) or '**missed**'
    if broken:
        cell += ' (analysis-broken in %s)' % ', '.join(x['check'] for x in broken)
    rows.append('| %s | %s | %s | %s |' % (d, m['property'], m['needs_to_manifest'].replace('|', '/')[:150], cell))
tab = '| seed | breaks | needs, to manifest | reported by |\n|---|---|---|---|\n' + '\n'.join(rows)
p = V + '/DESIGN.md'
s = open(p).read()
s = re.sub(r'<!-- SEED-TABLE-BEGIN -->.*?<!-- SEED-TABLE-END -->', '<!-- SEED-TABLE-BEGIN -->\n' + tab + '\n<!-- SEED-TABLE-END -->', s, flags=re.S)
open(p, 'w').write(s)
print(len(rows), 'seeds')
