"""ASMLIN: whole-function linear-form dataflow for the asm kernels that keep the stream counters in registers and write them back on exit.
Values of general-purpose registers, stack slots and memory cells addressed as (pointer form + constant) are linear forms over atoms:
register contents at entry (`rdi@entry`), memory contents at entry (`M[addr form]`), join atoms (a value that differs between the
predecessors of an instruction) and opaque atoms for everything not modelled.  Stores through addresses that are not (stream | rsp |
loaded-structure pointer) + constant are the kernels' data stores and are assumed not to alias the stream structure or the frame."""
import re
from asmdb import REG64, parse_mem, is_mem, is_cond_jump
from common import AnalysisBroken

IMM = re.compile(r'^(0x[0-9a-f]+|-?\d+)$')


def add(a, b, k=1):
    out = dict(a)
    for s, c in b.items():
        n = out.get(s, 0) + k * c
        if n:
            out[s] = n
        else:
            out.pop(s, None)
    return out


def scale(a, k):
    return {s: c * k for s, c in a.items() if c * k}


def canon(a):
    return tuple(sorted(a.items(), key=lambda kv: str(kv[0])))


def fmt(a):
    if not a:
        return '0'
    out = []
    for k, v in sorted(a.items(), key=lambda kv: str(kv[0])):
        if k == 1:
            out.append('%+d' % v)
            continue
        n = k if isinstance(k, str) else fmt_atom(k)
        out.append(('+' if v == 1 else '-' if v == -1 else '%+d*' % v) + n)
    s = ' '.join(out)
    return s[1:] if s.startswith('+') else s


def fmt_atom(k):
    if k[0] == 'M':
        return 'M[%s]' % fmt(dict(k[1]))
    if k[0] == 'J':
        return '%s@%#x' % (k[2] if isinstance(k[2], str) else 'cell', k[1])
    if k[0] == 'v':
        return 'opaque@%#x' % k[1]
    return str(k)


def const_set(a, oldkeys=()):
    """the finite set of constants a form can take ('old' = the unchanged entry value of a watched cell), or None"""
    if set(a) <= {1}:
        return frozenset([a.get(1, 0)])
    if len(a) == 1:
        (k, c), = a.items()
        if isinstance(k, tuple) and k[0] == 'M' and k[1] in oldkeys and c == 1:
            return frozenset(['old'])
    if len(a) == 1:
        (k, c), = a.items()
        if isinstance(k, tuple) and k[0] == 'set' and c == 1:
            return k[1]
    return None


class Lin:
    def __init__(self, u, f, groups=()):
        self.u, self.f = u, f
        self.IN = {}
        self.rets = []
        self.groups = list(groups)
        self.auto_pairs = False
        self.pairs = []        # [(reg a, reg b)]: registers that move in lockstep (a - b is joined as an invariant)
        self.watch = None      # set of cell keys whose stored values are recorded in self.watched
        self.watched = {}      # [(key of next, key of avail, key of total or None)]: counters that are joined relationally

    def initial(self):
        return {'r': {}, 'm': {}}

    def reg(self, st, r):
        if r not in st['r']:
            st['r'][r] = {r + '@entry': 1}
        return st['r'][r]

    def addr(self, st, op):
        m = parse_mem(op)
        if m is None or m['rip'] or m.get('seg'):
            return None
        v = {}
        if m['base']:
            if m['base'] not in REG64:
                return None
            v = add(v, self.reg(st, REG64[m['base']][0]))
        if m['index']:
            if m['index'] not in REG64:
                return None
            v = add(v, scale(self.reg(st, REG64[m['index']][0]), m['scale'] or 1))
        if m['disp']:
            v = add(v, {1: m['disp']})
        return v

    def cell_ok(self, a):
        """addresses we keep cells for: exactly one pointer atom with coefficient 1 plus a constant"""
        atoms = [k for k in a if k != 1]
        return len(atoms) == 1 and a[atoms[0]] == 1 and (isinstance(atoms[0], str) or atoms[0][0] in ('M', 'J'))

    def load(self, st, op):
        a = self.addr(st, op)
        if a is None or not self.cell_ok(a):
            return None
        k = canon(a)
        if k in st['m']:
            return st['m'][k]
        return {('M', k): 1}

    def val(self, st, op, i):
        if IMM.match(op):
            return {1: int(op, 0)} if int(op, 0) else {}
        if is_mem(op):
            v = self.load(st, op)
            return v if v is not None else {('v', i.addr): 1}
        g = REG64.get(op)
        if g:
            return self.reg(st, g[0])
        return {('v', i.addr): 1}

    def step(self, i, st):
        mn, ops = i.mn, i.ops
        if is_cond_jump(mn) or mn in ('jmp', 'ret', 'nop', 'endbr64', 'cmp', 'test', 'vzeroupper') or mn.startswith(('prefetch', 'bt')) or not ops:
            return
        if mn in ('or', 'and') and len(ops) == 2 and ops[0] == ops[1] and REG64.get(ops[0], (None, 0))[1] == 64:
            return          # flag-setting idiom, the register keeps its value
        fresh = {('v', i.addr): 1}
        if mn == 'push':
            rsp = add(self.reg(st, 'rsp'), {1: -8})
            st['r']['rsp'] = rsp
            st['m'][canon(rsp)] = self.val(st, ops[0], i)
            return
        if mn == 'pop':
            rsp = self.reg(st, 'rsp')
            v = st['m'].get(canon(rsp), {('M', canon(rsp)): 1})
            g = REG64.get(ops[0])
            st['r']['rsp'] = add(rsp, {1: 8})
            if g:
                st['r'][g[0]] = v
            return
        dmem = is_mem(ops[0])
        g = REG64.get(ops[0]) if not dmem else None
        if not dmem and g is None:
            return          # vector / mask destination
        res = None
        if mn == 'mov' and len(ops) == 2:
            res = self.val(st, ops[1], i)
        elif mn in ('movzx', 'movsx', 'movsxd') and len(ops) == 2:
            res = fresh
        elif mn == 'lea' and len(ops) == 2:
            res = self.addr(st, ops[1]) or fresh
        elif mn in ('add', 'sub') and len(ops) == 2:
            cur = self.val(st, ops[0], i)
            res = add(cur, self.val(st, ops[1], i), 1 if mn == 'add' else -1)
        elif mn in ('inc', 'dec'):
            res = add(self.val(st, ops[0], i), {1: 1 if mn == 'inc' else -1})
        elif mn == 'neg':
            res = scale(self.val(st, ops[0], i), -1)
        elif mn == 'shl' and len(ops) == 2 and IMM.match(ops[1]) and int(ops[1], 0) < 16:
            res = scale(self.val(st, ops[0], i), 1 << int(ops[1], 0))
        elif mn == 'imul' and len(ops) == 3 and IMM.match(ops[2]):
            res = scale(self.val(st, ops[1], i), int(ops[2], 0))
        elif mn == 'xor' and len(ops) == 2 and ops[0] == ops[1]:
            res = {}
        elif mn == 'xchg' and len(ops) == 2 and not dmem and REG64.get(ops[1]):
            a, b = self.val(st, ops[0], i), self.val(st, ops[1], i)
            st['r'][g[0]] = b
            st['r'][REG64[ops[1]][0]] = a
            return
        elif mn.startswith('cmov') and len(ops) == 2:
            a, b = self.val(st, ops[0], i), self.val(st, ops[1], i)
            if canon(a) == canon(b):
                res = a
            else:
                sa, sb = const_set(a, self.watch or ()), const_set(b, self.watch or ())
                res = {('set', frozenset(sa | sb)): 1} if sa is not None and sb is not None and len(sa | sb) <= 6 else fresh
        else:
            res = fresh
        if len(res) > 12:
            res = fresh
        if dmem:
            a = self.addr(st, ops[0])
            if a is not None and self.cell_ok(a):
                st['m'][canon(a)] = res
                if self.watch is not None and canon(a) in self.watch:
                    self.watched.setdefault(canon(a), []).append((i, res))
            return
        st['r'][g[0]] = res
        # implicit destinations
        if mn in ('mul', 'div', 'idiv') or (mn == 'imul' and len(ops) == 1):
            st['r']['rax'] = fresh
            st['r']['rdx'] = {('v', i.addr, 'd'): 1}

    def join(self, a, b, addr):
        if a is None:
            return {'r': dict(b['r']), 'm': dict(b['m'])}, True
        ch = False
        out = {'r': {}, 'm': {}}
        rdone = set()
        masters = set()
        for pr in self.pairs:
            ra, rb, sg = pr if len(pr) == 3 else (pr[0], pr[1], 1)      # invariant ra - sg * rb; rb is the master and may serve several ra
            if ra in rdone or (rb in rdone and rb not in masters):
                continue
            xa, ya = a['r'].get(ra, {ra + '@entry': 1}), a['r'].get(rb, {rb + '@entry': 1})
            xb, yb = b['r'].get(ra, {ra + '@entry': 1}), b['r'].get(rb, {rb + '@entry': 1})
            if canon(xa) == canon(xb) and canon(ya) == canon(yb):
                continue
            if canon(ya) == canon(yb) or canon(add(xa, ya, -sg)) != canon(add(xb, yb, -sg)):
                continue
            J = {('J', addr, rb): 1}
            out['r'][rb] = J
            out['r'][ra] = add(scale(J, sg), add(xa, ya, -sg))
            rdone |= {ra, rb}
            masters.add(rb)
            if canon(out['r'][rb]) != canon(ya) or canon(out['r'][ra]) != canon(xa):
                ch = True
        if self.auto_pairs:
            # greedy partition of the registers that differ into lockstep classes: r - sg * master is the same on both sides
            def g(st, r):
                return st['r'].get(r, {r + '@entry': 1})
            diff = sorted(r for r in (set(a['r']) | set(b['r'])) - rdone if canon(g(a, r)) != canon(g(b, r)))
            while diff:
                m = diff.pop(0)
                J = {('J', addr, m): 1}
                out['r'][m] = J
                rdone.add(m)
                if canon(J) != canon(g(a, m)):
                    ch = True
                for r in list(diff):
                    for sg in (1, -1):
                        if canon(add(g(a, r), g(a, m), -sg)) == canon(add(g(b, r), g(b, m), -sg)):
                            out['r'][r] = add(scale(J, sg), add(g(a, r), g(a, m), -sg))
                            rdone.add(r)
                            diff.remove(r)
                            if canon(out['r'][r]) != canon(g(a, r)):
                                ch = True
                            break
        for r in (set(a['r']) | set(b['r'])) - rdone:
            x = a['r'].get(r, {r + '@entry': 1})
            y = b['r'].get(r, {r + '@entry': 1})
            if canon(x) == canon(y):
                out['r'][r] = x
            else:
                out['r'][r] = {('J', addr, r): 1}
            if canon(out['r'][r]) != canon(x):
                ch = True
        done = set()
        for gi, (kn, ka, kt) in enumerate(self.groups):
            def get(st, k):
                return st['m'].get(k, {('M', k): 1})
            fa = [get(a, k) if k else None for k in (kn, ka, kt)]
            fb = [get(b, k) if k else None for k in (kn, ka, kt)]
            if all(x is None or canon(x) == canon(y) for x, y in zip(fa, fb)):
                continue
            def inv(fv):
                N, A, T = fv
                return (canon(add(T, N, -1)), canon(add(T, A))) if T is not None else (canon(add(N, A)),)
            if inv(fa) != inv(fb):
                continue
            N, A, T = fa
            J = {('J', addr, 'next#%d' % gi): 1}
            if T is not None:
                newT = add(J, add(T, N, -1))
                newA = add(add(T, A), newT, -1)
                vals = {kn: J, ka: newA, kt: newT}
            else:
                vals = {kn: J, ka: add(add(N, A), J, -1)}
            for k, v in vals.items():
                out['m'][k] = v
                done.add(k)
                if k not in a['m'] or canon(a['m'][k]) != canon(v):
                    ch = True
        for k in (set(a['m']) | set(b['m'])) - done:
            x = a['m'].get(k, {('M', k): 1})
            y = b['m'].get(k, {('M', k): 1})
            if canon(x) == canon(y):
                out['m'][k] = x
            else:
                out['m'][k] = {('J', addr, k): 1}
            if k not in a['m'] or canon(out['m'][k]) != canon(x):
                ch = True
        return out, ch

    def run(self):
        u, f = self.u, self.f
        preds = {}
        for a in f.addrs:
            for s_ in u.succ(f, a):
                preds.setdefault(s_, []).append(a)
        OUT = {}
        heads = {}
        for a in f.addrs:
            i = u.insns[a]
            if (is_cond_jump(i.mn) or i.mn == 'jmp') and i.target is not None and i.target <= a and i.target in f.aset:
                heads[i.target] = max(heads.get(i.target, a), a)
        self.IN = {f.entry: self.initial()}
        work = [f.entry]
        n = 0

        def same(x, y):
            return x is not None and y is not None and x['r'].keys() == y['r'].keys() and x['m'].keys() == y['m'].keys() and \
                all(canon(x['r'][k]) == canon(y['r'][k]) for k in x['r']) and all(canon(x['m'][k]) == canon(y['m'][k]) for k in x['m'])
        while work:
            a = work.pop()
            n += 1
            if n > 400000:
                raise AnalysisBroken('asmlin: no fixpoint in %s' % f.name)
            # the state before a: join of the CURRENT out-states of its predecessors
            if a != f.entry:
                cur = None
                for p_ in preds.get(a, []):
                    if p_ in OUT:
                        cur = self.join(cur, OUT[p_], a)[0]
                if cur is None:
                    continue
                self.IN[a] = cur
            st = {'r': dict(self.IN[a]['r']), 'm': dict(self.IN[a]['m'])}
            i = u.insns[a]
            if i.mn == 'call':
                raise AnalysisBroken('asmlin: %s calls out' % f.name)
            self.step(i, st)
            if same(OUT.get(a), st):
                continue
            OUT[a] = st
            for s_ in u.succ(f, a):
                if s_ not in work:
                    work.append(s_)
        self.resolve_self_atoms(preds, OUT)
        for a in f.addrs:
            if u.insns[a].mn == 'ret' and a in self.IN:
                self.rets.append((u.insns[a], self.IN[a]))
        return self

    def resolve_self_atoms(self, preds, OUT):
        """at the fixpoint, a join atom J@(a, r) all of whose incoming values are either one and the same form x or the atom itself (a back edge that leaves r
        alone - it was only joined with a value that has stopped arriving) IS x, by induction over the arrivals at a: substitute it everywhere.  This is what an
        iteration strategy that stabilises inner loops from scratch would have computed; done as a post-pass it cannot disturb termination."""
        def subst(form, atom, x):
            c = form.get(atom)
            if not c:
                return form
            out = dict(form)
            del out[atom]
            return add(out, x, c)
        for _ in range(200):
            todo = []
            for a, st in self.IN.items():
                ps = [OUT[p_] for p_ in preds.get(a, []) if p_ in OUT]
                if len(ps) < 2:
                    continue
                for kind in ('r', 'm'):
                    for r, v in st[kind].items():
                        atom = ('J', a, r)
                        if v != {atom: 1}:
                            continue
                        vals = [s_[kind].get(r, {r + '@entry': 1} if kind == 'r' else {('M', r): 1}) for s_ in ps]
                        others = [x for x in vals if x != {atom: 1}]
                        if others and len(others) < len(vals) and all(canon(o) == canon(others[0]) for o in others) and atom not in others[0]:
                            todo.append((atom, others[0]))
            if not todo:
                break
            while todo:
                atom, x = todo.pop(0)
                if atom in x:
                    continue
                todo = [(a2, subst(x2, atom, x)) for a2, x2 in todo]
                for states in (self.IN, OUT):
                    for st in states.values():
                        for kind in ('r', 'm'):
                            for r in list(st[kind]):
                                if atom in st[kind][r]:
                                    st[kind][r] = subst(st[kind][r], atom, x)
                for k, lst in self.watched.items():
                    self.watched[k] = [(i, subst(v, atom, x)) for i, v in lst]

    def field(self, st, base_reg, off):
        """value of the cell [base_reg@entry + off] in state st"""
        k = canon({base_reg + '@entry': 1, **({1: off} if off else {})})
        return st['m'].get(k, {('M', k): 1}), {('M', k): 1}


def check(rep, side, floor, off, pattern, icf=None):
    """side: 'DEFLATE' (struct isal_zstream in rdi) or 'INFLATE' (struct inflate_state in rdi)"""
    import asmdb
    R = rep.rule('R-ACCT-BALANCE-ASM-' + side, 'asm kernels that keep the stream counters in registers: at every return, total_X - next_X and total_X + avail_X (next_X + avail_X where there is no total) '
                 'equal their values at entry - whole-function linear-form dataflow over registers, stack slots and the stream\'s fields, counters joined relationally, every exit path included '
                 '(an exit that forgets to undo a loop\'s slop adjustment shows up as a join of two different buffer ends)', floor=floor, unit='kernel returns x invariants')
    units = asmdb.units('default')
    n = 0
    for un, u in sorted(units.items()):
        for fn, f in sorted(u.funcs.items()):
            if not re.match(pattern, fn):
                continue
            n += 1

            def key(o):
                return canon({'rdi@entry': 1, **({1: o} if o else {})})
            groups = [(key(off['next_in']), key(off['avail_in']), key(off['total_in']) if 'total_in' in off else None),
                      (key(off['next_out']), key(off['avail_out']), key(off['total_out']) if 'total_out' in off else None)]
            icf_keys = None
            if icf and '_icf_' in fn:
                lb = ('M', key(icf['level_buf']))
                icf_keys = (canon({lb: 1, 1: icf['icf_buf_next']}), canon({lb: 1, 1: icf['icf_buf_avail_out']}))
                groups.append((icf_keys[0], icf_keys[1], None))
            L = Lin(u, f, groups).run()
            if not L.rets:
                raise AnalysisBroken('asmlin: %s has no reachable ret' % fn)
            for ri, st in L.rets:
                vals = {}
                for nm, o in off.items():
                    v, e = L.field(st, 'rdi', o)
                    vals[nm] = add(v, e, -1)
                for d in ('in', 'out'):
                    N, A, T = vals['next_' + d], vals['avail_' + d], vals.get('total_' + d)
                    invs = [('total_%s - next_%s' % (d, d), add(T, N, -1)), ('total_%s + avail_%s' % (d, d), add(T, A))] if T is not None else [('next_%s + avail_%s' % (d, d), add(N, A))]
                    for name, form in invs:
                        R.instance()
                        R.check(not form, '%s: %s' % (un, u.where(ri, f)), '%s: at this return %s differs from its entry value by %s: the caller gets counters that no longer describe its buffer' % (fn, name, fmt(form)),
                                key='R-ACCT-ASM|%s|%#x|%s' % (fn, ri.addr - f.entry, name), sample='%s: %s preserved' % (fn, name) if d == 'in' else None)
                if icf_keys:
                    vN = st['m'].get(icf_keys[0], {('M', icf_keys[0]): 1})
                    vA = st['m'].get(icf_keys[1], {('M', icf_keys[1]): 1})
                    form = add(add(vN, vA), add({('M', icf_keys[0]): 1}, {('M', icf_keys[1]): 1}), -1)
                    R.instance()
                    R.check(not form, '%s: %s' % (un, u.where(ri, f)), '%s: at this return level_buf->icf_buf_next + icf_buf_avail_out differs from its entry value by %s: the token buffer bookkeeping no longer describes the buffer'
                            % (fn, fmt(form)), key='R-ACCT-ASM|%s|%#x|icf' % (fn, ri.addr - f.entry), sample='%s: icf_buf_next + icf_buf_avail_out preserved' % fn)
    if n == 0:
        raise AnalysisBroken('asmlin: no kernel matches %s' % pattern)
    R.notes.append('%d kernels' % n)


def check_state_siblings(rep, suffix, mod, families, field_off, entry_states, floor):
    """families: {C sibling: regex of asm siblings}.  The constants each implementation may store into the state field."""
    import asmdb, irrules
    R = rep.rule('R-STATE-SIBLINGS-' + suffix, 'implementations that share a dispatch slot agree on the state machine: every constant an asm kernel may store into the state field (immediates, also through cmov) is one the '
                 'portable sibling stores, or the state the kernel is entered in; and every state the portable sibling can produce can be produced by each asm sibling', floor=floor, unit='asm kernels')
    units = asmdb.units('default')

    def cset(f, v, depth=0):
        if re.match(r'^-?\d+$', v):
            return {int(v)}
        d = f.defs.get(irrules._strip(f, v))
        if d is None or depth > 6:
            return None
        if d.op == 'select':
            a, b = cset(f, d.ops[1], depth + 1), cset(f, d.ops[2], depth + 1)
            return None if a is None or b is None else a | b
        if d.op == 'phi':
            out = set()
            for x, _ in d.extra['incoming']:
                c = cset(f, x, depth + 1)
                if c is None:
                    return None
                out |= c
            return out
        return None
    for base, pat in sorted(families.items()):
        f = mod.funcs.get(base)
        if f is None:
            raise AnalysisBroken(base + ' not found in the linked IR')
        P = irrules.prov(mod, f)
        bset = set()
        for i in f.all_insns():
            if i.op == 'store' and P.atoms(i.ops[1]) == {('param', 0, field_off)}:
                c = cset(f, i.ops[0])
                if c is None:
                    raise AnalysisBroken('%s stores a non-constant state' % base)
                bset |= c
        if not bset:
            raise AnalysisBroken('%s never stores the state field' % base)
        k = canon({'rdi@entry': 1, 1: field_off})
        n = 0
        for un, u in sorted(units.items()):
            for fn, fa in sorted(u.funcs.items()):
                if not re.match(pat, fn):
                    continue
                n += 1
                R.instance()
                L = Lin(u, fa)
                L.watch = {k}
                L.run()
                aset, unknown = set(), []
                for i, v in L.watched.get(k, []):
                    cs = const_set(v, {k})
                    if cs is None:
                        unknown.append(i)
                    else:
                        aset |= set(x for x in cs if x != 'old')
                allowed = bset | set(entry_states.get(base, ()))
                if unknown:
                    # a store of a value we cannot enumerate: acceptable only if it is the reloaded old state; report otherwise
                    R.fail('%s: %s' % (un, u.where(unknown[0], fa)), '%s stores a state value that is not a known constant' % fn, key='R-STATE-SIBLINGS|%s|unknown' % fn)
                    continue
                extra, missing = aset - allowed, bset - aset
                R.check(not extra and not missing, '%s:%s' % (un, fn), '%s may store states %s; the portable sibling %s stores %s%s: %s' %
                        (fn, sorted(aset), base, sorted(bset), (' (entered in state %s)' % sorted(entry_states[base])) if base in entry_states else '',
                         ('states %s are never produced by the portable version' % sorted(extra)) if extra else ('it can never produce %s' % sorted(missing))),
                        key='R-STATE-SIBLINGS|%s' % fn, sample='%s: %s vs %s %s' % (fn, sorted(aset), base, sorted(bset)))
        if n == 0:
            raise AnalysisBroken('no asm sibling of %s' % base)
