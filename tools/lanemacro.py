"""M-LANE-MACRO: the byte-granular load/store macros of include/memcpy.asm (simd_load_avx2 / simd_store_avx2: "move SIZE bytes, 0 <= SIZE <= 32, between memory and a
vector register with a ladder of byte inserts / halving stores").  Every expansion found in a kernel (maximal runs of instructions whose DWARF line lies in memcpy.asm,
split where the line number restarts) is decided by PARTITIONED constant propagation: the abstract state is partitioned by the value of the SIZE register, 0..32; within a
partition every scalar that depends only on SIZE is a constant and every branch of the macro is decided, pointers stay symbolic (base register at entry + constant),
vector registers and scalars that hold data are arrays of byte-lane tags (zero | byte j of input register v | memory byte base+k).  The obligation per partition:
  load  instance: lane j of the result is memory byte base+j for j < SIZE and zero for j >= SIZE, nothing is stored;
  store instance: memory bytes base+0 .. base+SIZE-1 receive lanes 0 .. SIZE-1 of the input register, each once, and nothing else is stored.
No instruction is executed and memory contents are never concrete.  The summaries (base register, data register, SIZE register) are used by V-SAME-OFFSET, and
R-TAIL-SIZE ties base offset + SIZE to len@entry with the linear forms of tools/asmlin.py."""
import re, os
from asmdb import is_mem, parse_mem, REG64, VREG
from common import AnalysisBroken
import asmlin, provenance
from earlypass import LEN_ARG

IMM = re.compile(r'^(0x[0-9a-f]+|\d+)$')


class Unmodelled(Exception):
    pass


def is_macro(i):
    return bool(i.line and i.line[0].endswith('memcpy.asm'))


def instances(u, f):
    """-> [(first address, exit address, [addresses])]"""
    out, cur, last = [], [], None
    for a in f.addrs:
        i = u.insns[a]
        if is_macro(i):
            if cur and (i.line[1] < last or u.insns[cur[-1]].end != a):
                out.append(cur)
                cur = []
            cur.append(a)
            last = i.line[1]
        else:
            if cur:
                out.append(cur)
                cur = []
    if cur:
        out.append(cur)
    return [(c[0], u.insns[c[-1]].end, c) for c in out]


def vnum(op):
    m = VREG.match(op.strip())
    return (int(m.group(2)), {'x': 16, 'y': 32, 'z': 64}[m.group(1)]) if m else None


def run_partition(u, addrs, exit_addr, size_reg, s):
    """abstract run of one macro instance with SIZE = s.  -> (vector state, stores [(key, off, tag)], loads seen)"""
    aset = set(addrs)
    g = {size_reg: ('c', s)}
    v = {}
    stores, loads = [], []
    flags = None

    def greg(r):
        r64, w = REG64[r]
        x = g.get(r64)
        if x is None:
            x = ('p', (r64,), 0)
        return x, w

    def vget(n):
        if n not in v:
            v[n] = [('in', n, j) for j in range(32)]
        return v[n]

    def maddr(op):
        m = parse_mem(op)
        if m is None or m['rip'] or m.get('seg'):
            raise Unmodelled('address ' + op)
        key, off = [], m['disp'] or 0
        for r, sc in ((m['base'], 1), (m['index'], m['scale'] or 1)):
            if not r:
                continue
            x, w = greg(r)
            if w != 64:
                raise Unmodelled('address ' + op)
            if x[0] == 'c':
                off += x[1] * sc
            elif x[0] == 'p' and sc == 1:
                key += list(x[1])
                off += x[2]
            else:
                raise Unmodelled('address ' + op)
        return tuple(sorted(key)), off

    def mbytes(op, n):
        key, off = maddr(op)
        loads.append((key, off, n))
        return [('mem', key, off + j) for j in range(n)]
    a = addrs[0]
    steps = 0
    while a != exit_addr:
        if a not in aset:
            raise Unmodelled('control leaves the expansion at %#x' % a)
        steps += 1
        if steps > 400:
            raise Unmodelled('no exit')
        i = u.insns[a]
        mn, ops = i.mn, i.ops
        nxt = i.end
        if mn == 'jmp':
            nxt = i.target
        elif mn.startswith('j'):
            if flags is None:
                raise Unmodelled('branch on a value that is not a function of SIZE: ' + i.text)
            k, x, y = flags
            if k == 'cmp':
                d = x - y
                cond = {'je': d == 0, 'jz': d == 0, 'jne': d != 0, 'jnz': d != 0, 'jb': x < y, 'jae': x >= y, 'jbe': x <= y, 'ja': x > y, 'jl': x < y, 'jge': x >= y, 'jle': x <= y, 'jg': x > y}.get(mn)
            else:
                r_ = x & y if k == 'test' else x
                cond = {'je': r_ == 0, 'jz': r_ == 0, 'jne': r_ != 0, 'jnz': r_ != 0}.get(mn)
            if cond is None:
                raise Unmodelled(i.text)
            if cond:
                nxt = i.target
        elif mn in ('test', 'cmp', 'or', 'and') and len(ops) == 2 and ops[0] in REG64 and (IMM.match(ops[1]) or ops[1] in REG64):
            x, w = greg(ops[0])
            y = ('c', int(ops[1], 0)) if IMM.match(ops[1]) else greg(ops[1])[0]
            if x[0] != 'c' or y[0] != 'c':
                raise Unmodelled('flags from a value that is not a function of SIZE: ' + i.text)
            if mn in ('or', 'and'):
                val = (x[1] | y[1]) if mn == 'or' else (x[1] & y[1])
                g[REG64[ops[0]][0]] = ('c', val)
                flags = ('val', val, 0)
            else:
                flags = (mn, x[1], y[1])
        elif mn == 'xor' and len(ops) == 2 and ops[0] == ops[1] and ops[0] in REG64:
            g[REG64[ops[0]][0]] = ('c', 0)
            flags = ('val', 0, 0)
        elif mn == 'lea' and ops[0] in REG64 and REG64[ops[0]][1] == 64:
            key, off = maddr(ops[1])
            g[ops[0]] = ('p', key, off) if key else ('c', off)
        elif mn == 'mov' and len(ops) == 2 and ops[0] in REG64 and ops[1] in REG64 and REG64[ops[0]][1] == 64:
            g[ops[0]] = greg(ops[1])[0]
        elif mn in ('add', 'sub') and ops[0] in REG64 and REG64[ops[0]][1] == 64 and IMM.match(ops[1]):
            x, _ = greg(ops[0])
            k = int(ops[1], 0) * (1 if mn == 'add' else -1)
            if x[0] == 'c':
                g[ops[0]] = ('c', x[1] + k)
                flags = ('val', x[1] + k, 0)
            elif x[0] == 'p':
                g[ops[0]] = ('p', x[1], x[2] + k)
                flags = None
            else:
                raise Unmodelled(i.text)
        elif mn in ('shr',) and ops[0] in REG64 and REG64[ops[0]][1] == 64 and IMM.match(ops[1]):
            x, _ = greg(ops[0])
            k = int(ops[1], 0)
            if x[0] == 'd' and k % 8 == 0:
                g[ops[0]] = ('d', x[1][k // 8:] + ['Z'] * (k // 8))
                flags = None
            elif x[0] == 'c':
                g[ops[0]] = ('c', x[1] >> k)
                flags = ('val', x[1] >> k, 0)
            else:
                raise Unmodelled(i.text)
        elif mn in ('vpxor', 'vpxord', 'vpxorq', 'pxor') and vnum(ops[0]) and all(o == ops[0] for o in ops[1:]):
            v[vnum(ops[0])[0]] = ['Z'] * 32
        elif mn in ('vmovdqu', 'vmovdqa', 'vmovdqu8') and vnum(ops[0]) and is_mem(ops[1]):
            n, w = vnum(ops[0])
            v[n] = mbytes(ops[1], w) + ['Z'] * (32 - w)
        elif mn in ('vmovdqu', 'vmovdqa', 'vmovdqu8') and is_mem(ops[0]) and vnum(ops[1]):
            n, w = vnum(ops[1])
            key, off = maddr(ops[0])
            for j in range(w):
                stores.append((key, off + j, vget(n)[j]))
        elif mn in ('vpinsrb', 'vpinsrw', 'vpinsrd', 'vpinsrq') and len(ops) == 4 and vnum(ops[0]) and vnum(ops[1]) and is_mem(ops[2]) and IMM.match(ops[3]):
            n, _ = vnum(ops[0])
            esz = {'b': 1, 'w': 2, 'd': 4, 'q': 8}[mn[-1]]
            k = int(ops[3], 0)
            src = list(vget(vnum(ops[1])[0]))[:16]
            src[k * esz:(k + 1) * esz] = mbytes(ops[2], esz)
            v[n] = src + ['Z'] * 16
        elif mn == 'vinserti128' and len(ops) == 4 and vnum(ops[0]) and vnum(ops[1]) and IMM.match(ops[3]):
            n, _ = vnum(ops[0])
            base = list(vget(vnum(ops[1])[0]))
            ins = mbytes(ops[2], 16) if is_mem(ops[2]) else list(vget(vnum(ops[2])[0]))[:16]
            h = int(ops[3], 0) & 1
            base[16 * h:16 * h + 16] = ins
            v[n] = base
        elif mn == 'vperm2i128' and len(ops) == 4 and all(vnum(o) for o in ops[:3]) and IMM.match(ops[3]):
            n, _ = vnum(ops[0])
            A, Bv = list(vget(vnum(ops[1])[0])), list(vget(vnum(ops[2])[0]))
            im = int(ops[3], 0)
            halves = [A[:16], A[16:], Bv[:16], Bv[16:]]
            lo = ['Z'] * 16 if im & 0x08 else halves[im & 3]
            hi = ['Z'] * 16 if im & 0x80 else halves[(im >> 4) & 3]
            v[n] = lo + hi
        elif mn in ('vpsrldq', 'psrldq') and vnum(ops[0]) and IMM.match(ops[-1]):
            n, w = vnum(ops[0])
            srcv = list(vget(vnum(ops[1])[0] if len(ops) == 3 else n))
            k = int(ops[-1], 0)
            lo = srcv[:16][k:] + ['Z'] * min(k, 16)
            v[n] = lo + (['Z'] * 16 if mn.startswith('v') else srcv[16:])
        elif mn in ('vmovq', 'movq') and is_mem(ops[0]) and vnum(ops[1]):
            key, off = maddr(ops[0])
            for j in range(8):
                stores.append((key, off + j, vget(vnum(ops[1])[0])[j]))
        elif mn in ('vmovq', 'movq') and ops[0] in REG64 and REG64[ops[0]][1] == 64 and vnum(ops[1]):
            g[ops[0]] = ('d', list(vget(vnum(ops[1])[0])[:8]))
        elif mn == 'mov' and is_mem(ops[0]) and ops[1] in REG64:
            x, w = greg(ops[1])
            if x[0] != 'd':
                raise Unmodelled(i.text)
            key, off = maddr(ops[0])
            for j in range(w // 8):
                stores.append((key, off + j, x[1][j]))
        else:
            raise Unmodelled(i.text)
        a = nxt
    return v, stores, loads


def summarise(u, f, inst):
    first, exit_addr, addrs = inst
    size_reg = None
    for a in addrs[:3]:
        i = u.insns[a]
        if i.mn == 'test' and i.ops[0] in REG64 and IMM.match(i.ops[1]) and int(i.ops[1], 0) == 32:
            size_reg = REG64[i.ops[0]][0]
            break
    if size_reg is None:
        raise Unmodelled('no "test SIZE, 32" at the head of the expansion')
    kind = 'store' if any(u.insns[a].ops and is_mem(u.insns[a].ops[0]) and u.insns[a].mn not in ('test', 'cmp') for a in addrs) else 'load'
    base = vreg = None
    bad = []
    runs = {}
    for s in range(33):
        runs[s] = run_partition(u, addrs, exit_addr, size_reg, s)
    # the base pointer and the data register are read off the full-size partition
    v, stores, loads = runs[32]
    if kind == 'load':
        if stores or not loads:
            raise Unmodelled('a load expansion that stores, or loads nothing at SIZE = 32')
        base = (loads[0][0], min(o for _, o, _ in loads))
        written = [n for n, lanes in v.items() if any(t != ('in', n, j) for j, t in enumerate(lanes))]
        if len(written) != 1:
            raise Unmodelled('a load expansion writes %d vector registers' % len(written))
        vreg = written[0]
    else:
        if not stores:
            raise Unmodelled('a store expansion stores nothing at SIZE = 32')
        base = (stores[0][0], min(o for _, o, _ in stores))
        ins = {t[1] for _, _, t in stores if isinstance(t, tuple) and t[0] == 'in'}
        if len(ins) != 1:
            raise Unmodelled('a store expansion whose data come from %d registers' % len(ins))
        vreg = list(ins)[0]
    for s in range(33):
        v, stores, loads = runs[s]
        if kind == 'load':
            if stores:
                bad.append((s, 'a load expansion stores to memory'))
                continue
            lanes = v.get(vreg, [('in', vreg, j) for j in range(32)])
            for j in range(32):
                want = ('mem', base[0], base[1] + j) if j < s else 'Z'
                if lanes[j] != want:
                    bad.append((s, 'lane %d holds %s, expected %s' % (j, fmt_tag(lanes[j]), fmt_tag(want))))
                    break
            other = [n for n, ln in v.items() if n != vreg and any(t != ('in', n, j) for j, t in enumerate(ln))]
            if other:
                bad.append((s, 'ymm%d is clobbered' % other[0]))
        else:
            got = {}
            for k_, o, t in stores:
                if k_ != base[0]:
                    bad.append((s, 'a store through another pointer (%s)' % '+'.join(k_)))
                    continue
                if o in got:
                    bad.append((s, 'memory byte base%+d is stored twice' % (o - base[1])))
                got[o] = t
            want = {base[1] + j: ('in', vreg, j) for j in range(s)}
            if got != want:
                d = sorted(set(got) ^ set(want)) or sorted(o for o in got if got[o] != want[o])
                o = d[0]
                bad.append((s, 'memory byte base%+d receives %s, expected %s' % (o - base[1], fmt_tag(got.get(o, 'nothing')), fmt_tag(want.get(o, 'nothing')))))
    return dict(kind=kind, base=base, vreg=vreg, size_reg=size_reg, first=first, exit=exit_addr, bad=bad)


def fmt_tag(t):
    if t == 'Z':
        return 'zero'
    if isinstance(t, tuple) and t[0] == 'mem':
        return 'memory byte %s%+d' % ('+'.join(t[1]), t[2])
    if isinstance(t, tuple) and t[0] == 'in':
        return 'lane %d of the input ymm%d' % (t[2], t[1])
    return str(t)


_cache = {}


def summaries(sym, info):
    if sym in _cache:
        return _cache[sym]
    u, f = info['unit'], info['func']
    out = []
    for inst in instances(u, f):
        try:
            out.append(summarise(u, f, inst))
        except Unmodelled as e:
            raise AnalysisBroken('M-LANE-MACRO: %s: the memcpy.asm expansion at %s is not modelled: %s' % (sym, u.where(u.insns[inst[0]], f), e))
    _cache[sym] = out
    return out


def check(rep, suffix, families, floor):
    R = rep.rule('M-LANE-MACRO-' + suffix, 'every expansion of the byte-granular load/store macros of include/memcpy.asm in these kernels moves exactly SIZE bytes, lane j <-> memory byte base+j, for every SIZE in 0..32 '
                 '(state partitioned by SIZE; scalars that depend only on SIZE are constants, pointers symbolic, vector registers and data scalars arrays of byte-lane tags): a load leaves zero in the lanes >= SIZE and stores '
                 'nothing, a store writes each of the SIZE bytes once and nothing else', floor=floor, unit='(expansion, size) partitions')
    T = rep.rule('R-TAIL-SIZE-' + suffix, 'at every such expansion, offset of the base pointer + SIZE = len@entry (whole-function linear forms): the byte-granular tail covers exactly the bytes that remain', floor=floor // 33,
                 unit='expansions')
    G = rep.rule('R-TAIL-RANGE-' + suffix, 'at every such expansion the SIZE register lies in 0..32 on every path that reaches it (constant intervals of the count register with branch refinement and widening, '
                 'tools/remint.py): the block dispatch in front of the tail never hands it more than the one vector it can move', floor=max(1, floor // 33), unit='expansions')
    import remint
    res, _ = provenance.analyse('default')
    nk = 0
    for sym, info in sorted(res.items()):
        if info['fam']['family'] not in families:
            continue
        u, f = info['unit'], info['func']
        sm = summaries(sym, info)
        if not sm:
            continue
        nk += 1
        lenreg = LEN_ARG[info['fam']['family']]
        RI = remint.RemInt(u, f, lenreg)
        RI.run()
        for s_ in sm:
            stR = RI.IN.get(s_['first'])
            v = stR['r'].get(s_['size_reg']) if stR is not None and s_['size_reg'] not in stR['src'] else None
            if v is None or v[0] == -remint.inf or v[1] == remint.inf:
                G.notes.append('%s: %s expansion at %s: SIZE not bounded by the interval domain (not decided)' % (sym, s_['kind'], u.where(u.insns[s_['first']], f)))
                continue
            G.instance()
            G.check(0 <= v[0] and v[1] <= 32, '%s: %s' % (u.name, u.where(u.insns[s_['first']], f)), '%s: the %s expansion is reached with SIZE in [%d, %d]; the macro moves at most one 32-byte vector (it tests the '
                    'bits of SIZE below 32), so the bytes beyond it are neither multiplied nor stored' % (sym, s_['kind'], v[0], v[1]), key='R-TAIL-RANGE|%s|%#x' % (sym, s_['first'] - f.entry),
                    sample='%s: SIZE in [%d, %d]' % (sym, v[0], v[1]) if sym.startswith('gf_2vect') else None)
        L = asmlin.Lin(u, f)
        L.auto_pairs = True
        L.run()
        for s_ in sm:
            i = u.insns[s_['first']]
            w = '%s: %s' % (u.name, u.where(i, f))
            bads = dict()
            for sz, what in s_['bad']:
                bads.setdefault(sz, what)
            for sz in range(33):
                R.instance()
                R.check(sz not in bads, w, '%s: %s expansion with SIZE = %d: %s' % (sym, s_['kind'], sz, bads.get(sz)), key='M-LANE-MACRO|%s|%#x|%d' % (sym, s_['first'] - f.entry, sz),
                        sample='%s: %s of SIZE bytes at %s' % (sym, s_['kind'], '+'.join(s_['base'][0])) if sz == 13 and sym.startswith('gf_2vect') else None)
            st = L.IN.get(s_['first'])
            T.instance()
            if st is None:
                raise AnalysisBroken('R-TAIL-SIZE: no state at %s' % w)
            S = {'r': dict(st['r']), 'm': dict(st['m'])}
            addr = {1: s_['base'][1]} if s_['base'][1] else {}
            for r1 in s_['base'][0]:
                addr = asmlin.add(addr, L.reg(S, r1))
            import samecell
            sp = samecell.split(addr, lenreg)
            if sp is None:
                raise AnalysisBroken('R-TAIL-SIZE: %s: the base of the expansion at %s is not pointer + offset' % (sym, w))
            tot = asmlin.add(asmlin.add(dict(sp[1]), L.reg(S, s_['size_reg'])), {lenreg + '@entry': 1}, -1)
            T.check(not tot, w, '%s: the %s expansion handles SIZE = %s bytes at offset %s: offset + SIZE - len@entry = %s, not 0' %
                    (sym, s_['kind'], asmlin.fmt(L.reg(S, s_['size_reg'])), asmlin.fmt(dict(sp[1])) or '0', asmlin.fmt(tot)), key='R-TAIL-SIZE|%s|%#x' % (sym, s_['first'] - f.entry),
                    sample='%s: offset + SIZE = len' % sym if sym.startswith('gf_2vect') else None)
    if nk == 0 and not os.environ.get('VERIF_SUBRUN'):
        # (assembler feature levels below 10 leave the GFNI units empty: nothing to decide in those sub-runs)
        raise AnalysisBroken('M-LANE-MACRO-%s: no kernel expands the macros' % suffix)
    R.notes.append('%d kernels' % nk)
