"""MIRROR: constants and record layouts as the C compiler and as the assembler evaluate
them (each tool evaluates its own constant expressions; no library code runs)."""
import os, re
from common import REPO, AnalysisBroken, run, read_repo
import srcset, cbuild


def c_values(config, headers, exprs, name='mirror'):
    """exprs: list of (label, C expression).  Returns ({label: int}, [labels that do not
    compile as integer constants]).  One TU, failing lines are dropped and the TU retried."""
    ss = srcset.get()
    d = os.path.join(cbuild.workdir(), 'mirror-%s' % config)
    os.makedirs(d, exist_ok=True)
    src = os.path.join(d, name + '.c')
    live = list(range(len(exprs)))
    dropped = []
    for attempt in range(8):
        with open(src, 'w') as f:
            f.write('#include <stddef.h>\n#include <stdint.h>\n')
            for h in headers:
                f.write('#include "%s"\n' % h)
            base = 3 + len(headers)
            for k in live:
                f.write('const long long vprobe_%d = (long long)(%s);\n' % (k, exprs[k][1]))
        out = os.path.join(d, name + '.ll')
        p = run(['clang'] + ss.c_flags(srcset.CONFIGS[config]['c']) + ['-w', '-O0', '-S', '-emit-llvm', '-ferror-limit=0', '-o', out, src], ok=None)
        if p.returncode == 0:
            break
        bad = set()
        for m in re.finditer(r'%s:(\d+):\d+: error' % re.escape(src), p.stderr):
            ln = int(m.group(1))
            idx = ln - base
            if 0 <= idx < len(live):
                bad.add(live[idx])
        if not bad:
            raise AnalysisBroken('C constant probe failed [%s]: %s' % (config, p.stderr[-1500:]))
        dropped += sorted(bad)
        live = [k for k in live if k not in bad]
    else:
        raise AnalysisBroken('C constant probe did not converge')
    txt = open(out).read()
    vals = {}
    for m in re.finditer(r'@vprobe_(\d+) = [^\n]*? i64 (-?\d+)', txt):
        vals[exprs[int(m.group(1))][0]] = int(m.group(2))
    for k in live:
        if exprs[k][0] not in vals:
            dropped.append(k)
    return vals, [exprs[k][0] for k in dropped]


def asm_values(config, includes, names, name='mirror', pre=''):
    """names: list of asm symbols / macro names.  Returns ({name: int}, [names not numeric])."""
    ss = srcset.get()
    d = os.path.join(cbuild.workdir(), 'mirror-%s' % config)
    os.makedirs(d, exist_ok=True)
    src = os.path.join(d, name + '.asm')
    live = list(range(len(names)))
    dropped = []
    for attempt in range(8):
        with open(src, 'w') as f:
            f.write(pre + '\n')
            for i in includes:
                f.write('%%include "%s"\n' % i)
            f.write('section .probe\n')
            f.write('probe_start:\n')
            base = 4 + len(includes) + pre.count('\n')
            for k in live:
                f.write('dq %s\n' % names[k])
        out = os.path.join(d, name + '.bin')
        flags = []
        for inc in ss.inc_dirs:
            flags += ['-I', inc + '/']
        flags += list(srcset.CONFIGS[config]['asm'])
        p = run(['nasm', '-f', 'elf64'] + flags + ['-o', out, src], ok=None)
        if p.returncode == 0:
            break
        bad = set()
        for m in re.finditer(r'%s:(\d+): error' % re.escape(src), p.stderr):
            idx = int(m.group(1)) - base
            if 0 <= idx < len(live):
                bad.add(live[idx])
        if not bad:
            raise AnalysisBroken('asm constant probe failed [%s]: %s' % (config, p.stderr[-1500:]))
        dropped += sorted(bad)
        live = [k for k in live if k not in bad]
    else:
        raise AnalysisBroken('asm constant probe did not converge')
    from elf import Elf
    e = Elf(out)
    data = e.secbytes('.probe')
    if e.relocs.get('.probe'):
        # a relocated entry is an address, not a constant
        reloff = {r[0] for r in e.relocs['.probe']}
    else:
        reloff = set()
    vals = {}
    for j, k in enumerate(live):
        if 8 * j in reloff:
            dropped.append(k)
            continue
        v = int.from_bytes(data[8 * j:8 * j + 8], 'little', signed=True)
        vals[names[k]] = v
    return vals, [names[k] for k in dropped]


def asm_names(rel):
    """names defined by FIELD / equ / %define / %assign in an asm include file, plus the
    struct each FIELD belongs to (from the START_FIELDS ;; comment)."""
    txt = read_repo(rel)
    fields = []   # (struct, name)
    consts = []
    cur = None
    for line in txt.split('\n'):
        m = re.match(r'^\s*START_FIELDS\s*;+\s*(\w+)', line)
        if m:
            cur = m.group(1)
            continue
        code = line.split(';')[0]
        m = re.match(r'^\s*FIELD\s+(\w+)\s*,', code)
        if m:
            fields.append((cur, m.group(1)))
            continue
        m = re.match(r'^\s*(\w+)\s+equ\s+', code)
        if m:
            consts.append(m.group(1))
            continue
        m = re.match(r'^\s*%(?:define|assign|xdefine)\s+(\w+)\s+\S', code)
        if m:
            consts.append(m.group(1))
    seen = set()
    consts = [c for c in consts if not (c in seen or seen.add(c))]
    return fields, consts
