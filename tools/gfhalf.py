"""GFHALF: the two halves of a 32-byte coefficient table and the two nibbles of a source byte must meet the right way round.
tbl[0..15] holds c * {0..15} (to be indexed by the LOW nibble), tbl[16..31] holds c * {0x00,0x10,..,0xf0} (HIGH nibble).  BOUNDS
(congruences of the table offsets, run as in GFROWS) labels every table load L / H / LH by its offset modulo 32 and its width; lane moves
(vperm2i128, vshufi64x2, 128-bit broadcasts) select halves; source data becomes NL by AND with the nibble mask and NH by shift-right-4 then AND.
Every table lookup (pshufb) must combine (L, NL) or (H, NH)."""
import re
from common import AnalysisBroken
from asmdb import REG64, parse_mem, is_mem, VREG
import bounds, provenance

IMM = re.compile(r'^(0x[0-9a-f]+|\d+)$')


def vname(o):
    if not o:
        return None
    o = re.sub(r'\{[^}]*\}', '', o).strip()
    return 'v' + re.sub(r'^[xyz]mm', '', o) if VREG.match(o) else None


def nl(o):
    """number of 128-bit lanes of a vector operand"""
    o = re.sub(r'\{[^}]*\}', '', o).strip()
    if o.startswith('zmm') or 'ZMMWORD' in o:
        return 4
    if o.startswith('ymm') or 'YMMWORD' in o:
        return 2
    return 1


def join(a, b):
    if a == b:
        return a
    if a is None or b is None:
        return None
    n = max(len(a), len(b))
    a, b = fit(a, n), fit(b, n)
    return tuple(x if x == y else '?' for x, y in zip(a, b))


def fit(t, n):
    """label tuple resized to n lanes (upper lanes of a narrower value are unknown / zero)"""
    if t is None:
        return None
    if len(t) >= n:
        return tuple(t[:n])
    return tuple(t) + ('?',) * (n - len(t))


COPY = ('movdqa', 'movdqu', 'movaps', 'movups', 'vmovdqa', 'vmovdqu', 'vmovaps', 'vmovups', 'vmovdqa32', 'vmovdqa64', 'vmovdqu8', 'vmovdqu16', 'vmovdqu32', 'vmovdqu64', 'lddqu', 'vlddqu', 'movntdqa', 'vmovntdqa')
TBLS = ('L', 'H', '?')


def residues(u, f, tblreg):
    """{insn address: {reg: value mod 32 as a linear form {symbol: coefficient, 1: constant} or None}} - the table argument counts as 0"""
    def norm(d):
        return {k: v % 32 for k, v in d.items() if v % 32}

    def addf(a, b, s=1):
        if a is None or b is None:
            return None
        out = dict(a)
        for k, v in b.items():
            out[k] = out.get(k, 0) + s * v
        return norm(out)
    init = {}
    for r in ('rdi', 'rsi', 'rdx', 'rcx', 'r8', 'r9'):
        init[r] = {} if r == tblreg else {r: 1}
    IN = {f.entry: init}
    work = [f.entry]

    def val(st, o):
        if IMM.match(o):
            return norm({1: int(o, 0)})
        g = REG64.get(o)
        return st.get(g[0]) if g else None

    def memform(st, o):
        m = parse_mem(o)
        if m is None or m['rip']:
            return None
        v = norm({1: m['disp'] or 0})
        for r, sc in ((m['base'], 1), (m['index'], m['scale'] or 1)):
            if r:
                if r not in REG64:
                    return None
                x = st.get(REG64[r][0])
                if x is None:
                    return None
                v = addf(v, {k: c * sc for k, c in x.items()})
        return v
    while work:
        a = work.pop()
        st = dict(IN[a])
        i = u.insns[a]
        mn, ops = i.mn, i.ops
        if ops and not is_mem(ops[0]) and REG64.get(ops[0]):
            d = REG64[ops[0]][0]
            r = None
            if mn == 'mov' and len(ops) == 2 and not is_mem(ops[1]):
                r = val(st, ops[1])
            elif mn == 'lea' and len(ops) == 2:
                r = memform(st, ops[1])
            elif mn in ('add', 'sub') and len(ops) == 2 and not is_mem(ops[1]):
                r = addf(st.get(d), val(st, ops[1]), 1 if mn == 'add' else -1)
            elif mn == 'imul' and len(ops) == 3 and IMM.match(ops[2]) and not is_mem(ops[1]):
                x = val(st, ops[1])
                r = norm({k: c * int(ops[2], 0) for k, c in x.items()}) if x is not None else None
            elif mn == 'imul' and len(ops) == 2 and IMM.match(ops[1]):
                x = st.get(d)
                r = norm({k: c * int(ops[1], 0) for k, c in x.items()}) if x is not None else None
            elif mn in ('shl', 'sal') and len(ops) == 2 and IMM.match(ops[1]):
                x = st.get(d)
                r = norm({k: c << int(ops[1], 0) for k, c in x.items()}) if x is not None else None
            elif mn in ('cmp', 'test'):
                r = st.get(d)
            elif mn == 'xor' and len(ops) == 2 and ops[0] == ops[1]:
                r = {}
            st[d] = r
        for n in u.succ(f, a):
            if n not in IN:
                IN[n] = st
                work.append(n)
            else:
                old = IN[n]
                new = {k: (old.get(k) if old.get(k) == st.get(k) else None) for k in set(old) | set(st)}
                if new != old:
                    IN[n] = new
                    work.append(n)
    out = {}
    for a in f.addrs:
        if a in IN:
            out[a] = (IN[a], memform)
    return out


def analyse(info, tblreg, zero):
    u, f, fl = info['unit'], info['func'], info['flow']
    bd = bounds.Bounds(u, f, fl, 'rsi', ptr_args=[tblreg], zero_regs=list(zero))
    bd.run()
    RES = residues(u, f, tblreg)
    tl, src = {}, set()
    for a in info['accesses']:
        bt = provenance.base_tag(a.addr)
        if a.kind != 'load':
            continue
        if bt == 'TBL':
            r = bd.offset_bounds(a.insn.addr, a)
            half = None
            if r and r[0].mod[0] % 32 == 0:
                half = r[0].mod[1] % 32
            e = r[0].exact() if r else None
            if half is None and e is not None and e[1] % 32 == 0:
                half = e[0] % 32
            if half is None:
                rs = RES.get(a.insn.addr)
                if rs is not None:
                    mem = [o for o in a.insn.ops if is_mem(o)]
                    fm = rs[1](rs[0], mem[0]) if mem else None
                    if fm is not None and set(fm) <= {1}:
                        half = fm.get(1, 0)
            size = a.size
            if a.insn.mn.startswith(('vbroadcasti128', 'vbroadcastf128', 'vbroadcasti32x4', 'vbroadcasti64x2', 'vbroadcastf32x4')):
                size = 16
            if half == 0 and size == 16:
                lab = ('L',)
            elif half == 16 and size == 16:
                lab = ('H',)
            elif half == 0 and size == 32:
                lab = ('L', 'H')
            elif half == 0 and size == 64:
                lab = ('L', 'H', 'L', 'H')
            else:
                lab = ('?',) * max(1, size // 16)
            tl[(a.insn.addr, a.opidx)] = lab
        elif bt in ('SRC', 'SRCARR[]'):
            src.add((a.insn.addr, a.opidx))
    IN = {f.entry: {}}
    work = [f.entry]
    while work:
        a = work.pop()
        st = dict(IN[a])
        step(u.insns[a], st, tl, src, None)
        for n in u.succ(f, a):
            if n not in IN:
                IN[n] = st
                work.append(n)
            else:
                old = IN[n]
                new = {}
                for r in set(old) | set(st):
                    j = join(old.get(r), st.get(r)) if r in old and r in st else None
                    if j is not None:
                        new[r] = j
                if new != old:
                    IN[n] = new
                    work.append(n)
    looks = []
    for a in f.addrs:
        if a in IN:
            step(u.insns[a], dict(IN[a]), tl, src, looks)
    return looks, tl


def step(i, st, tl, src, out):
    mn, ops = i.mn, i.ops
    if not ops or is_mem(ops[0]):
        return
    d = vname(ops[0])
    if d is None:
        return
    n = nl(ops[0])

    def lab(k):
        o = ops[k]
        if is_mem(o):
            if (i.addr, k) in tl:
                return tl[(i.addr, k)]
            if (i.addr, k) in src:
                return ('S',) * nl(o)
            return None
        v = vname(o)
        return st.get(v) if v else None

    def lanes(t, m=None):
        m = m or n
        if t is None:
            return (None,) * m
        if len(t) == 1 and m > 1 and mn.startswith(('vbroadcast', 'vpbroadcast')):
            return t * m
        return fit(t, m)
    base = re.sub(r'^v', '', mn)
    res = None
    three = len(ops) >= 3 and not IMM.match(ops[2])
    if mn in COPY:
        res = lanes(lab(1))
        if len(ops) == 2 and not is_mem(ops[1]) and nl(ops[1]) < n:
            res = lanes(lab(1))
    elif mn.startswith(('vbroadcasti', 'vbroadcastf')):
        t = lab(1)
        res = (t[0],) * n if t is not None else None
    elif base == 'pshufb':
        t_, x_ = (lanes(lab(1)), lanes(lab(2))) if three else (lanes(st.get(d)), lanes(lab(1)))
        if out is not None and any(a in TBLS for a in t_ if a) or (out is not None and any(a in ('NL', 'NH') for a in x_ if a)):
            out.append((i, t_, x_))
        res = ('P',) * n
    elif base in ('pand', 'pandd', 'pandq', 'andps', 'andpd'):
        a_, b_ = (lanes(lab(1)), lanes(lab(2))) if three else (lanes(st.get(d)), lanes(lab(1)))
        r = []
        for x, y in zip(a_, b_):
            s_ = [z for z in (x, y) if z in ('S', 'SH')]
            r.append(('NL' if s_[0] == 'S' else 'NH') if len(s_) == 1 and not any(z in TBLS for z in (x, y)) else None)
        res = tuple(r) if any(r) else None
    elif base in ('psrlw', 'psraw', 'psrld', 'psrlq', 'psrad') and len(ops) >= 2 and IMM.match(ops[-1]):
        a_ = lanes(lab(1) if len(ops) == 3 else st.get(d))
        if int(ops[-1], 0) == 4:
            res = tuple('SH' if x == 'S' else None for x in a_)
            if not any(res):
                res = None
    elif mn in ('vperm2i128', 'vperm2f128') and len(ops) == 4 and IMM.match(ops[3]):
        a_, b_, im = lanes(lab(1), 2), lanes(lab(2), 2), int(ops[3], 0)
        pool = a_ + b_
        lo = None if im & 8 else pool[im & 3]
        hi = None if im & 0x80 else pool[(im >> 4) & 3]
        res = (lo, hi) if (lo or hi) else None
    elif mn in ('vshufi64x2', 'vshufi32x4', 'vshuff64x2', 'vshuff32x4') and len(ops) == 4 and IMM.match(ops[3]):
        im = int(ops[3], 0)
        a_, b_ = lanes(lab(1)), lanes(lab(2))
        if n == 4:
            sel = [(im >> (2 * k)) & 3 for k in range(4)]
            res = (a_[sel[0]], a_[sel[1]], b_[sel[2]], b_[sel[3]])
        else:
            res = (a_[im & 1], b_[(im >> 1) & 1])
        if not any(res):
            res = None
    elif mn in ('vinserti128', 'vinsertf128') and len(ops) == 4 and IMM.match(ops[3]):
        a_, b_ = lanes(lab(1), 2), lanes(lab(2), 1)
        res = (b_[0], a_[1]) if int(ops[3], 0) & 1 == 0 else (a_[0], b_[0])
        if not any(res):
            res = None
    elif mn in ('vextracti128', 'vextractf128') and len(ops) == 3 and IMM.match(ops[2]):
        a_ = lanes(lab(1), 2)
        res = (a_[int(ops[2], 0) & 1],)
        if not any(res):
            res = None
    elif mn in ('vpermq',) and len(ops) == 3 and IMM.match(ops[2]):
        a_, im = lanes(lab(1), 2), int(ops[2], 0)
        if im == 0x44:
            res = (a_[0], a_[0])
        elif im == 0xee:
            res = (a_[1], a_[1])
        elif im == 0x4e:
            res = (a_[1], a_[0])
        else:
            res = tuple('?' if x in TBLS else None for x in a_)
        if not any(res):
            res = None
    else:
        ins = [lanes(lab(k)) for k in range(1, len(ops)) if not IMM.match(ops[k])]
        two = len(ops) == 2 or (len(ops) == 3 and IMM.match(ops[2]))
        if two:
            ins.append(lanes(st.get(d)))
        r = []
        for k in range(n):
            col = [t[k] for t in ins]
            r.append('?' if any(x in TBLS for x in col) else ('P' if any(x == 'P' for x in col) else None))
        res = tuple(r) if any(r) else None
    if res is None:
        st.pop(d, None)
    else:
        st[d] = tuple(res)


def check(rep, suffix, family, tblreg, zero, floor):
    R = rep.rule('V-GFHALF-' + suffix, 'table-driven GF(2^8) kernels (not GFNI): every pshufb lookup pairs the low half of a 32-byte coefficient table (offset == 0 mod 32: c*{0..15}) with the low nibbles of the source '
                 '(source AND mask) or the high half (offset == 16 mod 32: c*{0x00..0xf0}) with the high nibbles (source >> 4 AND mask); halves are labelled from the congruences of the table offsets (BOUNDS) and '
                 'followed through vperm2i128 / vshufi64x2 / 128-bit broadcasts by their immediates', floor=floor, unit='table lookups')
    res, _ = provenance.analyse('default')
    nk = 0
    for sym, info in sorted(res.items()):
        if info['fam']['family'] not in family or 'gfni' in sym:
            continue
        u, f = info['unit'], info['func']
        looks, tl = analyse(info, tblreg, zero)
        if not looks:
            raise AnalysisBroken('V-GFHALF: no table lookup recognised in %s' % sym)
        nk += 1
        for i, t_, x_ in looks:
            R.instance()
            ok = all((a_, b_) in (('L', 'NL'), ('H', 'NH')) for a_, b_ in zip(t_, x_))
            t_, x_ = '|'.join(str(z) for z in t_), '|'.join(str(z) for z in x_)
            R.check(ok, '%s: %s' % (u.name, u.where(i, f)), '%s: this lookup uses %s as the table and %s as the index; the low-nibble products need the low nibbles, the high-nibble products the high nibbles' %
                    (sym, 'table lanes [%s] (L = low half c*{0..15}, H = high half c*{0x00..0xf0})' % t_, 'index lanes [%s] (NL = source & mask, NH = (source >> 4) & mask, S / SH = unmasked)' % x_),
                    key='V-GFHALF|%s|%#x' % (sym, i.addr - f.entry), sample='%s: %d lookups, halves and nibbles agree' % (sym, len(looks)) if i is looks[0][0] and sym.endswith('6vect_dot_prod_sse') else None)
    if nk == 0:
        raise AnalysisBroken('V-GFHALF-%s: no kernel' % suffix)
    R.notes.append('%d kernels' % nk)
