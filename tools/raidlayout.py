"""G-RAID-BASE: closed forms (LLVM scalar evolution) of the portable RAID kernels' accesses: which rows of the pointer array feed which
parity row, at which element, and over which index ranges."""
import re
from common import AnalysisBroken
import scev
from scev import padd, pmul, pvar, pconst, canon, pfmt


def leaves(F, v, depth=0, seen=None):
    """loads a value is computed from through arithmetic and loop-carried phis"""
    seen = seen if seen is not None else set()
    if v in seen or depth > 40:
        return []
    seen.add(v)
    d = F.f.defs.get(v)
    if d is None:
        return []
    if d.op == 'load':
        return [d]
    out = []
    if d.op == 'phi':
        for x, _ in d.extra['incoming']:
            out += leaves(F, x, depth + 1, seen)
    elif d.op in ('xor', 'and', 'or', 'shl', 'lshr', 'ashr', 'sub', 'add', 'zext', 'sext', 'trunc', 'select', 'freeze', 'mul'):
        for o in d.ops:
            if not re.match(r'^-?\d+$', o):
                out += leaves(F, o, depth + 1, seen)
    elif d.op == 'call':
        pure_helper(F, d)         # a static arithmetic helper (e.g. an extracted multiply-by-2): its result is computed from its arguments
        for o in d.ops:
            if not re.match(r'^-?\d+$', o):
                out += leaves(F, o, depth + 1, seen)
    return out


def pure_helper(F, call):
    """the operations of a called function that only computes on its arguments (no memory access, no further call); anything else cannot be followed"""
    g = F.mod.funcs.get(call.callee or '')
    if g is None:
        raise AnalysisBroken('%s: a value of the fold goes through a call of %s, which is not defined in the library' % (F.f.name, call.callee))
    ops = set()
    for i in g.all_insns():
        if i.op in ('load', 'store', 'call', 'alloca'):
            raise AnalysisBroken('%s: a value of the fold goes through %s, which is not a pure arithmetic helper (%s)' % (F.f.name, g.name, i.op))
        if i.op not in ('br', 'ret', 'icmp', 'switch'):
            ops.add(i.op)
    return ops


def ops_used(F, v, depth=0, seen=None):
    seen = seen if seen is not None else set()
    if v in seen or depth > 40 or re.match(r'^-?\d+$', v):
        return set()
    seen.add(v)
    d = F.f.defs.get(v)
    if d is None:
        return set()
    out = {d.op}
    if d.op == 'load':
        return out
    if d.op == 'phi':
        for x, _ in d.extra['incoming']:
            out |= ops_used(F, x, depth + 1, seen)
    else:
        if d.op == 'call':
            out = (out - {'call'}) | pure_helper(F, d)
        for o in d.ops:
            out |= ops_used(F, o, depth + 1, seen)
    return out


def elem(F, ld):
    """(row offset polynomial in the pointer array, element offset polynomial) of a load / store through array[row][idx]"""
    ptr = ld.ops[0] if ld.op == 'load' else ld.ops[1]
    b, ix = F.addr(ptr)
    if b is None or b in F.params:
        return None
    pd = F.f.defs.get(b)
    pb, pix = F.addr(pd.ops[0])
    if pb != F.params[2]:
        return None
    return canon(pix), canon(ix)


def check(rep, floor):
    R = rep.rule('G-RAID-BASE', 'portable RAID kernels, accesses as closed forms: xor_gen_base folds rows 0..vects-2 into row vects-1; pq_gen_base folds rows vects-3..0 (row vects-3 first, then downwards) into P = row vects-2 and '
                 'Q = row vects-1; the check variants compare the same folds with the stored parity rows; all at the same element index, over len bytes (len / sizeof(long) words for pq_gen_base)', floor=floor, unit='functions')
    A = scev.analysis('default')
    V = pvar('%vects')
    for fn in ('xor_gen_base', 'pq_gen_base', 'xor_check_base', 'pq_check_base'):
        F = scev.Forms(A, fn, [('smax', '0', '%len', 1), ('smax', '0', '%conv1', 1)])
        f = F.f
        R.instance()
        problems = []
        # loops: the source loop is the one whose trip count mentions vects
        src_loop = [h for h in F.loops if F.count(h) is not None and any('%vects' in m for m in F.count(h))]
        pos_loop = [h for h in F.loops if h not in src_loop]
        if len(src_loop) != 1 or len(pos_loop) != 1:
            raise AnalysisBroken('%s: loop nest not recognised' % fn)
        nj, ni = pvar('n%' + src_loop[0]), pvar('n%' + pos_loop[0])
        step = 8 if fn == 'pq_gen_base' else 1
        pos = canon(pmul(pconst(step), ni))
        if fn.startswith('xor'):
            first, rest, cnt = (pconst(0), padd(pconst(8), pmul(pconst(8), nj)), padd(V, pconst(-2))) if fn == 'xor_gen_base' else (None, pmul(pconst(8), nj), V)
            outs = {'P': padd(pmul(pconst(8), V), pconst(-8))} if fn == 'xor_gen_base' else {}
        else:
            first = padd(pmul(pconst(8), V), pconst(-24))
            rest = padd(padd(pmul(pconst(8), V), pconst(-32)), pmul(pconst(-8), nj))
            cnt = padd(V, pconst(-3))
            outs = {'P': padd(pmul(pconst(8), V), pconst(-16)), 'Q': padd(pmul(pconst(8), V), pconst(-8))}
        if canon(F.count(src_loop[0])) != canon(cnt):
            problems.append('the source loop runs %s times, expected %s' % (pfmt(F.count(src_loop[0])), pfmt(cnt)))
        want = {(canon(rest), pos)} | ({(canon(first), pos)} if first is not None else set())
        if fn.endswith('gen_base'):
            sts = [i for i in f.all_insns() if i.op == 'store']
            got_out = {}
            for s in sts:
                e = elem(F, s)
                for name, row in outs.items():
                    if e == (canon(row), pos):
                        got_out[name] = s
            for name in outs:
                if name not in got_out:
                    problems.append('no store of %s to array[%s] at element %s' % (name, pfmt(outs[name]), pfmt(dict(pos))))
                    continue
                used = ops_used(F, got_out[name].ops[0]) - {'zext', 'sext', 'trunc', 'freeze'}
                if name == 'P' and not used <= {'xor', 'phi', 'load'}:
                    problems.append('P is not a plain xor of the source rows (operations used: %s)' % sorted(used))
                if name == 'Q' and 'shl' not in used:
                    problems.append('Q is computed without the multiply-by-2 step (no shift in its recurrence)')
                ls = {elem(F, l) for l in leaves(F, got_out[name].ops[0])}
                if ls != want:
                    problems.append('%s is computed from rows %s, expected %s' % (name, sorted((pfmt(dict(a)), pfmt(dict(b))) for a, b in ls if a is not None) if None not in ls else 'unrecognised loads',
                                                                               sorted((pfmt(dict(a)), pfmt(dict(b))) for a, b in want)))
            if len(sts) != len(outs):
                problems.append('%d stores, expected %d' % (len(sts), len(outs)))
        else:
            cmps = [i for i in f.all_insns() if i.op == 'icmp' and f.blocks[i.block].insns[-1].op == 'br' and f.blocks[i.block].insns[-1].extra.get('cond') == i.dst and i.extra['pred'] in ('eq', 'ne')]
            found = set()
            for c in cmps:
                sides = [set(elem(F, l) for l in leaves(F, o)) if not re.match(r'^-?\d+$', o) else set() for o in c.ops]
                useds = [ops_used(F, o) - {'zext', 'sext', 'trunc', 'freeze'} for o in c.ops]
                for (a, b), (ua, ub) in ((sides, useds), (sides[::-1], useds[::-1])):
                    if fn == 'xor_check_base' and a == want and not b:
                        found.add('P')
                    for name, row in outs.items():
                        if a == {(canon(row), pos)} and b == want and ((name == 'P' and ub <= {'xor', 'phi', 'load'}) or (name == 'Q' and ('shl' in ub or 'select' in ub))):
                            found.add(name)
            need = set(outs) or {'P'}
            if found != need:
                problems.append('comparisons found for %s, expected %s (each: stored parity row element vs the fold of all source rows at the same element)' % (sorted(found), sorted(need)))
        R.check(not problems, 'raid/raid_base.c:' + fn, '%s: %s' % (fn, '; '.join(problems)), key='G-RAID-BASE|' + fn, sample='%s: rows and elements as documented' % fn)
