"""BOUNDS: abstract interpretation of the scalar registers of an asm kernel in a reduced product of
  * affine bound sets:  r >= c + k*N  /  r <= c + k*N   (N = the kernel's byte-count argument),
  * congruences:        r == a (mod 2^j),
  * facts about N itself (N >= nlo, N == a mod 2^j) learnt from the kernel's entry guards,
with branch refinement on cmp/sub/test + jcc and widening at loop heads.  Pointer values come from
ASMFLOW (Flow.IN): an access `[base + index*scale + disp]` whose base is a pointer with a constant
offset into a buffer of N bytes is IN BOUNDS when some lower bound gives offset >= 0 and some upper
bound gives offset + width <= N.  Arithmetic is over the integers (lengths are assumed < 2^31, so the
32/64-bit views of a count do not wrap)."""
import re
from math import gcd
from common import AnalysisBroken
from asmdb import REG64, parse_mem, is_mem, VREG, is_cond_jump
import regdef

IMM = re.compile(r'^(0x[0-9a-f]+|-?\d+)$')
MAXMOD = 256
NBUF_TAGS = {'ARRAY[]', 'SRCARR[]', 'DESTARR[]', 'SRC', 'DEST', 'BUF', 'DST'}
EMPTY = frozenset()


def imm(s):
    v = int(s, 0)
    if v >= 1 << 63:
        v -= 1 << 64
    return v


class B:
    """bounds of one scalar: lo/hi frozensets of (c, k); mod = (m, a)"""
    __slots__ = ('lo', 'hi', 'mod')

    def __init__(self, lo=EMPTY, hi=EMPTY, mod=(1, 0)):
        self.lo, self.hi, self.mod = lo, hi, mod

    def __eq__(self, o):
        return isinstance(o, B) and self.lo == o.lo and self.hi == o.hi and self.mod == o.mod

    def __hash__(self):
        return hash((self.lo, self.hi, self.mod))

    def exact(self):
        both = self.lo & self.hi
        return sorted(both)[0] if both else None

    def __repr__(self):
        f = lambda s: '{' + ','.join('%d%s' % (c, '%+dN' % k if k else '') for c, k in sorted(s)) + '}'
        return '[%s..%s mod%s]' % (f(self.lo), f(self.hi), self.mod)


TOPB = B()
_TABLES = {}


def modof(c, k, nmod):
    """congruence of c + k*N given N == a (mod m)"""
    m, a = nmod
    if k == 0:
        return (MAXMOD, c % MAXMOD)
    return (m, (c + k * a) % m) if m > 1 else (1, 0)


def EX(c, k, nmod):
    return B(frozenset([(c, k)]), frozenset([(c, k)]), modof(c, k, nmod))


def mod_join(x, y):
    m = min(x[0], y[0])
    while m > 1 and (x[1] - y[1]) % m:
        m //= 2
    return (m, x[1] % m) if m > 1 else (1, 0)


def mod_add(x, y, sign=1):
    m = min(x[0], y[0])
    return (m, (x[1] + sign * y[1]) % m) if m > 1 else (1, 0)


def le(u1, u2, nlo):
    """c1+k1*N <= c2+k2*N for every N >= nlo ?"""
    d = u2[1] - u1[1]
    if d == 0:
        return u1[0] <= u2[0]
    if d > 0 and nlo is not None:
        return u1[0] - u2[0] <= d * nlo
    return False


def prune_hi(s, nlo):
    # only bounds with the same N-coefficient are compared: a constant bound that is tighter under this path's
    # knowledge of N must not displace the N-relative one, which survives joins with paths that know less about N
    s = set(s)
    return frozenset(u for u in s if not any(v[1] == u[1] and v[0] < u[0] for v in s))


def prune_lo(s, nlo):
    s = set(s)
    return frozenset(u for u in s if not any(v[1] == u[1] and v[0] > u[0] for v in s))


def join_b(x, y, nlo, widen=False, nx=None, ny=None):
    """nx / ny: what each side knows about N (a bound of one side is kept if the other side implies it under its own knowledge)"""
    if x == y:
        return x
    nx = nlo if nx is None else nx
    ny = nlo if ny is None else ny
    if widen:
        hi = frozenset(a for a in x.hi if any(le(b, a, ny) for b in y.hi))
        lo = frozenset(a for a in x.lo if any(le(a, b, ny) for b in y.lo))
    else:
        hi = frozenset(a for a in x.hi if any(le(b, a, ny) for b in y.hi)) | frozenset(b for b in y.hi if any(le(a, b, nx) for a in x.hi))
        lo = frozenset(a for a in x.lo if any(le(a, b, ny) for b in y.lo)) | frozenset(b for b in y.lo if any(le(b, a, nx) for a in x.lo))
    if len(hi) > 6:
        hi = frozenset(sorted(hi)[:6])
    if len(lo) > 6:
        lo = frozenset(sorted(lo)[-6:])
    return B(prune_lo(lo, nlo), prune_hi(hi, nlo), mod_join(x.mod, y.mod))


class State:
    __slots__ = ('r', 'nlo', 'nhi', 'nmod', 'fl', 'slots', 'rel', 'gm', 'km', 'ptr')

    def __init__(self):
        self.r = {}
        self.nlo = None
        self.nhi = None
        self.nmod = (1, 0)
        self.fl = None
        self.slots = {}
        self.rel = {}      # (r1, r2) -> (c, k):  r1 + r2 == c + k*N
        self.gm = {}       # gpr -> ('pow2' | 'low', count register): 1 << count, or the count low bits set
        self.km = {}       # k register -> count register: mask of `count` low bits
        self.ptr = {}      # register -> True: the register is a pointer into a length-bounded buffer and r[register] bounds its OFFSET from the buffer start

    def copy(self):
        s = State()
        s.r = dict(self.r)
        s.nlo, s.nhi, s.nmod, s.fl = self.nlo, self.nhi, self.nmod, self.fl
        s.slots = dict(self.slots)
        s.rel, s.gm, s.km, s.ptr = dict(self.rel), dict(self.gm), dict(self.km), dict(self.ptr)
        return s

    def key(self):
        return (tuple(sorted(self.r.items(), key=lambda kv: kv[0])), self.nlo, self.nhi, self.nmod, self.fl, tuple(sorted(self.slots.items())), tuple(sorted(self.rel.items())), tuple(sorted(self.gm.items())), tuple(sorted(self.km.items())), tuple(sorted(self.ptr.items())))


class Bounds:
    def __init__(self, u, f, flow, count_reg, cut=(), ptr_args=(), zero_regs=()):
        self.u, self.f, self.fl, self.count_reg = u, f, flow, count_reg
        self.zero_regs = tuple(zero_regs)    # argument registers normalised to 0 (a common additive term of every address of interest)
        self.ptr_args = tuple(ptr_args)      # argument registers that point to the start of a len-byte buffer
        self.cut = set(cut)        # instructions whose successors are not followed (analysis of the paths that avoid them)
        self.IN = {}
        self.visits = {}

    # ---------------------------------------------------------------- operand evaluation
    def get(self, st, op):
        if op is None:
            return TOPB
        if IMM.match(op):
            return EX(imm(op), 0, st.nmod)
        g = REG64.get(op)
        if not g or g[1] < 32:
            return TOPB
        v = st.r.get(g[0], TOPB)
        e = v.exact()
        return EX(e[0], e[1], st.nmod) if e is not None else v

    def setr(self, st, reg, val, shift=None, keepptr=False):
        """shift: the new value is the old one plus this constant (relations with other registers are adjusted instead of dropped)"""
        if not keepptr:
            st.ptr.pop(reg, None)
        if val == TOPB:
            st.r.pop(reg, None)
        else:
            st.r[reg] = val
        if st.fl and reg in st.fl[3]:
            st.fl = None
        for key in [k for k in st.rel if reg in k]:
            if shift is None or key[0] == key[1]:
                del st.rel[key]
            else:
                c, k = st.rel[key]
                st.rel[key] = (c + shift, k)
        for g in [g for g, v in st.gm.items() if g == reg or v[1] == reg]:
            del st.gm[g]
        for kk in [kk for kk, v in st.km.items() if v == reg]:
            del st.km[kk]

    def add(self, st, x, y, sign=1):
        if sign == 1:
            lo = frozenset((a[0] + b[0], a[1] + b[1]) for a in x.lo for b in y.lo)
            hi = frozenset((a[0] + b[0], a[1] + b[1]) for a in x.hi for b in y.hi)
        else:
            lo = frozenset((a[0] - b[0], a[1] - b[1]) for a in x.lo for b in y.hi)
            hi = frozenset((a[0] - b[0], a[1] - b[1]) for a in x.hi for b in y.lo)
        lo = frozenset(v for v in lo if abs(v[1]) <= 512)
        hi = frozenset(v for v in hi if abs(v[1]) <= 512)
        if len(lo) > 6:
            lo = frozenset(sorted(lo)[-6:])
        if len(hi) > 6:
            hi = frozenset(sorted(hi)[:6])
        return B(lo, hi, mod_add(x.mod, y.mod, sign))

    def scale(self, x, s):
        if s == 1:
            return x
        m = min(MAXMOD, x.mod[0] * (s & -s)) if s > 0 else 1
        return B(frozenset((c * s, k * s) for c, k in x.lo), frozenset((c * s, k * s) for c, k in x.hi), (m, (x.mod[1] * s) % m) if m > 1 else (1, 0)) if s > 0 else TOPB

    def lowmask_table(self, sym, esz):
        """number of leading entries of the constant table `sym` that equal (1 << i) - 1"""
        key = (sym, esz)
        if key not in _TABLES:
            n = 0
            y = self.u.elf.syms.get(sym)
            sec = self.u.elf.section(y.sec) if y is not None and y.sec else None
            if sec is not None and sec['type'] != 8:
                data = self.u.elf.d[sec['off'] + y.value: sec['off'] + min(sec['size'], y.value + esz * (8 * esz + 1))]
                while (n + 1) * esz <= len(data) and int.from_bytes(data[n * esz:(n + 1) * esz], 'little') == (1 << n) - 1:
                    n += 1
            _TABLES[key] = n
        return _TABLES[key]

    def buffer_tag(self, fv):
        t = fv[1]
        if isinstance(t, tuple):
            return (t[1] + '[]') in NBUF_TAGS
        return t in NBUF_TAGS

    # ---------------------------------------------------------------- refinement
    def learn_ge(self, st, big, small):
        """big=(c,k) >= small=(c,k) holds on this edge: a lower bound for N when big grows faster with N"""
        d = big[1] - small[1]
        c = big[0] - small[0]
        if d > 0:
            bound = -(c // d)          # ceil(-c/d)
            if st.nlo is None or bound > st.nlo:
                st.nlo = bound
                self.norm_n(st)
        elif d < 0:
            bound = c // (-d)          # c + d*N >= 0  <=>  N <= floor(c / |d|)
            if st.nhi is None or bound < st.nhi:
                st.nhi = bound

    def tighten_hi(self, val, u, st):
        """largest value <= u=(c,k) that is congruent to val's residue"""
        m, a = val.mod
        if m <= 1:
            return u
        um = modof(u[0], u[1], st.nmod)
        mm = min(m, um[0])
        if mm <= 1:
            return u
        delta = (um[1] - a) % mm
        return (u[0] - delta, u[1])

    def tighten_lo(self, val, l, st):
        m, a = val.mod
        if m <= 1:
            return l
        lm = modof(l[0], l[1], st.nmod)
        mm = min(m, lm[0])
        if mm <= 1:
            return l
        delta = (a - lm[1]) % mm
        return (l[0] + delta, l[1])

    def constrain(self, st, A, B_, rel):
        """A rel B_, operands are ('r', reg) / ('k', const); rel in '<', '<=', '>', '>=', '=='"""
        def val(o):
            return st.r.get(o[1], TOPB) if o[0] == 'r' else EX(o[1], 0, st.nmod)
        if rel == '==':
            self.constrain(st, A, B_, '<=')
            self.constrain(st, A, B_, '>=')
            va, vb = val(A), val(B_)
            for o, other in ((A, vb), (B_, va)):
                if o[0] == 'r' and other.mod[0] > 1:
                    cur = st.r.get(o[1], TOPB)
                    if other.mod[0] > cur.mod[0]:
                        st.r[o[1]] = B(cur.lo, cur.hi, other.mod)
            return
        if rel in ('>', '>='):
            return self.constrain(st, B_, A, '<' if rel == '>' else '<=')
        va, vb = val(A), val(B_)
        off = 1 if rel == '<' else 0
        # facts about N from exact forms
        ea, eb = va.exact(), vb.exact()
        if ea is not None and eb is not None:
            self.learn_ge(st, (eb[0] - off, eb[1]), ea)
        # A <= B - off : new upper bounds for A, new lower bounds for B
        if A[0] == 'r':
            new = set(va.hi)
            for u in vb.hi:
                new.add(self.tighten_hi(va, (u[0] - off, u[1]), st))
            st.r[A[1]] = B(va.lo, prune_hi(new, st.nlo), va.mod)
            if len(st.r[A[1]].hi) > 6:
                st.r[A[1]] = B(va.lo, frozenset(sorted(st.r[A[1]].hi)[:6]), va.mod)
        if B_[0] == 'r':
            vb = st.r.get(B_[1], TOPB)
            new = set(vb.lo)
            for l in va.lo:
                new.add(self.tighten_lo(vb, (l[0] + off, l[1]), st))
            st.r[B_[1]] = B(prune_lo(new, st.nlo), vb.hi, vb.mod)
            if len(st.r[B_[1]].lo) > 6:
                st.r[B_[1]] = B(frozenset(sorted(st.r[B_[1]].lo)[-6:]), vb.hi, vb.mod)

    def close(self, st):
        """derived facts: constant bounds implied by N-relative ones (N >= nlo), N-facts implied by lo <= hi, bounds re-tightened to the congruence"""
        for (r1, r2), S in st.rel.items():
            for a, b in ((r1, r2), (r2, r1)):
                va, vb = st.r.get(a, TOPB), st.r.get(b, TOPB)
                if va.exact() is not None and va.exact()[1] != 0:
                    continue
                hi = set(va.hi) | {(S[0] - l[0], S[1] - l[1]) for l in vb.lo}
                lo = set(va.lo) | {(S[0] - u_[0], S[1] - u_[1]) for u_ in vb.hi}
                hi = {x for x in hi if abs(x[1]) <= 512}
                lo = {x for x in lo if abs(x[1]) <= 512}
                nv = B(prune_lo(lo, st.nlo), prune_hi(hi, st.nlo), va.mod)
                if len(nv.lo) > 6:
                    nv = B(frozenset(sorted(nv.lo)[-6:]), nv.hi, nv.mod)
                if len(nv.hi) > 6:
                    nv = B(nv.lo, frozenset(sorted(nv.hi)[:6]), nv.mod)
                if nv != TOPB:
                    st.r[a] = nv
        for _ in range(2):
            for r, v in list(st.r.items()):
                for l in v.lo:
                    for u_ in v.hi:
                        self.learn_ge(st, u_, l)
            if st.nlo is None:
                return
            for r, v in list(st.r.items()):
                e = v.exact()
                if e is not None and e[1] != 0:
                    continue
                lo = set(self.tighten_lo(v, l, st) for l in v.lo)
                hi = set(self.tighten_hi(v, u_, st) for u_ in v.hi)
                for c, k in list(lo):
                    if k > 0:
                        lo.add(self.tighten_lo(v, (c + k * st.nlo, 0), st))
                for c, k in list(hi):
                    if k < 0:
                        hi.add(self.tighten_hi(v, (c + k * st.nlo, 0), st))
                    elif k == 0:
                        hi.add(self.tighten_hi(v, (c - st.nlo, 1), st))      # value <= c = (c - nlo) + nlo <= (c - nlo) + N
                nv = B(prune_lo(lo, st.nlo), prune_hi(hi, st.nlo), v.mod)
                if len(nv.lo) > 6:
                    nv = B(frozenset(sorted(nv.lo)[-6:]), nv.hi, nv.mod)
                if len(nv.hi) > 6:
                    nv = B(nv.lo, frozenset(sorted(nv.hi)[:6]), nv.mod)
                st.r[r] = nv

    def norm_n(self, st):
        m, a = st.nmod
        if st.nlo is not None and m > 1:
            st.nlo += (a - st.nlo) % m

    def exclude(self, st, A, B_):
        """A != B_: an endpoint equal to the excluded value moves inwards"""
        def val(o):
            return st.r.get(o[1], TOPB) if o[0] == 'r' else EX(o[1], 0, st.nmod)
        for X, Y in ((A, B_), (B_, A)):
            vy = val(Y)
            ey = vy.exact()
            if ey is None or X[0] != 'r':
                continue
            vx = st.r.get(X[1], TOPB)
            ex = vx.exact()
            if ex is not None:
                # exact form of N against a constant: N != value
                if ex[1] == 1 and ey[1] == 0 and st.nlo is not None and st.nlo == ey[0] - ex[0]:
                    st.nlo += 1
                    self.norm_n(st)
                continue
            hi = frozenset(self.tighten_hi(vx, (u[0] - 1, u[1]), st) if u == ey else u for u in vx.hi)
            lo = frozenset(self.tighten_lo(vx, (l[0] + 1, l[1]), st) if l == ey else l for l in vx.lo)
            st.r[X[1]] = B(lo, hi, vx.mod)

    REL = {'l': '<', 'b': '<', 'nae': '<', 'nge': '<', 'c': '<', 'le': '<=', 'be': '<=', 'na': '<=', 'ng': '<=',
           'g': '>', 'a': '>', 'nbe': '>', 'nle': '>', 'ge': '>=', 'ae': '>=', 'nb': '>=', 'nl': '>=', 'nc': '>=',
           'e': '==', 'z': '==', 'ne': '!=', 'nz': '!=', 's': '<0', 'ns': '>=0'}
    NEG = {'<': '>=', '<=': '>', '>': '<=', '>=': '<', '==': '!=', '!=': '==', '<0': '>=0', '>=0': '<0'}

    def refine(self, st, cc, taken):
        fl = st.fl
        if not fl:
            return st
        rel = self.REL.get(cc)
        if rel is None:
            return st
        if not taken:
            rel = self.NEG[rel]
        kind, A, B_, _ = fl
        if kind == 'cmp':
            if rel in ('<0', '>=0'):
                if B_ == ('k', 0):
                    self.constrain(st, A, B_, '<' if rel == '<0' else '>=')
            elif rel != '!=':
                self.constrain(st, A, B_, rel)
            else:
                self.exclude(st, A, B_)
        elif kind == 'mask' and rel == '!=':
            form, mask = A, B_
            m = mask + 1
            if m & mask == 0 and m > 1:
                if form[0] == 'n' and form[1][1] == 1:
                    # (c + N) mod m != 0
                    c = form[1][0]
                    if st.nlo is not None and (st.nlo + c) % m == 0:
                        st.nlo += 1
                        self.norm_n(st)
                elif form[0] == 'r':
                    cur = st.r.get(form[1], TOPB)
                    if cur.exact() is None:
                        lo = frozenset((l[0] + 1, 0) if l[1] == 0 and l[0] % m == 0 else l for l in cur.lo)
                        hi = frozenset((u_[0] - 1, 0) if u_[1] == 0 and u_[0] % m == 0 else u_ for u_ in cur.hi)
                        st.r[form[1]] = B(lo, hi, cur.mod)
        elif kind == 'mask' and rel == '==':
            # (form & mask) == 0 with mask = 2^j - 1
            form, mask = A, B_
            m = mask + 1
            if m & mask == 0 and 1 < m <= MAXMOD:
                if form[0] == 'n':          # exact c + k*N, k odd
                    c, k = form[1]
                    if k % 2 == 1 or k == 1:
                        # N == -c * k^-1 (mod m); only k == +-1 handled
                        if k in (1, -1):
                            a = (-c * k) % m
                            if m > st.nmod[0]:
                                st.nmod = (m, a)
                                self.norm_n(st)
                elif form[0] == 'r':
                    cur = st.r.get(form[1], TOPB)
                    if m > cur.mod[0]:
                        st.r[form[1]] = B(cur.lo, cur.hi, (m, 0))
        return st

    # ---------------------------------------------------------------- transfer
    def transfer(self, st, i):
        mn, ops = i.mn, i.ops
        if is_cond_jump(mn) or mn in ('jmp', 'ret', 'nop', 'endbr64', 'vzeroupper') or mn.startswith('prefetch'):
            return
        g = REG64.get(ops[0]) if ops and not is_mem(ops[0]) else None
        src = ops[1] if len(ops) > 1 else None
        regs_of = lambda *os: frozenset(REG64[o][0] for o in os if o in REG64)
        if mn.startswith('kmov') and len(ops) == 2 and re.match(r'^k[0-7]$', ops[0]):
            st.km.pop(ops[0], None)
            if src in REG64 and st.gm.get(REG64[src][0], (None,))[0] == 'low':
                st.km[ops[0]] = st.gm[REG64[src][0]][1]
            elif is_mem(src):
                # mask fetched from a constant table indexed by a count: accepted when the table really holds (1 << i) - 1 at entry i
                m = parse_mem(src)
                fst = self.fl.IN.get(i.addr)
                esz = {'kmovb': 1, 'kmovw': 2, 'kmovd': 4, 'kmovq': 8}.get(mn)
                if fst is not None and esz and m['index'] in REG64 and (m['scale'] or 1) == esz and m['base'] in REG64 and not m['disp']:
                    bv = fst.get(REG64[m['base']][0])
                    if bv is not None and bv[0] == 'P' and isinstance(bv[1], str) and bv[1].startswith('GLOBAL:') and bv[2] == (0, 0):
                        n = self.lowmask_table(bv[1][7:], esz)
                        ib = st.r.get(REG64[m['index']][0], TOPB)
                        if n and any(u_[1] == 0 and u_[0] < n for u_ in ib.hi) and any(l[1] == 0 and l[0] >= 0 or (l[1] > 0 and st.nlo is not None and l[0] + l[1] * st.nlo >= 0) for l in ib.lo):
                            st.km[ops[0]] = REG64[m['index']][0]
            return
        if ops and re.match(r'^k[0-7]$', ops[0]):
            st.km.pop(ops[0], None)
            return
        if mn == 'cmp' and len(ops) == 2:
            A = ('r', REG64[ops[0]][0]) if ops[0] in REG64 and REG64[ops[0]][1] >= 32 else None
            Bd = ('r', REG64[src][0]) if src in REG64 and REG64[src][1] >= 32 else (('k', imm(src)) if IMM.match(src) else None)
            st.fl = ('cmp', A, Bd, regs_of(ops[0], src)) if A and Bd else None
            return
        if mn == 'test' and len(ops) == 2:
            st.fl = None
            if ops[0] in REG64 and IMM.match(src):
                v = self.get(st, ops[0])
                e = v.exact()
                r0 = REG64[ops[0]][0]
                st.fl = ('mask', ('n', e) if e is not None and e[1] != 0 else ('r', r0), imm(src), frozenset([r0]))
            elif ops[0] == src and ops[0] in REG64:
                st.fl = ('cmp', ('r', REG64[src][0]), ('k', 0), regs_of(src))
            return
        if g is None:
            # memory destination or no GPR destination: spill tracking for rsp slots, flags clobber
            if ops and is_mem(ops[0]) and mn == 'mov' and src in REG64 and REG64[src][1] == 64:
                m = parse_mem(ops[0])
                if m['base'] == 'rsp' and not m['index']:
                    st.slots[m['disp'] or 0] = st.r.get(REG64[src][0], TOPB)
                    st.slots.pop(('#p', m['disp'] or 0), None)
                    if REG64[src][0] in st.ptr:
                        st.slots[('#p', m['disp'] or 0)] = B(frozenset([(1, 0)]), frozenset([(1, 0)]), (1, 0))
            elif ops and is_mem(ops[0]) and parse_mem(ops[0])['base'] == 'rsp':
                st.slots.pop(parse_mem(ops[0])['disp'] or 0, None)
            if mn in ('push', 'pop', 'call'):
                st.slots = {}
            _, defs = regdef.def_use(i)
            for r in defs:
                self.setr(st, r, TOPB)
            import provenance
            if provenance.writes_flags(i):
                st.fl = None
            return
        d = g[0]
        if g[1] < 32:
            self.setr(st, d, TOPB)
            st.fl = None
            return
        if mn in ('mov', 'movsxd', 'movzx', 'movsx') and len(ops) == 2:
            if is_mem(src):
                m = parse_mem(src)
                v = TOPB
                isp = False
                if m['base'] == 'rsp' and not m['index'] and mn == 'mov' and g[1] == 64:
                    v = st.slots.get(m['disp'] or 0, TOPB)
                    isp = ('#p', m['disp'] or 0) in st.slots
                elif mn == 'mov' and g[1] == 64:
                    fa = self.fl.IN.get(i.addr)
                    if fa is not None and m['index'] in REG64 and (m['scale'] or 1) == 8 and m['base'] in REG64:
                        bvv = fa.get(REG64[m['base']][0])
                        if bvv is not None and bvv[0] == 'P' and bvv[1] == 'ARRAY' and (m['disp'] or 0) % 8 == 0:
                            # ghost: minus the index of the pointer-array element just loaded (kept as a sum relation with the index register)
                            ir = REG64[m['index']][0]
                            self.setr(st, '#nlast', TOPB)
                            if ir != d:
                                st.rel[tuple(sorted(('#nlast', ir)))] = (-((m['disp'] or 0) // 8), 0)
                    nx = self.fl.IN.get(i.end)
                    fv = nx.get(d) if nx else None
                    if fv is not None and fv[0] == 'P' and fv[2] == (0, 0) and self.buffer_tag(fv):
                        v = EX(0, 0, st.nmod)
                        isp = True
                self.setr(st, d, v)
                if isp:
                    st.ptr[d] = True
            elif mn == 'mov' or (src in REG64 and REG64[src][1] >= 32):
                sp = src in REG64 and REG64[src][1] == 64 and REG64[src][0] in st.ptr
                self.setr(st, d, self.get(st, src))
                if sp:
                    st.ptr[d] = True
            else:
                self.setr(st, d, TOPB)
            return
        if mn == 'lea' and is_mem(src):
            m = parse_mem(src)
            v = EX(m['disp'] or 0, 0, st.nmod)
            for r, s in ((m['base'], 1), (m['index'], m['scale'] or 1)):
                if r:
                    if r not in REG64:
                        v = TOPB
                        break
                    v = self.add(st, v, self.scale(self.get(st, r), s))
            sh = None
            if m['base'] in REG64 and REG64[m['base']][0] == d and not m['index']:
                sh = m['disp'] or 0
            nptr = sum(1 for r in (m['base'], m['index']) if r in REG64 and REG64[r][0] in st.ptr)
            okp = nptr == 1 and not (m['index'] in REG64 and REG64[m['index']][0] in st.ptr and (m['scale'] or 1) != 1)
            self.setr(st, d, v, shift=sh)
            if okp:
                st.ptr[d] = True
            return
        if mn in ('add', 'sub') and len(ops) == 2 and not is_mem(src):
            gmold = st.gm.get(d)
            v = self.add(st, self.get(st, ops[0]), self.get(st, src), 1 if mn == 'add' else -1)
            srcptr = src in REG64 and REG64[src][0] in st.ptr
            dptr = d in st.ptr
            self.setr(st, d, v, shift=(imm(src) * (1 if mn == 'add' else -1)) if IMM.match(src) else None, keepptr=dptr and not srcptr)
            if mn == 'add' and srcptr and not dptr:
                st.ptr[d] = True
            if mn == 'sub' and srcptr and dptr:
                st.ptr.pop(d, None)      # difference of two pointers: a scalar
            if gmold and gmold[0] == 'pow2' and mn == 'sub' and IMM.match(src) and imm(src) == 1:
                st.gm[d] = ('low', gmold[1])
            st.fl = ('cmp', ('r', d), ('k', 0), frozenset([d])) if mn == 'sub' or True else None
            return
        if mn in ('inc', 'dec') and len(ops) == 1:
            gmold = st.gm.get(d)
            v = self.add(st, self.get(st, ops[0]), EX(1, 0, st.nmod), 1 if mn == 'inc' else -1)
            self.setr(st, d, v, shift=1 if mn == 'inc' else -1, keepptr=True)
            if gmold and gmold[0] == 'pow2' and mn == 'dec':
                st.gm[d] = ('low', gmold[1])
            st.fl = ('cmp', ('r', d), ('k', 0), frozenset([d]))
            return
        if mn == 'xor' and len(ops) == 2 and ops[0] == src:
            self.setr(st, d, EX(0, 0, st.nmod))
            st.fl = None
            return
        if mn == 'and' and len(ops) == 2 and IMM.match(src):
            k = imm(src)
            old = self.get(st, ops[0])
            e = old.exact()
            if k >= 0:
                m = k + 1
                if m & k == 0 and 1 < m <= MAXMOD:
                    # low-bits mask: result = value mod m
                    res = B(frozenset([(0, 0)]), frozenset([(k, 0)]), (MAXMOD, old.mod[1] % m) if old.mod[0] >= m else (1, 0))
                    if old.mod[0] >= m:
                        res = EX(old.mod[1] % m, 0, st.nmod)
                    self.setr(st, d, res)
                    st.fl = ('mask', ('n', e), k, frozenset()) if e is not None and e[1] != 0 else None
                    return
                self.setr(st, d, B(frozenset([(0, 0)]), frozenset([(k, 0)]) | frozenset(u for u in old.hi if old.lo and all(l[1] == 0 and l[0] >= 0 for l in old.lo)), (1, 0)))
            else:
                # clearing low bits: value - (value mod 2^j) ; ~k = 2^j - 1
                low = ~k
                if (low + 1) & low == 0 and low + 1 <= MAXMOD:
                    lo = frozenset((c - low, kk) for c, kk in old.lo)
                    self.setr(st, d, B(lo, old.hi, (low + 1, 0)))
                else:
                    self.setr(st, d, TOPB)
            st.fl = None
            return
        if mn == 'imul' and len(ops) in (2, 3) and IMM.match(ops[-1]) and imm(ops[-1]) > 0 and not is_mem(ops[1]):
            base = self.get(st, ops[0] if len(ops) == 2 else ops[1])
            self.setr(st, d, self.scale(base, imm(ops[-1])))
            st.fl = None
            return
        if mn in ('shl', 'sal') and len(ops) == 2 and IMM.match(src):
            self.setr(st, d, self.scale(self.get(st, ops[0]), 1 << imm(src)))
            st.fl = None
            return
        if mn in ('shr', 'sar') and len(ops) == 2 and IMM.match(src):
            old = self.get(st, ops[0])
            s = 1 << imm(src)
            e = old.exact()
            if e is not None and e[0] % s == 0 and e[1] % s == 0:
                self.setr(st, d, EX(e[0] // s, e[1] // s, st.nmod))
            else:
                hi = frozenset((c // s, k // s) for c, k in old.hi if k % s == 0)
                self.setr(st, d, B(frozenset([(0, 0)]) if old.lo and all(l[1] == 0 and l[0] >= 0 for l in old.lo) else EMPTY, hi, (1, 0)))
            st.fl = None
            return
        if mn == 'neg':
            old = self.get(st, ops[0])
            self.setr(st, d, B(frozenset((-c, -k) for c, k in old.hi), frozenset((-c, -k) for c, k in old.lo), (old.mod[0], (-old.mod[1]) % old.mod[0]) if old.mod[0] > 1 else (1, 0)))
            st.fl = None
            return
        if mn.startswith('cmov') and len(ops) == 2:
            a, b = self.get(st, ops[0]), self.get(st, src) if not is_mem(src) else TOPB
            self.setr(st, d, join_b(a, b, st.nlo))
            return
        if mn.startswith('set'):
            self.setr(st, d, TOPB)
            return
        if mn == 'bts' and len(ops) == 2 and src in REG64 and self.get(st, ops[0]).exact() == (0, 0):
            cnt = REG64[src][0]
            self.setr(st, d, TOPB)
            st.gm[d] = ('pow2', cnt)
            st.fl = None
            return
        if mn == 'bzhi' and len(ops) == 3 and ops[2] in REG64 and self.get(st, ops[1]).exact() == (-1, 0):
            cnt = REG64[ops[2]][0]
            self.setr(st, d, TOPB)
            st.gm[d] = ('low', cnt)
            st.fl = None
            return
        if mn == 'or' and len(ops) == 2 and IMM.match(src) and imm(src) == -1:
            self.setr(st, d, EX(-1, 0, st.nmod))
            st.fl = None
            return
        _, defs = regdef.def_use(i)
        for r in set(defs) | {d}:
            self.setr(st, r, TOPB)
        st.fl = None

    # ---------------------------------------------------------------- fixpoint
    def run(self):
        u, f = self.u, self.f
        st0 = State()
        st0.nlo = 0            # lengths are non-negative (the properties quantify over len >= 0)
        if self.count_reg:
            st0.r[self.count_reg] = B(frozenset([(0, 1)]), frozenset([(0, 1)]), (1, 0))
        for r in self.ptr_args:
            st0.r[r] = EX(0, 0, (1, 0))
            st0.ptr[r] = True
        for r in self.zero_regs:
            st0.r[r] = EX(0, 0, (1, 0))
        self.IN = {f.entry: st0}
        # loop back edges = edges to a node that is on the depth-first stack (retreating edges)
        self.backedges = set()
        color = {}
        stack = [(f.entry, iter(u.succ(f, f.entry)))]
        color[f.entry] = 1
        while stack:
            node, it_ = stack[-1]
            adv = False
            for nx in it_:
                if nx not in f.aset:
                    continue
                c = color.get(nx, 0)
                if c == 1:
                    self.backedges.add((node, nx))
                elif c == 0:
                    color[nx] = 1
                    stack.append((nx, iter(u.succ(f, nx))))
                    adv = True
                    break
            if not adv:
                color[node] = 2
                stack.pop()
        work = [f.entry]
        it = 0
        while work:
            a = work.pop()
            it += 1
            if it > 200000:
                raise AnalysisBroken('%s:%s: BOUNDS did not converge' % (u.name, f.name))
            i = u.insns[a]
            if a in self.cut:
                continue
            st = self.IN[a].copy()
            self.transfer(st, i)
            succs = []
            if is_cond_jump(i.mn):
                cc = i.mn[1:]
                for tgt, taken in ((i.target, True), (i.end, False)):
                    if tgt in f.aset:
                        s2 = self.refine(st.copy(), cc, taken)
                        self.close(s2)
                        succs.append((tgt, s2))
            else:
                ss = u.succ(f, a)
                if len(ss) == 1 and ss[0] != i.end:
                    self.close(st)
                for n in ss:
                    succs.append((n, st))
            for n, s in succs:
                self.merge(n, s, work, src=a)
        return self.IN

    def merge(self, n, s, work, src=None):
        if n not in self.IN:
            self.IN[n] = s
            work.append(n)
            return
        old = self.IN[n]
        # widening only along backward edges (loops are backward jumps in the assembled code), counted per edge
        back = (src, n) in self.backedges
        self.visits[(src, n)] = self.visits.get((src, n), 0) + 1
        widen = back and self.visits[(src, n)] > 4
        new = State()
        new.nlo = None if old.nlo is None or s.nlo is None else min(old.nlo, s.nlo)
        new.nhi = None if old.nhi is None or s.nhi is None else max(old.nhi, s.nhi)
        new.nmod = mod_join(old.nmod, s.nmod)
        new.fl = old.fl if old.fl == s.fl else None
        for r in set(old.r) & set(s.r):
            j = join_b(old.r[r], s.r[r], new.nlo, widen, old.nlo, s.nlo)
            if j != TOPB:
                new.r[r] = j
        for k in set(old.slots) & set(s.slots):
            j = join_b(old.slots[k], s.slots[k], new.nlo, widen, old.nlo, s.nlo)
            if j != TOPB:
                new.slots[k] = j
        # relations between two registers: kept when both sides agree, or created when both registers are exact on both
        # sides with the same sum (the classic pair: position counted up, remaining length counted down)
        for key in set(old.rel) | set(s.rel):
            vo, vs = old.rel.get(key), s.rel.get(key)
            for x, other in ((vo, s), (vs, old)):
                if x is None:
                    continue
            def val(state, key):
                if key in state.rel:
                    return state.rel[key]
                a, b = state.r.get(key[0], TOPB).exact(), state.r.get(key[1], TOPB).exact()
                return (a[0] + b[0], a[1] + b[1]) if a is not None and b is not None else None
            a_, b_ = val(old, key), val(s, key)
            if a_ is not None and a_ == b_:
                new.rel[key] = a_
        ex_o = {r: v.exact() for r, v in old.r.items() if v.exact() is not None}
        ex_s = {r: v.exact() for r, v in s.r.items() if v.exact() is not None}
        both = sorted(set(ex_o) & set(ex_s))
        for x in range(len(both)):
            for y in range(x + 1, len(both)):
                r1, r2 = both[x], both[y]
                if ex_o[r1] == ex_s[r1] or ex_o[r2] == ex_s[r2]:
                    continue
                so = (ex_o[r1][0] + ex_o[r2][0], ex_o[r1][1] + ex_o[r2][1])
                ss = (ex_s[r1][0] + ex_s[r2][0], ex_s[r1][1] + ex_s[r2][1])
                if so == ss:
                    new.rel[(r1, r2)] = so
        new.ptr = {k: True for k in old.ptr if k in s.ptr}
        for k in [k for k in new.r if (k in old.ptr) != (k in s.ptr)]:
            del new.r[k]          # a pointer offset on one side, a scalar on the other
        new.gm = {k: v for k, v in old.gm.items() if s.gm.get(k) == v}
        new.km = {k: v for k, v in old.km.items() if s.km.get(k) == v}
        if new.key() != old.key():
            self.IN[n] = new
            work.append(n)

    def edge_state(self, a, succ):
        """abstract state on the CFG edge a -> succ (after the instruction at a, refined by its branch condition)"""
        if a not in self.IN:
            return None
        i = self.u.insns[a]
        st = self.IN[a].copy()
        self.transfer(st, i)
        if is_cond_jump(i.mn):
            taken = succ == i.target
            if i.target == i.end:
                return st
            st = self.refine(st, i.mn[1:], taken)
        self.close(st)
        return st

    def loops(self):
        """[(header, body set)] natural loops of the function from the back edges found by run()"""
        preds = {}
        for a in self.f.addrs:
            for n in self.u.succ(self.f, a):
                preds.setdefault(n, []).append(a)
        out = {}
        for s_, h in self.backedges:
            body = {h, s_}
            work = [s_]
            while work:
                x = work.pop()
                if x == h:
                    continue
                for p_ in preds.get(x, []):
                    if p_ not in body:
                        body.add(p_)
                        work.append(p_)
            out.setdefault(h, set()).update(body)
        return sorted(out.items())

    # ---------------------------------------------------------------- verdicts
    def offset_bounds(self, a, acc):
        """bounds of the byte offset of access acc relative to the start of its object, or None if the base is not a constant-offset pointer"""
        st = self.IN.get(a)
        fst = self.fl.IN.get(a)
        if st is None or fst is None:
            return None
        m = acc.mem
        parts = []
        ptr = None
        for r, s in ((m['base'], 1), (m['index'], m['scale'] or 1)):
            if not r:
                continue
            if r not in REG64:
                return None
            v = fst.get(REG64[r][0])
            if REG64[r][0] in st.ptr:
                if ptr is not None or s != 1:
                    return None
                ptr = ('P', None, (0, 0))
                parts.append(st.r.get(REG64[r][0], TOPB))
            elif v is not None and v[0] == 'P':
                if ptr is not None or s != 1 or v[2] is None or v[2][1] != 0:
                    return None
                ptr = v
            else:
                parts.append(self.scale(st.r.get(REG64[r][0], TOPB), s))
        if ptr is None:
            return None
        off = EX((m['disp'] or 0) + ptr[2][0], 0, st.nmod)
        regs2 = [REG64[r][0] for r in (m['base'], m['index']) if r in REG64]
        if len(regs2) == 2 and (m['scale'] or 1) == 1 and tuple(sorted(regs2)) in st.rel and ptr[1] is None:
            S = st.rel[tuple(sorted(regs2))]          # pointer offset + remaining length are tied together: the sum is exact
            return self.add(st, off, EX(S[0], S[1], st.nmod)), st
        for p in parts:
            off = self.add(st, off, p)
        return off, st


    def verdict(self, a, acc, length=(0, 1)):
        """'in' | 'unknown' | None (base not a constant-offset pointer) for an access into a buffer of `length` = (c, k) bytes"""
        r = self.offset_bounds(a, acc)
        if r is None:
            return None, None
        off, st = r
        W = acc.size or 1
        lo_ok = any(le((0, 0), l, st.nlo) for l in off.lo)
        mk = re.search(r'\{(k[1-7])\}', acc.insn.text)
        if mk:
            # masked access: the bytes touched are those selected by the mask; a mask of `cnt` low bits with position + cnt tied to the length by a relation
            elem = {'8': 1, '16': 2, '32': 4, '64': 8}.get((re.search(r'(8|16|32|64)$', acc.insn.mn) or [None, None])[1] if re.search(r'(8|16|32|64)$', acc.insn.mn) else None)
            cnt = st.km.get(mk.group(1))
            m = acc.mem
            fst = self.fl.IN.get(a)
            idx = [REG64[x][0] for x in (m['base'], m['index']) if x in REG64 and fst.get(REG64[x][0], ('SC',))[0] != 'P']
            ptr = [fst.get(REG64[x][0]) for x in (m['base'], m['index']) if x in REG64 and fst.get(REG64[x][0], ('SC',))[0] == 'P']
            hi_ok = False
            if elem == 1 and cnt:
                if len(idx) == 1 and len(ptr) == 1 and (m['scale'] or 1) == 1 and ptr[0][2] is not None and ptr[0][2][1] == 0:
                    S = st.rel.get(tuple(sorted((idx[0], cnt))))
                    if S is not None:
                        c = (m['disp'] or 0) + ptr[0][2][0]
                        hi_ok = le((S[0] + c, S[1]), length, st.nlo)
                pregs = [REG64[x][0] for x in (m['base'], m['index']) if x in REG64 and REG64[x][0] in st.ptr]
                if not hi_ok and len(pregs) == 1 and not idx:
                    S = st.rel.get(tuple(sorted((pregs[0], cnt))))
                    if S is not None:
                        hi_ok = le((S[0] + (m['disp'] or 0), S[1]), length, st.nlo)
                cb = st.r.get(cnt, TOPB)
                if not hi_ok and cb.hi:
                    hi_ok = any(le((u[0] + v[0], u[1] + v[1]), length, st.nlo) for u in off.hi for v in cb.hi)
            return ('in' if lo_ok and hi_ok else 'unknown'), (off, st.nlo, st.nmod, lo_ok, hi_ok)
        hi_ok = any(le((u[0] + W, u[1]), length, st.nlo) for u in off.hi)
        return ('in' if lo_ok and hi_ok else 'unknown'), (off, st.nlo, st.nmod, lo_ok, hi_ok)


# ------------------------------------------------------------------ the rule
LEN_REG = {'raid_pq_gen': 'rsi', 'raid_pq_check': 'rsi', 'ec_dot_prod': 'rdi', 'ec_mad': 'rdi', 'ec_mul': 'rdi', 'mem_zero': 'rsi',
           'crc': 'rdx', 'crc_copy': 'rcx', 'adler': 'rdx'}
LEN_REG_SYM = {r'^crc32_iscsi_': 'rsi'}      # crc32_iscsi(buffer, len, init)


def len_reg(sym, fam):
    for pat, r in LEN_REG_SYM.items():
        if re.match(pat, sym):
            return r
    return LEN_REG[fam]
NBUF_TAGS_OLD = {'ARRAY[]', 'SRCARR[]', 'DESTARR[]', 'SRC', 'DEST', 'BUF'}
# kernels whose loops stay inside the abstract domain (index register + constant-offset base pointer, guards against len):
# every access of these kernels is required to be proved.  The others use idioms the domain does not express; they are
# listed with the reason and only reported as not decided.
OUTSIDE = {
    r'^crc32_iscsi_0[01]$': 'a computed jump enters an unrolled block of crc32 instructions whose operands are addressed relative to three end pointers; the block count is a quotient of the length',
    r'^adler32_': 'the block size is min(size, LIMIT) selected by cmova: the end pointer is bounded by a relation between two run-time registers',
    r'^mem_zero_detect_avx2$': 'the loops count blocks (len >> 7, len >> 4) while the pointer advances by the block size: a multiplicative relation between two registers',
    r'^mem_zero_detect_avx512$': 'the first, alignment-dependent block is read through a k-mask whose bit count is min(64 - (src & 63), len): a relation between the address and the length',
}
# kernels that are analysed, whose vector loops must be proved, but whose byte-granular tails are outside the domain
OUTSIDE_TAIL = {
    r'^gf_\dvect_(mad|dot_prod)_avx2_gfni$|^gf_vect_(mad|dot_prod)_avx2_gfni$': 'the tail loads and stores single bytes / words through a pointer advanced by data-dependent amounts (simd_load_avx2 / simd_store_avx2 macros of include/memcpy.asm)',
}


def outside_tail(sym):
    for pat, why in OUTSIDE_TAIL.items():
        if re.match(pat, sym):
            return why
    return None


def outside_reason(sym):
    for pat, why in OUTSIDE.items():
        if re.match(pat, sym):
            return why
    return None


def check(rep, families, suffix, floor):
    import provenance
    R = rep.rule('M-BOUNDS-' + suffix,
                 'abstract interpretation (affine bounds in len x congruences x entry-guard facts about len, branch refinement, widening) of the index registers of the block kernels: every access '
                 '[base + index*scale + disp] of W bytes whose base is a caller buffer of len bytes satisfies 0 <= offset and offset + W <= len on every path, for every len >= 0 that passes the kernel\'s own guards; '
                 'kernels outside the domain (two-register length/position relations, k-mask tails) are listed as not decided', floor=floor, unit='kernels')
    res, _ = provenance.analyse('default')
    n_undecided = 0
    for sym, info in sorted(res.items()):
        fam = info['fam']['family']
        if fam not in families or fam not in LEN_REG:
            continue
        why = outside_reason(sym)
        u, f = info['unit'], info['func']
        if why:
            n_undecided += 1
            R.notes.append('%s: not decided (%s)' % (sym, why))
            continue
        why = outside_tail(sym)
        R.instance()
        pargs = [r for r, v in info['fam']['args'].items() if v[0] == 'P' and isinstance(v[1], str) and v[1] in NBUF_TAGS and v[2] == (0, 0)]
        bd = Bounds(u, f, info['flow'], len_reg(sym, fam), ptr_args=pargs)
        bd.run()
        nin = 0
        nskip = 0
        for a in info['accesses']:
            if a.addr[0] != 'P' or provenance.base_tag(a.addr) not in NBUF_TAGS:
                continue
            v, d = bd.verdict(a.insn.addr, a)
            if v is None:
                nskip += 1
                continue
            if v == 'in':
                nin += 1
                R.ok(1)
                continue
            if why and a.insn.line and a.insn.line[0].endswith('memcpy.asm'):
                nskip += 1          # byte-granular tail macro of a kernel whose vector loop is inside the domain
                continue
            off, nlo, nmod, lo_ok, hi_ok = d
            what = []
            if not hi_ok:
                what.append('no upper bound shows offset + %d <= len (upper bounds of the offset: %s)' % (a.size or 1, fmt(off.hi) or 'none'))
            if not lo_ok:
                what.append('no lower bound shows offset >= 0 (lower bounds: %s)' % (fmt(off.lo) or 'none'))
            R.fail('%s: %s' % (u.name, u.where(a.insn, f)), '%s of %d bytes through %s: %s; known about len here: len >= %s, len = %d mod %d' %
                   (a.kind, a.size or 1, provenance.base_tag(a.addr), '; '.join(what), nlo, nmod[1], nmod[0]),
                   key='M-BOUNDS|%s|%s' % (sym, re.sub(r'\s+', ' ', a.insn.text)))
        if nin == 0:
            raise AnalysisBroken('%s: no access into a length-bounded buffer was recognised' % sym)
        if why:
            R.notes.append('%s: main loop proved (%d accesses); %d tail accesses not decided (%s)' % (sym, nin, nskip, why))
        if sym.endswith(('6vect_mad_avx2', 'pq_gen_avx2', 'gf_vect_mul_sse', 'mem_zero_detect_sse', '6vect_mad_avx512_gfni', '3vect_dot_prod_avx2_gfni')):
            R.notes.append('%s: %d accesses proved inside [0,len)%s' % (sym, nin, ', %d accesses through pointer arithmetic not decided' % nskip if nskip else ''))
    rep.analysed['bounds_kernels_not_decided_' + suffix] = n_undecided
    return R


def fmt(s):
    return ', '.join('%d%s' % (c, {0: '', 1: '+len', -1: '-len'}.get(k, '%+d*len' % k)) for c, k in sorted(s))


def check_src_cover(rep, floor):
    """R-SRC-COVER: RAID kernels walk the source pointers from the last one down; every innermost loop that loads source pointers
    from the array must have loaded array[0] last when it exits (ghost register = index of the last element loaded)."""
    import provenance
    R = rep.rule('R-SRC-COVER', 'RAID asm kernels: every innermost loop that fetches source pointers array[i] with a decreasing index leaves, on each of its exit edges, with array[0] as the last element fetched '
                 '(abstract interpretation of the index register with a ghost variable for the last fetched index, exact on the exit edge): no source block is left out of the parity', floor=floor, unit='loops')
    res, _ = provenance.analyse('default')
    for sym, info in sorted(res.items()):
        if not info['fam']['family'].startswith('raid_'):
            continue
        u, f = info['unit'], info['func']
        bd = Bounds(u, f, info['flow'], 'rsi')
        bd.run()
        loops = bd.loops()
        heads = {h for h, _ in loops}
        for h, body in loops:
            if any(h2 in body for h2 in heads if h2 != h):
                continue
            lds = []
            for a in sorted(body):
                i = u.insns[a]
                if i.mn == 'mov' and len(i.ops) == 2 and is_mem(i.ops[1]) and i.ops[0] in REG64:
                    m = parse_mem(i.ops[1])
                    fa = info['flow'].IN.get(a)
                    bv = fa.get(REG64[m['base']][0]) if fa is not None and m['base'] in REG64 else None
                    if m['index'] in REG64 and (m['scale'] or 1) == 8 and bv is not None and bv[0] == 'P' and bv[1] == 'ARRAY':
                        lds.append(i)
            if not lds:
                continue
            R.instance()
            for a in sorted(body):
                for sx in u.succ(f, a):
                    if sx in body:
                        continue
                    st = bd.edge_state(a, sx)
                    g = st.r.get('#nlast', TOPB) if st else TOPB
                    e = g.exact()
                    R.check(e == (0, 0), '%s: %s' % (u.name, u.where(u.insns[a], f)), 'the loop fetching source pointers at %s exits here with array[%s] as the last element fetched; it must be array[0] - the blocks below that index are not folded into the parity'
                            % (u.where(lds[0], f), ('%d' % -e[0]) if e is not None and e[1] == 0 else 'an index in [%s, %s]' % (', '.join('%d' % -x[0] for x in sorted(g.hi) if x[1] == 0) or '?', ', '.join('%d' % -x[0] for x in sorted(g.lo) if x[1] == 0) or '?')),
                            key='R-SRC-COVER|%s|%#x' % (sym, h - f.entry), sample='%s loop@+%#x: exits after fetching array[0]' % (sym, h - f.entry) if sym.endswith('_avx') else None)
    return R


def check_len_width(rep, families, suffix, floor):
    """L-LEN-WIDTH: kernels whose length parameter is 64 bits wide (size_t / uint64_t) must not do 32-bit arithmetic in place on a value
    that still depends on the full length, unless the branch conditions on the path bound it below 2^32."""
    import provenance
    R = rep.rule('L-LEN-WIDTH-' + suffix, 'kernels taking a 64-bit length: every in-place 32-bit arithmetic instruction (shift, add, sub, inc, dec, neg, lea) whose destination register holds a value that depends on the '
                 'length has that value bounded below 2^32 by the guards on every path (BOUNDS: a constant upper bound, or an upper bound on the length itself); otherwise the upper half of a large length is silently dropped',
                 floor=floor, unit='kernels')
    res, _ = provenance.analyse('default')
    ARITH = ('shr', 'sar', 'shl', 'sal', 'add', 'sub', 'inc', 'dec', 'neg', 'lea', 'imul', 'sbb', 'adc')
    for sym, info in sorted(res.items()):
        fam = info['fam']['family']
        if fam not in families or re.match(r'^crc32_iscsi_', sym):      # crc32_iscsi(buffer, int len, init): a 32-bit length
            continue
        R.instance()
        u, f = info['unit'], info['func']
        pargs = [r for r, v in info['fam']['args'].items() if v[0] == 'P' and isinstance(v[1], str) and v[1] in NBUF_TAGS and v[2] == (0, 0)]
        bd = Bounds(u, f, info['flow'], len_reg(sym, fam), ptr_args=pargs)
        bd.run()
        # which registers hold a value computed from the length argument (may-taint, forward)
        lr = len_reg(sym, fam)
        TIN = {f.entry: frozenset([lr])}
        work = [f.entry]
        while work:
            a = work.pop()
            t = set(TIN[a])
            i = u.insns[a]
            ops = i.ops
            d = REG64.get(ops[0]) if ops and not is_mem(ops[0]) else None
            if d is not None and i.mn not in ('cmp', 'test', 'push') and not is_cond_jump(i.mn):
                uses, _ = regdef.def_use(i)
                addr = set()
                if i.mn != 'lea':
                    for o in ops:
                        if is_mem(o):
                            m = parse_mem(o)
                            addr |= {REG64[x][0] for x in (m['base'], m['index']) if x in REG64}
                tainted = any(x in t for x in uses if x not in addr or x in [REG64[o][0] for o in ops if o in REG64])
                if i.mn == 'and' and len(ops) == 2 and IMM.match(ops[1]) and 0 <= imm(ops[1]) < (1 << 31):
                    tainted = False
                if i.mn in ('xor', 'sub') and len(ops) == 2 and ops[0] == ops[1]:
                    tainted = False
                if i.mn.startswith('set') or (i.mn in ('mov', 'movzx') and len(ops) == 2 and (is_mem(ops[1]) or IMM.match(ops[1]))):
                    tainted = False
                if tainted:
                    t.add(d[0])
                else:
                    t.discard(d[0])
            elif d is None and ops:
                _, defs = regdef.def_use(i)
                for r_ in defs:
                    t.discard(r_)
            ft = frozenset(t)
            for nx in u.succ(f, a):
                if nx not in TIN:
                    TIN[nx] = ft
                    work.append(nx)
                elif not ft <= TIN[nx]:
                    TIN[nx] = TIN[nx] | ft
                    work.append(nx)
        n = 0
        for a in f.addrs:
            i = u.insns[a]
            if i.mn not in ARITH or not i.ops or i.ops[0] not in REG64 or REG64[i.ops[0]][1] != 32:
                continue
            st = bd.IN.get(a)
            if st is None or a not in TIN:
                continue
            r = REG64[i.ops[0]][0]
            if i.mn == 'lea':
                m = parse_mem(i.ops[1])
                srcs = [REG64[x][0] for x in (m['base'], m['index']) if x in REG64]
            else:
                srcs = [r]
            for sr in srcs:
                if sr not in TIN[a]:
                    continue
                v = st.r.get(sr, TOPB)
                n += 1
                small = any(x[1] == 0 and x[0] < (1 << 32) for x in v.hi) or (st.nhi is not None and st.nhi < (1 << 31))
                R.check(small, '%s: %s' % (u.name, u.where(i, f)), '32-bit "%s" on %s, which holds a value computed from the 64-bit length and not bounded below 2^32 on this path (bounds %s, length known to be <= %s): for lengths of 4 GiB or more the upper half is dropped' %
                        (re.sub(r'\s+', ' ', i.text), sr, v, 'nothing' if st.nhi is None else st.nhi), key='L-LEN-WIDTH|%s|%s' % (sym, re.sub(r'\s+', ' ', i.text)),
                        sample='%s: 32-bit "%s" only where the value is < 2^32' % (sym, re.sub(r'\s+', ' ', i.text)))
        if n == 0:
            R.ok(1, sample='%s: no 32-bit arithmetic on a length-dependent value' % sym if sym.endswith('avx512') else None)
    return R
