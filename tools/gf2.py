"""Reference arithmetic over GF(2)[x], written independently of the library:
carry-less multiplication, reduction, GF(2^8)/0x11D, CRC definitions."""


def clmul(a, b):
    r = 0
    while b:
        if b & 1:
            r ^= a
        a <<= 1
        b >>= 1
    return r


def deg(p):
    return p.bit_length() - 1


def pmod(a, p):
    dp = deg(p)
    while a and deg(a) >= dp:
        a ^= p << (deg(a) - dp)
    return a


def pdivmod(a, p):
    dp = deg(p)
    q = 0
    while a and deg(a) >= dp:
        s = deg(a) - dp
        q |= 1 << s
        a ^= p << s
    return q, a


def xpow_mod(e, p):
    """x^e mod p, e >= 0"""
    r = 1
    b = 2
    while e:
        if e & 1:
            r = pmod(clmul(r, b), p)
        b = pmod(clmul(b, b), p)
        e >>= 1
    return pmod(r, p)


def bitrev(v, n):
    r = 0
    for i in range(n):
        if v >> i & 1:
            r |= 1 << (n - 1 - i)
    return r


GF_POLY = 0x11D


def gfmul(a, b):
    return pmod(clmul(a, b), GF_POLY)


def gfinv(a):
    # a^254
    r = 1
    for _ in range(254):
        r = gfmul(r, a)
    return r


def crc_byte_table(poly, width, reflected):
    """table[i] = CRC register after feeding byte i into a zero register (no init/xorout).
    poly: normal-form polynomial without the x^width term."""
    tab = []
    mask = (1 << width) - 1
    if not reflected:
        for i in range(256):
            r = i << (width - 8)
            for _ in range(8):
                r = ((r << 1) ^ poly) & mask if r >> (width - 1) & 1 else (r << 1) & mask
            tab.append(r)
    else:
        rp = bitrev(poly, width)
        for i in range(256):
            r = i
            for _ in range(8):
                r = (r >> 1) ^ rp if r & 1 else r >> 1
            tab.append(r)
    return tab


def crc_bitwise(data, poly, width, reflected, init, xorout):
    """bit-by-bit CRC straight from the definition (Rocksoft model, refin == refout)."""
    mask = (1 << width) - 1
    r = init
    if not reflected:
        for b in data:
            r ^= b << (width - 8)
            for _ in range(8):
                r = ((r << 1) ^ poly) & mask if r >> (width - 1) & 1 else (r << 1) & mask
    else:
        rp = bitrev(poly, width)
        for b in data:
            r ^= b
            for _ in range(8):
                r = (r >> 1) ^ rp if r & 1 else r >> 1
    return r ^ xorout
