#!/usr/bin/env python3
"""mutsurvey.py <shard> <nshards> <count> [seed] : development aid, not a check.  Applies random single-line mutations (comparison operators,
small constants, jcc conditions, boolean connectives) to the library sources in a scratch worktree, runs every claimed check against each
mutant (from a frozen snapshot of /verif given by SEED_VERIF) and appends one JSON line per mutant to /tmp/mutsurvey_<shard>.jsonl:
which rules report it, or MISSED, or that it does not build.  Many mutants are behaviour-preserving or would be caught by the test suite;
the point is the map of files / regions where nothing ever fires."""
import json, os, random, re, subprocess, sys, tempfile, shutil
V = '/verif'
VRUN = os.environ.get('SEED_VERIF', V)
shard, nshards, count = int(sys.argv[1]), int(sys.argv[2]), int(sys.argv[3])
rnd = random.Random(int(sys.argv[4]) if len(sys.argv) > 4 else 12345)
checks = [c['property_id'] for c in json.load(open(VRUN + '/MANIFEST.json'))['checks']]

DIRS = ['igzip', 'erasure_code', 'crc', 'raid', 'mem']
SKIP = re.compile(r'(_test|_perf|_example|_fuzz|generate_|aarch64|ppc64le|riscv64|_base_aliases|igzip_file_perf|igzip_sync_flush|igzip_stateless_file|igzip_hist_perf|igzip_semi_dyn|igzip_build_hash|igzip_wrapper_hdr|checksum_test|igzip_inflate_multibinary|igzip_multibinary|_multibinary|heap_macros|stdmac|bitbuf2.asm|data_struct2|inflate_data_structs|lz0a_const|options.asm|igzip_compare_types|huffman.asm|static_inflate.h|hufftables_c.c|igzip_checksums.h)')


def files(wt):
    out = []
    for d in DIRS:
        for fn in sorted(os.listdir(os.path.join(wt, d))):
            if fn.endswith(('.c', '.asm')) and not SKIP.search(fn):
                out.append(os.path.join(d, fn))
    return out


C_OPS = [(r'(?<![<>=!+\-])<(?![<=])', '<='), (r'<=', '<'), (r'(?<![<>=!\-])>(?![>=])', '>='), (r'>=', '>'), (r'==', '!='), (r'!=', '=='), (r'&&', '||'), (r'\|\|', '&&'),
         (r'\+=', '-='), (r'\b(\d+)\b', 'INC'), (r' \+ ', ' - '), (r' - ', ' + ')]
ASM_J = {'jae': 'ja', 'ja': 'jae', 'jb': 'jbe', 'jbe': 'jb', 'jl': 'jle', 'jle': 'jl', 'jg': 'jge', 'jge': 'jg', 'je': 'jne', 'jne': 'je', 'jz': 'jnz', 'jnz': 'jz', 'jnc': 'jc', 'jc': 'jnc'}


def mutate_line(line, is_asm):
    code = line.split(';')[0] if is_asm else line
    if is_asm:
        m = re.match(r'^(\s+)(j\w+)(\s+.*)$', code)
        cands = []
        if m and m.group(2) in ASM_J:
            cands.append(('jcc', m.group(1) + ASM_J[m.group(2)] + m.group(3)))
        for mm in re.finditer(r'(?<![\w.])(0x[0-9a-fA-F]+|\d+)(?![\w.*])', code):
            if re.match(r'^\s*(cmp|add|sub|mov|and|test|shl|shr|lea|vp\w+|p\w+)\b', code) and not re.match(r'^\s*%', code):
                v = int(mm.group(1), 0)
                if v < 4096:
                    cands.append(('imm', code[:mm.start()] + str(v + 1) + code[mm.end():]))
        for mm in re.finditer(r'\b([xyz]mm)(\d+)\b', code):
            n = int(mm.group(2))
            cands.append(('vreg', code[:mm.start()] + mm.group(1) + str((n + 1) % 16) + code[mm.end():]))
        if not cands:
            return None
        k, new = rnd.choice(cands)
        return k, new + ('\n' if not new.endswith('\n') else '')
    if re.match(r'^\s*(#|//|\*|/\*)', code) or 'assert' in code:
        return None
    cands = []
    for pat, rep in C_OPS:
        for mm in re.finditer(pat, code):
            if rep == 'INC':
                v = int(mm.group(1))
                if v > 4096 or re.search(r'[\w.]$', code[:mm.start()]) or code[mm.end():mm.end() + 1] in ('x', 'u', 'U', 'L', '.'):
                    continue
                cands.append(('const', code[:mm.start()] + str(v + 1) + code[mm.end():]))
            else:
                cands.append((rep, code[:mm.start()] + rep + code[mm.end():]))
    if not cands:
        return None
    return rnd.choice(cands)


def in_function_body_c(lines, idx):
    # crude: indentation > 0 and not inside a comment block start
    return lines[idx].startswith((' ', '\t')) and not lines[idx].lstrip().startswith(('*', '/*', '//'))


wt = tempfile.mkdtemp(prefix='mutsv-')
os.rmdir(wt)
subprocess.check_call(['git', '-C', '/repo', 'worktree', 'add', '-q', '--detach', wt, 'HEAD'])
out = open('/tmp/mutsurvey_%d.jsonl' % shard, 'a')
try:
    fl = files(wt)
    plan = []
    while len(plan) < count * nshards:
        fn = rnd.choice(fl)
        lines = open(os.path.join(wt, fn), errors='replace').read().split('\n')
        idx = rnd.randrange(len(lines))
        is_asm = fn.endswith('.asm')
        if not is_asm and not in_function_body_c(lines, idx):
            continue
        if is_asm and (not lines[idx].startswith(('\t', ' ')) or lines[idx].lstrip().startswith((';', '%', 'd', 'section', 'align', 'global', 'extern', 'mk_global', 'default', 'endbranch'))):
            continue
        m = mutate_line(lines[idx], is_asm)
        if m is None:
            continue
        plan.append((fn, idx, m[0], m[1].rstrip('\n')))
    plan = plan[shard::nshards][:count]
    for fn, idx, kind, new in plan:
        subprocess.check_call(['git', '-C', wt, 'checkout', '-q', '--', '.'])
        p = os.path.join(wt, fn)
        lines = open(p, errors='replace').read().split('\n')
        old = lines[idx]
        lines[idx] = new
        open(p, 'w').write('\n'.join(lines))
        det, broken = [], []
        for c in checks:
            r = subprocess.run([VRUN + '/check', c], env=dict(os.environ, VERIF_REPO=wt), stdout=subprocess.PIPE, stderr=subprocess.STDOUT, text=True)
            if r.returncode == 1:
                det.append('%s[%s]' % (c, ' '.join(sorted(set(re.findall(r'violation \[([^\]]+)\]', r.stdout)))[:3])))
            elif r.returncode != 0:
                broken.append('%s:%s' % (c, (re.findall(r'ANALYSIS-BROKEN[^\n]*', r.stdout) or [''])[0][:120]))
        rec = dict(file=fn, line=idx + 1, kind=kind, old=old.strip()[:100], new=new.strip()[:100], detected=det, broken=broken)
        out.write(json.dumps(rec) + '\n')
        out.flush()
finally:
    subprocess.call(['git', '-C', '/repo', 'worktree', 'remove', '--force', wt])
    shutil.rmtree(wt, ignore_errors=True)
    subprocess.call(['git', '-C', '/repo', 'worktree', 'prune'])
