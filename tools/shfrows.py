"""T-SHF-ROWS: the short-length paths of the folding CRC kernels move the last partial block into place with PSHUFB, the selector being a 16-byte ROW read from a
shift table at an offset computed from the length (pshufb_shf_table + c +- len).  Only some rows of such a table are byte shifts (the tables are built so that the
rows actually used are; the first / last row of several of them is not), so the interval of lengths that can reach each row load is part of the contract between
the length dispatch and the table.  For every 16-byte vector load from a data symbol whose offset is  const + k * len@entry  (whole-function linear forms of
tools/asmlin.py; the symbol and addend from the relocation of the lea that formed the pointer), with len in [lo, hi] taken from the branch-refined facts of
tools/bounds.py at that instruction, every reachable row has to be a pure byte shift: there is d such that selector i is i+d when 0 <= i+d <= 15 and has bit 7 set (lane zeroed) otherwise.  Loads whose offset depends on loop state are counted as not decided."""
import re
from asmdb import is_mem, parse_mem, REG64, VREG
from common import AnalysisBroken
import asmlin, bounds, provenance, remint
from math import inf


def pure_shift(row):
    for d in range(-16, 17):
        ok = True
        for i, b in enumerate(row):
            j = i + d
            if 0 <= j <= 15:
                if b != j:
                    ok = False
                    break
            elif not (b & 0x80):
                ok = False
                break
        if ok:
            return d
    return None


def remainder_rows(R, RI, u, f, sym, i):
    """rows reachable through a table pointer whose offset REMINT bounds by constants; False when it cannot"""
    pm = parse_mem(next(o for o in i.ops if is_mem(o)))
    if not pm or pm['rip'] or pm['index'] or not pm['base']:
        return False
    got = RI.offset_of(i.addr, pm['base'])
    if got is None:
        return False
    lea, (lo, hi, md, rr) = got
    if lo in (inf, -inf) or hi in (inf, -inf) or hi - lo > 4096:
        return False
    tsec, tsym, off0 = RI.base[lea]
    y = u.elf.syms.get(tsym)
    data = u.elf.secbytes(tsec) if tsec else None
    if y is None or data is None:
        raise AnalysisBroken('T-SHF-ROWS: %s: cannot read the data of %s' % (sym, tsym))
    for o in range(lo, hi + 1):
        if md > 1 and (o - rr) % md:
            continue
        R.instance()
        at = y.value + off0 + (pm['disp'] or 0) + o
        row = data[at:at + 16] if 0 <= at and at + 16 <= len(data) else None
        d = pure_shift(row) if row is not None else None
        R.check(d is not None, '%s: %s' % (u.name, u.where(i, f)), '%s: behind the fold loops the remainder register lets this load reach %s%+d, %s: the partial block is garbled on its way into the fold register'
                % (sym, tsym, at - y.value, 'outside the data section' if row is None else 'whose 16 selector bytes (%s) are not a byte shift' % row.hex()), key='T-SHF-ROWS|%s|%#x|rem%d' % (sym, i.addr - f.entry, o),
                sample='%s: remainder row %s%+d = shift by %d' % (sym, tsym, at - y.value, d) if d is not None and o == lo and sym.endswith('_by4') else None)
    return True


def check(rep, families, floor):
    R = rep.rule('T-SHF-ROWS', 'every 16-byte selector row that a CRC kernel can read from a shift table at an offset const + k*len (len ranging over the interval the branch conditions leave at that load) is a pure byte '
                 'shift of the 16 lanes: the length dispatch never sends a length to a path whose table row is not a shift (e.g. the row for "shift by 0" / "shift by 16" that several tables do not contain)',
                 floor=floor, unit='(load, length) rows')
    res, _ = provenance.analyse('default')
    nund = 0
    for sym, info in sorted(res.items()):
        fam = info['fam']['family']
        if fam not in families or bounds.outside_reason(sym):
            continue
        u, f, fl = info['unit'], info['func'], info['flow']
        lenreg = bounds.len_reg(sym, fam)
        L = None
        bd = None
        RI = None
        for x in info['accesses']:
            i = x.insn
            if x.kind != 'load' or x.size != 16 or x.addr[0] != 'P' or provenance.base_tag(x.addr) != 'GLOBAL':
                continue
            if not (i.ops and VREG.match(i.ops[0]) and i.mn in ('movdqu', 'movdqa', 'vmovdqu', 'vmovdqa', 'lddqu', 'vmovdqu8', 'vmovdqu64')):
                continue
            m = x.mem
            if m is None or m['rip']:
                continue
            if L is None:
                L = asmlin.Lin(u, f).run()
                bd = bounds.Bounds(u, f, fl, lenreg)
                bd.run()
            st = L.IN.get(i.addr)
            if st is None:
                continue
            form = L.addr({'r': dict(st['r']), 'm': dict(st['m'])}, next(o for o in i.ops if is_mem(o)))
            if form is None:
                continue
            vs = [k for k in form if isinstance(k, tuple) and k[0] == 'v']
            rest = {k: c for k, c in form.items() if k not in vs}
            if len(vs) != 1 or form[vs[0]] != 1 or vs[0][1] not in u.insns or u.insns[vs[0][1]].mn != 'lea' or u.insns[vs[0][1]].reloc is None:
                continue
            tgt = u.reloc_target(u.insns[vs[0][1]])
            if tgt is None:
                continue
            tsec, tsym, off0 = tgt
            bst = bd.IN.get(i.addr)
            if not (set(rest) <= {1, lenreg + '@entry'}) or not rest.get(lenreg + '@entry') or bst is None or bst.nlo is None or bst.nhi is None:
                # the offset is not an affine function of the length (e.g. the remainder a count register holds behind the fold loops): REMINT intervals
                if RI is None:
                    RI = remint.RemInt(u, f, lenreg)
                    RI.run()
                if not remainder_rows(R, RI, u, f, sym, i):
                    nund += 1
                continue
            c, k = rest.get(1, 0), rest[lenreg + '@entry']
            y = u.elf.syms.get(tsym)
            data = u.elf.secbytes(tsec) if tsec else None
            if y is None or data is None:
                raise AnalysisBroken('T-SHF-ROWS: %s: cannot read the data of %s' % (sym, tsym))
            base = y.value + off0            # section offset the lea points at (the pointer may sit at the END of a table that is indexed downwards)
            offs = [base + c + k * n for n in range(bst.nlo, bst.nhi + 1)]
            if min(offs) < 0 or max(offs) + 16 > len(data):
                raise AnalysisBroken('T-SHF-ROWS: %s: table offset outside its section at %s' % (sym, u.where(i, f)))
            for n, o in zip(range(bst.nlo, bst.nhi + 1), offs):
                R.instance()
                row = data[o:o + 16]
                d = pure_shift(row)
                R.check(d is not None, '%s: %s' % (u.name, u.where(i, f)), '%s: a buffer of %d bytes reaches this load of %s%+d, whose 16 selector bytes (%s) are not a byte shift: the partial block is garbled on its way '
                        'into the fold register' % (sym, n, tsym, o - y.value, row.hex()), key='T-SHF-ROWS|%s|%#x|%d' % (sym, i.addr - f.entry, n),
                        sample='%s: len %d -> row %s%+d = shift by %d' % (sym, n, tsym, o - y.value, d) if d is not None and n == bst.nlo and sym.endswith(('_by8', '_01')) else None)
    R.notes.append('%d row loads whose offset depends on loop state and that the interval domain (tools/remint.py) does not bound are not decided' % nund)
