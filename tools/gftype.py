"""GFTYPE: a type system for the vector dataflow of the GF(2^8) kernels (erasure-code dot
product / multiply-accumulate / multiply).  Every vector register gets one of
  Z zero | K constant or mask | T coefficient-table data | S source data | Sh source >> 4 |
  Sn source nibbles | D old destination data | P[d] GF product / xor-accumulator (d: includes D) | X other
and the rules are: a GF lookup (pshufb with a table operand, vgf2p8affineqb) takes its table /
matrix operand from the coefficient table and its data operand from the source; everything
stored to a destination buffer is a P; dot-product outputs contain no old destination data,
multiply-accumulate outputs do.  Addresses are typed by the ASMFLOW provenance analysis."""
import re
from common import AnalysisBroken
from asmdb import REG64, parse_mem, is_mem, VREG
from provenance import base_tag

Z, K, T, S, SH, SN, D, X = 'Z', 'K', 'T', 'S', 'Sh', 'Sn', 'D', 'X'
NAMES = {Z: 'zero', K: 'constant/mask', 'Kp': 'partially-inserted scalar', T: 'gftbls table data', S: 'source bytes', SH: 'source bytes >> 4 (unmasked)', SN: 'source nibbles',
         D: 'old destination data', 'P': 'GF product/accumulator', 'P+': 'destination XOR GF product', X: 'unknown/mixed'}


def P(d):
    return 'P+' if d else 'P'


def is_p(t):
    return t in ('P', 'P+')


def join(a, b):
    if a == b:
        return a
    if a is None:
        return b
    if b is None:
        return a
    if is_p(a) and is_p(b):
        return 'P+' if 'P+' in (a, b) else 'P'
    if a == Z:
        return b          # an all-zero register is a valid instance of every kind of data (empty tail)
    if b == Z:
        return a
    if {a, b} == {K, 'Kp'}:
        return 'Kp'
    return X


def xor(a, b):
    if a == Z:
        return b
    if b == Z:
        return a
    if is_p(a) and is_p(b):
        return P(a == 'P+' or b == 'P+')
    if (is_p(a) and b == D) or (a == D and is_p(b)):
        return 'P+'
    if a == K and b == K:
        return K
    return X


def vreg(op):
    m = VREG.match(re.sub(r'\{[^}]*\}', '', op).strip())
    return int(m.group(2)) if m else None


LANE_MOVES = ('vperm2i128', 'vshufi64x2', 'vinserti128', 'vinserti32x', 'vinserti64x', 'vextracti128', 'vextracti32x', 'vextracti64x', 'vpermq', 'vpermd', 'vshufi32x4',
              'vbroadcasti', 'vbroadcastf', 'vbroadcasts', 'vpbroadcast', 'vmovddup')
MOVES = ('movdqa', 'movdqu', 'movaps', 'movups', 'movntdqa', 'lddqu', 'vmovdqa', 'vmovdqu', 'vmovaps', 'vmovups', 'vmovntdqa', 'vmovdqa32', 'vmovdqa64', 'vmovdqu8', 'vmovdqu16', 'vmovdqu32',
         'vmovdqu64', 'movq', 'movd', 'vmovq', 'vmovd', 'movntdq', 'vmovntdq')


class Typer:
    def __init__(self, info):
        self.info = info
        self.u = info['unit']
        self.f = info['func']
        self.fl = info['flow']
        self.findings = []
        self.nlookups = 0
        self.nstores = 0

    def addr_type(self, a, o, insn):
        st = self.fl.IN.get(a)
        if st is None:
            return X
        av = self.fl.addr(st, parse_mem(o), insn)
        bt = base_tag(av)
        if bt == 'TBL':
            return T
        if bt in ('SRC', 'SRCARR[]'):
            return S
        if bt in ('DEST', 'DESTARR[]'):
            return D
        if bt == 'GLOBAL':
            return K
        if bt == 'STACK':
            if av[2] is not None and av[2][1] == 0:
                return ('slot', av[2][0])
            return X
        return X

    def run(self):
        u, f = self.u, self.f
        init = {'v': {}, 'g': {}, 's': {}}
        IN = {f.entry: init}
        self.IN = IN
        work = [f.entry]
        it = 0
        while work:
            a = work.pop()
            it += 1
            if it > 300000:
                raise AnalysisBroken('%s:%s: GFTYPE did not converge' % (u.name, f.name))
            st = {k: dict(v) for k, v in IN[a].items()}
            self.step(a, st, None)
            for n in u.succ(f, a):
                if n not in IN:
                    IN[n] = st
                    work.append(n)
                else:
                    old = IN[n]
                    new = {}
                    ch = False
                    for dom in ('v', 'g', 's'):
                        nd = {}
                        for k in set(old[dom]) | set(st[dom]):
                            nd[k] = join(old[dom].get(k), st[dom].get(k)) if (k in old[dom] and k in st[dom]) else X
                        new[dom] = nd
                        ch |= (nd != old[dom])
                    if ch:
                        IN[n] = new
                        work.append(n)
        for a in f.addrs:
            if a in IN:
                st = {k: dict(v) for k, v in IN[a].items()}
                self.step(a, st, self.findings)
        return self.findings

    def vt(self, st, op):
        r = vreg(op)
        if r is None:
            return X
        return st['v'].get(r, X)

    def step(self, a, st, out):
        u = self.u
        i = u.insns[a]
        mn = i.mn
        ops = i.ops
        if not ops:
            return
        V = st['v']
        G = st['g']
        mems = [k for k, o in enumerate(ops) if is_mem(o)]

        def src_type(k):
            o = ops[k]
            if is_mem(o):
                t = self.addr_type(a, o, i)
                if isinstance(t, tuple):
                    return st['s'].get(t[1], X)
                return t
            if vreg(o) is not None:
                return self.vt(st, o)
            g = REG64.get(o)
            if g:
                return G.get(g[0], K)        # scalars that are not fetched from data memory are counters / lengths / masks
            if re.match(r'^(0x[0-9a-f]+|\d+)$', o):
                return K
            return X
        d0 = vreg(ops[0])
        g0 = REG64.get(ops[0])
        # ---- GPR data tags (bytes fetched from the source for tail handling, constants)
        if g0 and not is_mem(ops[0]) and d0 is None:
            if mn in ('mov', 'movzx', 'movabs') and len(ops) == 2:
                t = src_type(1) if (is_mem(ops[1]) or ops[1] in REG64 or re.match(r'^(0x[0-9a-f]+|\d+)$', ops[1])) else K
                G[g0[0]] = t if t in (S, K) else (K if t in (Z,) else X)
            elif mn in ('cmp', 'test', 'push', 'bt'):
                pass
            elif mn in ('vmovq', 'movq', 'vmovd', 'movd', 'vpextrq', 'pextrq', 'vpextrd', 'pextrd', 'vpextrb', 'pextrb'):
                G[g0[0]] = self.vt(st, ops[1]) if len(ops) > 1 else X
            elif mn.startswith('kmov'):
                G[g0[0]] = K
            elif mn in ('shr', 'shl', 'sar', 'ror', 'rol') and G.get(g0[0]) in ('P', 'P+'):
                pass             # shifting out bytes of a product word that is stored piecewise
            else:
                G[g0[0]] = X if G.get(g0[0]) == S else K
            return
        # ---- stores
        if is_mem(ops[0]):
            kind = self.addr_type(a, ops[0], i)
            val = src_type(1) if len(ops) > 1 else X
            if isinstance(kind, tuple):
                if vreg(ops[1]) is not None if len(ops) > 1 else False:
                    st['s'][kind[1]] = val
                return
            if kind == D and (mn == 'mov' or mn.startswith(MOVES) or mn.startswith('vpcompress') or mn.startswith(('vextract', 'pextr', 'vpextr'))):
                self.nstores += 1 if out is not None else 0
                if out is not None:
                    out.append(('store', i, val))
            return
        if d0 is None:
            return
        # ---- vector destinations
        if mn.startswith(MOVES) and len(ops) == 2:
            t = src_type(1)
            if mn in ('vmovq', 'movq', 'vmovd', 'movd') and ops[1] in REG64:
                t = G.get(REG64[ops[1]][0], K)
            V[d0] = t
            return
        if mn.startswith(LANE_MOVES):
            ts = [src_type(k) for k in range(1, len(ops)) if not re.match(r'^(0x[0-9a-f]+|\d+)$', ops[k])]
            if mn.startswith(('vpbroadcast',)) and len(ops) == 2 and ops[1] in REG64:
                ts = [G.get(REG64[ops[1]][0], K)]
            t = ts[0] if ts else X
            for x in ts[1:]:
                t = t if x == t else (SH if {x, t} == {S, SH} else X)     # lanes of raw and nibble-shifted source side by side: still unmasked source data
            if t == 'Kp':
                t = K if mn.startswith('vpbroadcast') else ('Kp' if mn.startswith(('vinserti128', 'vperm2i128')) else X)     # broadcasting the inserted lane gives the scalar mask
            V[d0] = t
            return
        if mn in ('pxor', 'xorps', 'xorpd') and len(ops) == 2:
            V[d0] = Z if ops[0] == ops[1] else xor(self.vt(st, ops[0]), src_type(1))
            return
        if mn in ('vpxor', 'vpxord', 'vpxorq', 'vxorps', 'vxorpd') and len(ops) == 3:
            V[d0] = Z if re.sub(r'\{[^}]*\}', '', ops[1]) == re.sub(r'\{[^}]*\}', '', ops[2]) else xor(src_type(1), src_type(2))
            return
        if mn.startswith('vpternlog') and len(ops) == 4:
            imm = int(ops[3], 0)
            if imm == 0x96:
                V[d0] = xor(xor(self.vt(st, ops[0]), src_type(1)), src_type(2))
            elif imm in (0xff, 0x00):
                V[d0] = K
            else:
                V[d0] = X
            return
        if mn in ('pand', 'vpand', 'vpandd', 'vpandq', 'andps', 'vandps'):
            a_, b_ = (self.vt(st, ops[0]), src_type(1)) if len(ops) == 2 else (src_type(1), src_type(2))
            pair = {a_, b_}
            if K in pair and (pair & {S, SH}):
                V[d0] = SN
            elif pair == {K}:
                V[d0] = K
            elif K in pair and (pair & {D, 'P', 'P+', Z}):
                V[d0] = (pair - {K}).pop() if len(pair) == 2 else K     # masking lanes of an accumulator for tail handling
            else:
                V[d0] = X
            return
        if mn in ('psraw', 'vpsraw', 'psrlw', 'vpsrlw', 'psrlq', 'vpsrlq'):
            t = self.vt(st, ops[0]) if len(ops) == 2 else src_type(1)
            sh = ops[-1]
            V[d0] = SH if (t == S and sh in ('0x4', '4')) else (K if t == K else X)
            return
        if mn in ('pslldq', 'psrldq', 'vpslldq', 'vpsrldq'):
            t = self.vt(st, ops[0]) if len(ops) == 2 else src_type(1)
            V[d0] = t if t in (K, Z, 'P', 'P+', S, D) else X     # moving bytes within the register (tail stores / tail masks)
            return
        if mn in ('pcmpgtb', 'vpcmpgtb', 'pcmpeqb', 'vpcmpeqb', 'paddb', 'vpaddb', 'psubb', 'vpsubb'):
            ts = [self.vt(st, ops[0])] + [src_type(1)] if len(ops) == 2 else [src_type(k) for k in range(1, len(ops)) if not re.match(r'^(0x[0-9a-f]+|\d+)$', ops[k])]
            V[d0] = K if all(x in (K, Z) for x in ts) else X
            return
        if mn in ('pshufb', 'vpshufb'):
            tbl, idx = (self.vt(st, ops[0]), src_type(1)) if len(ops) == 2 else (src_type(1), src_type(2))
            if tbl == T or idx == SN:
                if out is not None:
                    out.append(('lookup', i, (tbl, idx)))
                V[d0] = 'P' if (tbl == T and idx == SN) else X
            elif idx in (K,):
                V[d0] = K if tbl == 'Kp' else tbl     # byte rearrangement by a constant shuffle mask keeps the kind of data; a broadcast of the inserted lane yields a scalar mask
            else:
                V[d0] = X
            return
        if mn == 'vgf2p8affineqb':
            data, mat = src_type(1), src_type(2)
            if out is not None:
                out.append(('lookup', i, (mat, data)))
            V[d0] = 'P' if (data == S and mat == T) else X
            return
        if mn in ('pblendvb', 'vpblendvb', 'vpblendmb', 'vpblendmw', 'vpblendmd', 'vpblendmq', 'blendvps', 'vblendvps'):
            if mn == 'pblendvb':
                a_, b_ = self.vt(st, ops[0]), src_type(1)
            elif mn.startswith('vpblendm'):
                a_, b_ = src_type(1), src_type(2)
            else:
                a_, b_ = src_type(1), src_type(2)
            if a_ in ('P', 'P+', D) and b_ in ('P', 'P+', D):
                V[d0] = P(a_ in ('P+', D) or b_ in ('P+', D)) if (is_p(a_) or is_p(b_)) else D
            elif a_ == b_:
                V[d0] = a_
            else:
                V[d0] = X
            return
        if mn in ('pinsrb', 'pinsrw', 'pinsrd', 'pinsrq'):
            t1 = src_type(1)
            old = self.vt(st, ops[0])
            if t1 == K and old not in (K, Z):
                V[d0] = 'Kp'     # one lane holds a scalar, the others stale data: only meaningful after a lane broadcast
            else:
                V[d0] = t1 if old in (t1, Z) else X
            return
        if mn in ('vpinsrb', 'vpinsrw', 'vpinsrd', 'vpinsrq') and len(ops) == 4:
            base_t = src_type(1)
            t1 = src_type(2)
            if ops[2] in REG64:
                t1 = G.get(REG64[ops[2]][0], K)
            if t1 == K and base_t not in (K, Z):
                V[d0] = 'Kp'
            else:
                V[d0] = t1 if base_t in (t1, Z) else X
            return
        V[d0] = X


def check(rep, families, suffix, floor):
    """V-GFTYPE: operand kinds of the GF(2^8) multiply kernels"""
    import provenance
    R = rep.rule('V-GFTYPE-' + suffix,
                 'vector operand kinds in the GF(2^8) kernels (abstract interpretation over the lattice zero / constant / table(gftbls) / source / source-nibble / product / product+dest / dest / unknown): '
                 'every table lookup (pshufb, vgf2p8affineqb) takes its table operand from the gftbls argument and its index/data operand from the source buffer '
                 '(nibble-masked for pshufb); every vector or scalar store to a destination buffer writes a GF product (dot_prod/mul) or dest XOR product (mad) on every path, '
                 'never a raw table, source, constant or stale register',
                 floor=floor, unit='kernels')
    res, _ = provenance.analyse('default')
    for sym, info in sorted(res.items()):
        fam = info['fam']['family']
        if fam not in families:
            continue
        R.instance()
        u, f = info['unit'], info['func']
        t = Typer(info)
        fs = t.run()
        nl = sum(1 for k, _, _ in fs if k == 'lookup')
        ns = sum(1 for k, _, _ in fs if k == 'store')
        if not nl or not ns:
            raise AnalysisBroken('%s: GFTYPE found %d table lookups and %d destination stores: kernel idiom not recognised' % (sym, nl, ns))
        want = 'P+' if fam == 'ec_mad' else 'P'
        bad = 0
        for kind, i, val in fs:
            if kind == 'lookup' and val not in ((T, SN), (T, S)):
                bad += 1
                R.fail('%s: %s' % (u.name, u.where(i, f)), 'GF multiply "%s" has operand kinds (table=%s, data=%s); expected (table from gftbls, data from the source buffer)' % (i.text, NAMES.get(val[0], val[0]), NAMES.get(val[1], val[1])),
                       key='V-GFTYPE|%s|lookup|%#x' % (sym, i.addr - f.entry))
            elif kind == 'lookup' and ((val[1] == SN) != (i.mn in ('pshufb', 'vpshufb'))):
                bad += 1
                R.fail('%s: %s' % (u.name, u.where(i, f)), 'GF multiply "%s" takes %s data: pshufb needs nibble-masked source bytes, vgf2p8affineqb whole source bytes' % (i.text, NAMES.get(val[1], val[1])),
                       key='V-GFTYPE|%s|lookup|%#x' % (sym, i.addr - f.entry))
            elif kind == 'store' and val != want:
                bad += 1
                R.fail('%s: %s' % (u.name, u.where(i, f)), 'store to a destination buffer writes a value of kind %s on some path; a %s kernel must store %s' % (NAMES.get(val, val), fam, NAMES[want]),
                       key='V-GFTYPE|%s|store|%#x' % (sym, i.addr - f.entry))
        if not bad:
            R.ok(nl + ns, sample='%s: %d lookups (table,source), %d destination stores of kind %s' % (sym, nl, ns, NAMES[want]) if sym.startswith('gf_3vect') and 'avx2' in sym else None)
    return R
