"""V-CRCFOLD: the carry-less-multiply structure of the CRC folding kernels.  A fold step multiplies the two 64-bit halves of one 128-bit
chunk by the two halves of one constant pair and XORs the products; PCLMULQDQ's immediate picks the halves.  Value numbering of vector
registers (copies share a number) groups the multiplications by (data value, constant value):
  (1) a group of two uses BOTH halves of the data and BOTH halves of the constant (never the same half twice);
  (2) the pairing is the same for every fold step of a kernel and is the one of the kernel's bit order: lo*lo, hi*hi for the
      normal (MSB-first) CRCs, lo*hi, hi*lo for the reflected ones;
  (3) the sequence of single multiplications (final 128->64->32 reduction and Barrett) is identical for all kernels of one class
      (16/32-bit normal, 32-bit reflected, 64-bit normal, 64-bit reflected) - siblings cross-check each other."""
import re
from collections import Counter
from common import AnalysisBroken
from asmdb import is_mem
import provenance


def vreg(o):
    m = re.match(r'^[xyz]mm(\d+)$', re.sub(r'\{[^}]*\}', '', o).strip())
    return 'v' + m.group(1) if m else None


COPIES = ('movdqa', 'vmovdqa', 'movaps', 'vmovaps', 'vmovdqa64', 'vmovdqa32', 'movdqu', 'vmovdqu', 'vmovdqu8', 'vmovdqu64', 'movups', 'vmovups')


def analyse(u, f):
    targets = {u.insns[a].target for a in f.addrs if u.insns[a].target is not None}
    ids, n = {}, [0]

    def fresh():
        n[0] += 1
        return n[0]
    groups = {}
    for a in f.addrs:
        i = u.insns[a]
        if a in targets:
            ids = {}
        mn, ops = i.mn, list(i.ops)
        m = re.match(r'^(v?)pclmul(lq|hq)(lq|hq)dq$', mn)
        if m:
            ops.append(str((1 if m.group(2) == 'hq' else 0) | ((1 if m.group(3) == 'hq' else 0) << 4)))
            mn = m.group(1) + 'pclmulqdq'
        if mn in ('pclmulqdq', 'vpclmulqdq'):
            imm = int(ops[-1], 0)
            s1, s2 = (ops[0], ops[1]) if mn == 'pclmulqdq' else (ops[1], ops[2])
            id1 = ids.setdefault(vreg(s1), fresh()) if vreg(s1) else ('mem', a)
            id2 = ids.setdefault(vreg(s2), fresh()) if vreg(s2) else ('mem', re.sub(r'\s', '', s2))
            groups.setdefault((id1, id2), []).append((imm & 1, (imm >> 4) & 1, i))
            ids[vreg(ops[0])] = fresh()
        elif mn in COPIES and len(ops) == 2 and vreg(ops[0]) and vreg(ops[1]):
            ids[vreg(ops[0])] = ids.setdefault(vreg(ops[1]), fresh())
        elif ops and vreg(ops[0]) and not is_mem(ops[0]) and not mn.startswith(('cmp', 'test', 'ptest', 'vptest')):
            ids[vreg(ops[0])] = fresh()
    return groups


REFSEQ = {('crc16/32', False): ((1, 0), (0, 1), (1, 0), (1, 1)), ('crc16/32', True): ((0, 0), (0, 1), (0, 0), (0, 1)),
          ('crc64', False): ((1, 0), (1, 0), (1, 1)), ('crc64', True): ((0, 0), (0, 0), (0, 1))}


def klass(sym):
    refl = 'refl' in sym
    if sym.startswith('crc64'):
        return ('crc64', refl)
    return ('crc16/32', refl)


def check(rep, floor):
    R = rep.rule('V-CRCFOLD', 'PCLMULQDQ folding kernels: (1) two multiplications of the same 128-bit value by the same constant pair use both halves of the value and both halves of the constant; (2) the pairing is uniform within a '
                 'kernel and matches its bit order (normal: lo*lo + hi*hi, reflected: lo*hi + hi*lo); (3) the half-selections of the final reduction are identical for all kernels of one class (siblings cross-check)',
                 floor=floor, unit='fold steps + reduction sequences')
    res, _ = provenance.analyse('default')
    seqs = {}
    nk = 0
    for sym, info in sorted(res.items()):
        if not info['fam']['family'].startswith('crc') or sym.startswith('crc32_iscsi_0'):
            continue
        u, f = info['unit'], info['func']
        groups = analyse(u, f)
        pairs = [g for g in groups.values() if len(g) == 2]
        if not pairs:
            raise AnalysisBroken('V-CRCFOLD: no fold step recognised in %s' % sym)
        nk += 1
        refl = 'refl' in sym or 'iscsi' in sym
        want = ((0, 1), (1, 0)) if refl else ((0, 0), (1, 1))
        for g in pairs:
            R.instance()
            got = tuple(sorted((x[0], x[1]) for x in g))
            where = '%s: %s' % (u.name, u.where(g[0][2], f))
            if got[0][0] == got[1][0] or got[0][1] == got[1][1]:
                R.fail(where, '%s: the two multiplications of one fold step select %s (value half, constant half): the same half is used twice, the other half of the %s never enters the CRC' %
                       (sym, list(got), 'data' if got[0][0] == got[1][0] else 'constant pair'), key='V-CRCFOLD|%s|%#x|halves' % (sym, g[0][2].addr - f.entry))
            else:
                R.check(got == want, where, '%s: this fold step pairs (value half, constant half) as %s; a %s CRC folds with %s (each half must meet the constant for its own distance)' %
                        (sym, list(got), 'reflected' if refl else 'normal', list(want)), key='V-CRCFOLD|%s|%#x|pairing' % (sym, g[0][2].addr - f.entry),
                        sample='%s: %d fold steps %s' % (sym, len(pairs), list(want)) if g is pairs[0] else None)
        for g in groups.values():
            if len(g) > 2:
                R.instance()
                R.fail('%s: %s' % (u.name, u.where(g[0][2], f)), '%s: %d multiplications of the same value by the same constant' % (sym, len(g)), key='V-CRCFOLD|%s|%#x|many' % (sym, g[0][2].addr - f.entry))
        if 'iscsi' not in sym:
            seqs.setdefault(klass(sym), {})[sym] = (tuple((g[0][0], g[0][1]) for g in sorted(groups.values(), key=lambda g: g[0][2].addr) if len(g) == 1), info)
    for k, members in sorted(seqs.items()):
        cnt = Counter(v[0] for v in members.values())
        ref, nref = cnt.most_common(1)[0]
        if len(members) < 2:
            raise AnalysisBroken('V-CRCFOLD: class %s has a single member' % (k,))
        if nref * 2 <= len(members):
            # kernels generated from one template change together: fall back to the sequences confirmed by reading on the pinned tree
            ref = REFSEQ[k]
            nref = sum(1 for v in members.values() if v[0] == ref)
        for sym, (seq, info) in sorted(members.items()):
            R.instance()
            R.check(seq == ref, '%s:%s' % (info['unit'].name, sym), '%s: the final reduction selects halves %s; the other %d kernels of class %s select %s' % (sym, list(seq), nref, k, list(ref)),
                    key='V-CRCFOLD|%s|reduction' % sym, sample='%s %s: %s' % (k[0], 'reflected' if k[1] else 'normal', list(ref)) if sym == sorted(members)[0] else None)
    R.notes.append('%d kernels; crc32_iscsi_00/_01 (crc32-instruction kernels) have no fold steps and are outside this rule' % nk)
