"""R-GUARD-LOOP: a do-while loop and the guard in front of it must agree.  The asm kernels write their loops bottom-tested (body; compare; jcc head) and protect the first
iteration with a guard that branches round the loop on the same compare.  If the guard lets an iteration start for operand values for which the loop's own condition would
have stopped, that iteration runs past the end (one vector / one byte too far): for every pair (guard, back edge) that compares the SAME two operands - the bound operand
neither written between guard and head nor inside the loop - the relation under which the guard falls into the loop has to imply the relation under which the back edge
continues (signed and unsigned forms of a relation are taken as one class; implication table over {lt, le, gt, ge, eq, ne}).  Pairs are discovered from the resolved
program (58 agree on the pinned tree); the five that do not follow the table are frozen below with the reason."""
import re
import asmdb
from asmdb import is_cond_jump, REG64
from common import AnalysisBroken
from provenance import writes_flags

NEG = {'je': 'jne', 'jne': 'je', 'jl': 'jge', 'jge': 'jl', 'jle': 'jg', 'jg': 'jle', 'jb': 'jae', 'jae': 'jb', 'jbe': 'ja', 'ja': 'jbe'}
ALIAS = {'jz': 'je', 'jnz': 'jne', 'jnae': 'jb', 'jc': 'jb', 'jnb': 'jae', 'jnc': 'jae', 'jna': 'jbe', 'jnbe': 'ja', 'jnge': 'jl', 'jnl': 'jge', 'jng': 'jle', 'jnle': 'jg'}
CLS = {'je': 'eq', 'jne': 'ne', 'jl': 'lt', 'jb': 'lt', 'jge': 'ge', 'jae': 'ge', 'jle': 'le', 'jbe': 'le', 'jg': 'gt', 'ja': 'gt'}
IMP = {'lt': {'lt', 'le', 'ne'}, 'le': {'le'}, 'gt': {'gt', 'ge', 'ne'}, 'ge': {'ge'}, 'eq': {'eq', 'le', 'ge'}, 'ne': {'ne'}}
WORDS = {'lt': '<', 'le': '<=', 'gt': '>', 'ge': '>=', 'eq': '==', 'ne': '!='}
# (function, guard relation, loop relation): why the pair is sound although the table does not give the implication
EXCEPT = {
    (r'^pq_(gen|check)_(sse|avx|avx2|avx512)$', 'ne', 'lt'): 'pos and len are both multiples of the vector size here and pos <= len (the preceding loop left pos at most one stride past len - stride), so pos != len means pos < len; '
                                                              'R-TAIL-GUARD-PQ decides the equality exit',
}


def producer(u, f, order, a):
    idx = order[a]
    for b in reversed(f.addrs[max(0, idx - 40):idx]):
        j = u.insns[b]
        if j.end != f.addrs[order[b] + 1]:
            return None
        if j.mn in ('cmp', 'test'):
            return j
        if writes_flags(j) or is_cond_jump(j.mn) or j.mn in ('jmp', 'ret', 'call'):
            return None
    return None


def pairs(u, f):
    order = {a: n for n, a in enumerate(f.addrs)}
    out = []
    for b in f.addrs:
        i = u.insns[b]
        if not is_cond_jump(i.mn) or i.target is None or i.target > b or i.target not in order:
            continue
        h = i.target
        pb = producer(u, f, order, b)
        if pb is None or pb.mn != 'cmp':
            continue
        k, g, steps = order[h] - 1, None, 0
        while k >= 0 and steps < 25:
            j = u.insns[f.addrs[k]]
            if j.end != f.addrs[k + 1]:
                break
            if is_cond_jump(j.mn):
                g = j
                break
            if j.mn in ('jmp', 'ret', 'call'):
                break
            k -= 1
            steps += 0 if j.mn.startswith('nop') else 1      # alignment padding does not count
        if g is None or g.target is None or g.target <= b:
            continue
        pg = producer(u, f, order, g.addr)
        if pg is None or pg.mn != 'cmp' or pg.ops != pb.ops:
            continue
        regs = {REG64[o][0] for o in pg.ops if o in REG64}

        def written(lo, hi):
            w = set()
            for a2 in f.addrs[lo:hi]:
                j = u.insns[a2]
                if j.ops and j.ops[0] in REG64 and j.mn not in ('cmp', 'test'):
                    w.add(REG64[j.ops[0]][0])
            return w
        if written(order[pg.addr] + 1, order[h]) & regs:
            continue                                  # an operand changes between the guard and the loop: not the same comparison
        if len(regs) == 2 and not (regs - written(order[h], order[b] + 1)):
            continue                                  # both operands move inside the loop: no bound to agree on
        out.append((g, pg, i, pb))
    return out


def check(rep, suffix, unit_pat, floor):
    R = rep.rule('R-GUARD-LOOP-' + suffix, 'for every bottom-tested loop of these units whose first iteration is protected by a guard on the same compare (same two operands, the bound written neither between guard and loop '
                 'head nor inside the loop), the relation under which the guard falls into the loop implies the relation under which the back edge continues: no first iteration is started that the loop condition '
                 'itself would have refused (one stride past the end)', floor=floor, unit='(guard, loop) pairs')
    units = asmdb.units('default')
    for un, u in sorted(units.items()):
        if not re.search(unit_pat, un):
            continue
        for fn, f in sorted(u.funcs.items()):
            for g, pg, bj, pb in pairs(u, f):
                enter, cont = CLS.get(NEG.get(ALIAS.get(g.mn, g.mn))), CLS.get(ALIAS.get(bj.mn, bj.mn))
                if enter is None or cont is None:
                    continue
                R.instance()
                ok = cont in IMP[enter]
                why = None
                if not ok:
                    for (pat, e, c), reason in EXCEPT.items():
                        if re.match(pat, fn) and (e, c) == (enter, cont):
                            ok, why = True, reason
                R.check(ok, '%s: %s' % (un, u.where(g, f)), '%s: the guard lets the loop at +%#x start when %s %s %s, but the loop itself continues only while %s %s %s: with the operands in between, one iteration runs that the '
                        'loop condition would have refused' % (fn, bj.target - f.entry, pg.ops[0], WORDS[enter], pg.ops[1], pb.ops[0], WORDS[cont], pb.ops[1]),
                        key='R-GUARD-LOOP|%s|%#x' % (fn, g.addr - f.entry), sample='%s: enter when %s, continue while %s%s' % (fn, WORDS[enter], WORDS[cont], ' (frozen exception)' if why else '') if why or fn.endswith('_sse') else None)
