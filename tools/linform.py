"""LINFORM: linear symbolic evaluation of general-purpose registers along one straight path of the asm CFG.
A value is {symbol: coeff, 1: const}; symbols are 'reg@start' (register contents at the start of the walk) or
fresh opaque values ('v<addr>') produced by anything not modelled.  Used to decide whether the value that a bound
check tested is the very address a later access uses."""
import re
from asmdb import REG64, parse_mem, is_mem
import regdef

IMM = re.compile(r'^(0x[0-9a-f]+|-?\d+)$')


def sym(s):
    return {s: 1}


def add(a, b, k=1):
    out = dict(a)
    for s, c in b.items():
        out[s] = out.get(s, 0) + k * c
        if out[s] == 0:
            del out[s]
    return out


def scale(a, k):
    return {s: c * k for s, c in a.items() if c * k}


class Walk:
    def __init__(self, u, f):
        self.u, self.f = u, f
        self.regs = {}

    def get(self, r):
        if r not in self.regs:
            self.regs[r] = sym(r + '@start')
        return self.regs[r]

    def mem_form(self, m):
        v = {}
        if m['base'] in REG64:
            v = add(v, self.get(REG64[m['base']][0]))
        elif m['base']:
            return None
        if m['index']:
            if m['index'] not in REG64:
                return None
            v = add(v, scale(self.get(REG64[m['index']][0]), m['scale'] or 1))
        if m['disp']:
            v = add(v, {1: m['disp']})
        return v

    def step(self, i):
        ops = i.ops
        mn = i.mn
        d = REG64.get(ops[0]) if ops and not is_mem(ops[0]) else None
        fresh = sym('v%x' % i.addr)
        if mn in ('cmp', 'test') or mn.startswith('j') or mn in ('nop', 'endbr64') or mn.startswith('prefetch'):
            return
        if d and d[1] == 64 and len(ops) == 2:
            s = ops[1]
            if mn == 'mov' and s in REG64 and REG64[s][1] == 64:
                self.regs[d[0]] = dict(self.get(REG64[s][0]))
                return
            if mn in ('mov', 'movabs') and IMM.match(s):
                self.regs[d[0]] = {1: int(s, 0)} if int(s, 0) else {}
                return
            if mn in ('add', 'sub'):
                k = 1 if mn == 'add' else -1
                if s in REG64 and REG64[s][1] == 64:
                    self.regs[d[0]] = add(self.get(d[0]), self.get(REG64[s][0]), k)
                    return
                if IMM.match(s):
                    self.regs[d[0]] = add(self.get(d[0]), {1: int(s, 0)}, k)
                    return
            if mn == 'lea' and is_mem(s):
                v = self.mem_form(parse_mem(s))
                if v is not None:
                    self.regs[d[0]] = v
                    return
        _, defs = regdef.def_use(i)
        for r in defs:
            self.regs[r] = dict(fresh)


def straight_back(u, f, a, limit=24):
    """addresses of the unique-predecessor chain ending at a (oldest first), at most `limit` long"""
    preds = {}
    for x in f.addrs:
        for n in u.succ(f, x):
            preds.setdefault(n, []).append(x)
    chain = [a]
    while len(chain) < limit:
        p = preds.get(chain[0], [])
        if len(p) != 1 or chain[0] == f.entry:
            break
        if len(u.succ(f, p[0])) != 1 and u.insns[p[0]].end != chain[0]:
            break       # we are a branch target of a conditional: the fallthrough relation is lost
        chain.insert(0, p[0])
    return chain
