"""L-UNDEF-REG: definite-assignment dataflow over the registers of an asm function.
A register is *defined* at a point if every path from the entry writes it before (SysV:
argument registers of the kernel's prototype, callee-saved registers and rsp are defined at
entry; rax, r10, r11, all vector and mask registers are not).  Reading an undefined register
makes the result depend on what the caller or a previous call left behind."""
import re
from common import AnalysisBroken
from asmdb import REG64, parse_mem, is_mem, VREG, KREG, is_cond_jump

SYSV_ARGS = ['rdi', 'rsi', 'rdx', 'rcx', 'r8', 'r9']
CALLEE_SAVED = ['rbx', 'rbp', 'r12', 'r13', 'r14', 'r15', 'rsp']

# legacy-SSE / GPR instructions whose first register operand is written without being read
PURE_DEST = set('''mov movabs movzx movsx movsxd lea pop movd movq movdqa movdqu movaps movups movapd movupd movntdqa lddqu movss movsd
 pshufd pshuflw pshufhw pmovzxbw pmovzxbd pmovzxbq pmovzxwd pmovzxwq pmovzxdq pmovsxbw pmovsxbd pmovsxbq pmovsxwd pmovsxwq pmovsxdq
 pabsb pabsw pabsd pextrb pextrw pextrd pextrq pmovmskb movmskps movmskpd bsf bsr tzcnt lzcnt popcnt
 shlx shrx sarx rorx bzhi andn pext pdep bextr blsi blsr blsmsk cvtsi2sd cvttsd2si movddup movshdup movsldup
 seta setae setb setbe setc sete setg setge setl setle setna setnae setnb setnbe setnc setne setng setnge setnl setnle setno setnp setns setnz seto setp sets setz'''.split())
READ_ONLY = set('cmp test bt ptest vptest comiss comisd ucomiss ucomisd push ktestb ktestw ktestd ktestq kortestb kortestw kortestd kortestq'.split())
NO_REGS = set('nop endbr64 ret jmp vzeroupper vzeroall sfence lfence mfence ud2 cld std clc stc cmc pause'.split())
# VEX/EVEX instructions that also read their destination
V_DEST_READ_PREFIX = ('vfmadd', 'vfmsub', 'vfnmadd', 'vfnmsub', 'vpternlog', 'vpgather', 'vgather', 'vpdpbusd', 'vpdpwssd', 'vpermi2', 'vpermt2', 'vpshld', 'vpshrd', 'vpmadd52')
ZERO_IDIOM = set('xor sub pxor xorps xorpd psubb psubw psubd psubq pcmpeqb pcmpeqw pcmpeqd pcmpeqq pandn'.split())
VZERO_IDIOM = set('vpxor vpxord vpxorq vxorps vxorpd vpsubb vpsubw vpsubd vpsubq vpcmpeqb vpcmpeqw vpcmpeqd vpcmpeqq vpandn vpandnd vpandnq kxorb kxorw kxord kxorq kxnorb kxnorw kxnord kxnorq'.split())
# an insert into / low-lane move that leaves the other lanes of an undefined register unspecified but is only ever consumed lane-wise
PARTIAL_OK_CONSUMERS = ('vpbroadcast', 'pshufb', 'vpshufb', 'vpinsr', 'pinsr', 'vbroadcast', 'movd', 'movq', 'vmovd', 'vmovq', 'pextr', 'vpextr')


def regs_of_operand(op):
    """-> (list of register ids read for addressing / value, is_memory, mask reg, zeroing)"""
    out = []
    m = re.search(r'\{(k[0-7])\}', op)
    mask = ('k', int(m.group(1)[1])) if m else None
    zeroing = '{z}' in op
    core = re.sub(r'\{[^}]*\}', '', op).strip()
    if is_mem(core):
        pm = parse_mem(core)
        for r in (pm['base'], pm['index']):
            if r:
                if r in REG64:
                    out.append(REG64[r][0])
                else:
                    vm = VREG.match(r)
                    if vm:
                        out.append(('v', int(vm.group(2))))
        return out, True, mask, zeroing
    if core in REG64:
        return [REG64[core][0]], False, mask, zeroing
    vm = VREG.match(core)
    if vm:
        return [('v', int(vm.group(2)))], False, mask, zeroing
    km = KREG.match(core)
    if km:
        return [('k', int(km.group(1)))], False, mask, zeroing
    return [], False, mask, zeroing


def def_use(i):
    """-> (uses, defs, partial_defs) register ids"""
    mn = i.mn
    ops = i.ops
    uses, defs = [], []
    if mn == 'push':
        return [], []       # parks the value on the stack
    if mn in NO_REGS or is_cond_jump(mn) or mn.startswith('prefetch'):
        for o in ops:
            r, mem, k, z = regs_of_operand(o)
            if mem:
                uses += r
        if mn == 'jmp' and ops:
            uses += regs_of_operand(ops[0])[0]
        return uses, defs
    if mn == 'call':
        return [], ['rax', 'rcx', 'rdx', 'rsi', 'rdi', 'r8', 'r9', 'r10', 'r11']
    if mn == 'cpuid':
        return ['rax', 'rcx'], ['rax', 'rbx', 'rcx', 'rdx']
    if mn == 'xgetbv':
        return ['rcx'], ['rax', 'rdx']
    if mn in ('cdq', 'cqo'):
        return ['rax'], ['rdx']
    if mn in ('cdqe', 'cwde', 'cbw'):
        return ['rax'], ['rax']
    if mn in ('movs', 'cmps'):
        u = ['rsi', 'rdi'] + (['rcx'] if i.prefix else [])
        return u, ['rsi', 'rdi'] + (['rcx'] if i.prefix else [])
    if mn == 'stos':
        u = ['rdi', 'rax'] + (['rcx'] if i.prefix else [])
        return u, ['rdi'] + (['rcx'] if i.prefix else [])
    if mn == 'lods':
        return ['rsi'], ['rsi', 'rax']
    if mn in ('mul', 'imul', 'div', 'idiv') and len(ops) == 1:
        r, mem, k, z = regs_of_operand(ops[0])
        return r + ['rax'] + (['rdx'] if mn in ('div', 'idiv') else []), ['rax', 'rdx']
    parsed = [regs_of_operand(o) for o in ops]
    if not parsed:
        return uses, defs
    r0, mem0, k0, z0 = parsed[0]
    # memory operands: address registers are always read
    for r, mem, k, z in parsed:
        if mem:
            uses += r
        if k:
            uses.append(k)
    srcs = []
    for r, mem, k, z in parsed[1:]:
        if not mem:
            srcs += r
    if mn in READ_ONLY or mn.startswith('vptestn') and False:
        if not mem0:
            uses += r0
        uses += srcs
        return uses, defs
    if mem0:
        # store / rmw to memory: all register operands are read -- except when a register is merely parked in the
        # function's own stack frame (prologue saves of registers that are callee-saved in another ABI)
        pm0 = parse_mem(re.sub(r'\{[^}]*\}', '', ops[0]))
        if pm0['base'] == 'rsp' and not pm0['index'] and (mn == 'mov' or mn.startswith(('movdq', 'movap', 'movup', 'vmovdq', 'vmovap', 'vmovup'))):
            return uses, defs
        uses += srcs
        if mn == 'xchg' or mn == 'xadd' or mn == 'cmpxchg':
            defs += srcs
        if mn == 'pop':
            pass
        return uses, defs
    dest = r0
    same_src = len(ops) >= 2 and len({re.sub(r'\{[^}]*\}', '', o).strip() for o in ops[1:3]}) == 1
    is_v = mn.startswith('v') or mn.startswith('k')
    if is_v:
        if mn in VZERO_IDIOM and len(ops) == 3 and same_src:
            return uses, defs + dest       # value does not depend on the sources
        if mn.startswith('vpternlog') and len(ops) == 4:
            try:
                imm = int(ops[3], 0)
            except ValueError:
                imm = None
            if imm is not None:
                # truth table index = A<<2 | B<<1 | C with A = destination, B = second, C = third operand
                depA = any(((imm >> (4 | x)) & 1) != ((imm >> x) & 1) for x in range(4))
                depB = any(((imm >> (a << 2 | 2 | c)) & 1) != ((imm >> (a << 2 | c)) & 1) for a in (0, 1) for c in (0, 1))
                depC = any(((imm >> (x << 1 | 1)) & 1) != ((imm >> (x << 1)) & 1) for x in range(4))
                if depA:
                    uses += dest
                if depB and not parsed[1][1]:
                    uses += parsed[1][0]
                if depC and not parsed[2][1]:
                    uses += parsed[2][0]
                return uses, defs + dest
        if mn.startswith(('vpgather', 'vgather')):
            # all-lanes gather idiom: the destination is overwritten under the mask; the mask register is consumed
            uses += srcs
            return uses, defs + dest + srcs
        if mn.startswith('vpblendm') or mn.startswith('vblendm'):
            uses += srcs
            return uses, defs + dest
        if k0 and not z0 and mn.startswith(('vmovdqu', 'vmovdqa', 'vmovup', 'vmovap')) and any(p[1] for p in parsed[1:]):
            # merge-masked LOAD: lanes outside the mask stay unspecified and are only consumed under the same mask (tail idiom)
            return uses, defs + dest
        uses += srcs
        if mn.startswith(('vpinsr',)) and len(ops) == 4:
            return uses, defs + dest
        if mn.startswith(V_DEST_READ_PREFIX):
            uses += dest
        if k0 and not z0 and not mn.startswith(('vpcmp', 'vptestm', 'vptestnm', 'vpmovm2', 'vpmov')) and not mn.startswith('vpbroadcastm'):
            # merge masking keeps the old destination lanes
            if not (mn.startswith('vmovdqu') or mn.startswith('vmovdqa')) or not any(p[1] for p in parsed[1:]):
                uses += dest
            else:
                uses += dest
        return uses, defs + dest
    # legacy encodings
    if mn in ZERO_IDIOM and len(ops) == 2 and ops[0] == ops[1]:
        return uses, defs + dest
    if mn == 'or' and len(ops) == 2 and ops[1].lower() in ('0xffffffffffffffff', '0xffffffff', '-1'):
        return uses, defs + dest
    if mn == 'sbb' and len(ops) == 2 and ops[0] == ops[1]:
        return uses, defs + dest
    if mn in PURE_DEST or mn.startswith('cvt'):
        uses += srcs
        return uses, defs + dest
    if mn == 'imul' and len(ops) == 3:
        uses += srcs
        return uses, defs + dest
    if mn in ('xchg', 'xadd'):
        uses += dest + srcs
        return uses, defs + dest + srcs
    if mn in ('pblendvb', 'blendvps', 'blendvpd') and len(ops) == 2:
        uses.append(('v', 0))
    if mn == 'mulx':
        uses += srcs + ['rdx']
        return uses, defs + dest + (parsed[1][0] if not parsed[1][1] else [])
    # default two-operand form: destination is read and written
    uses += dest + srcs
    return uses, defs + dest


def analyse(u, f, nargs):
    """-> list of (insn, register id) for every read of a register not defined on all paths"""
    entry_def = set(SYSV_ARGS[:nargs]) | set(CALLEE_SAVED)
    IN = {f.entry: frozenset(entry_def)}
    work = [f.entry]
    it = 0
    while work:
        a = work.pop()
        it += 1
        if it > 300000:
            raise AnalysisBroken('%s:%s: definite-assignment analysis did not converge' % (u.name, f.name))
        st = set(IN[a])
        i = u.insns[a]
        uses, defs = def_use(i)
        st |= set(defs)
        fs = frozenset(st)
        for n in u.succ(f, a):
            if n not in IN:
                IN[n] = fs
                work.append(n)
            else:
                new = IN[n] & fs
                if new != IN[n]:
                    IN[n] = new
                    work.append(n)
    findings = []
    for a in f.addrs:
        if a not in IN:
            continue
        i = u.insns[a]
        uses, defs = def_use(i)
        for r in uses:
            if r not in IN[a]:
                # insert-into-undefined idiom: "vpinsrb x, x, r, 0" followed only by lane-0 consumers (vpbroadcast*)
                if i.mn.startswith(('vpinsr', 'pinsr')) and isinstance(r, tuple) and r[0] == 'v' and _only_lane_consumers(u, f, i, r):
                    continue
                findings.append((i, r))
    return findings


def _only_lane_consumers(u, f, ins, reg):
    """every instruction that reads `reg` after `ins` and before it is fully redefined is a lane-0 broadcast / insert / extract"""
    seen = set()
    work = list(u.succ(f, ins.addr))
    while work:
        a = work.pop()
        if a in seen:
            continue
        seen.add(a)
        j = u.insns[a]
        uses, defs = def_use(j)
        if reg in uses:
            if not j.mn.startswith(PARTIAL_OK_CONSUMERS):
                return False
        if reg in defs and not j.mn.startswith(('vpinsr', 'pinsr')):
            continue
        work += u.succ(f, a)
    return True


def regname(r):
    if isinstance(r, tuple):
        return ('xmm/ymm/zmm%d' % r[1]) if r[0] == 'v' else 'k%d' % r[1]
    return r


NARGS = {'ec_dot_prod': 5, 'ec_mad': 6, 'ec_mul': 4, 'raid_xor_gen': 3, 'raid_pq_gen': 3, 'raid_xor_check': 3, 'raid_pq_check': 3, 'mem_zero': 2,
         'crc': 3, 'crc_copy': 4, 'adler': 3, 'igzip_deflate': 1, 'igzip_decode': 2, 'igzip_encode_df': 4, 'igzip_gen_icf_map': 3, 'igzip_set_long': 4,
         'igzip_histogram': 3, 'igzip_hash': 5, 'igzip_heap': 3}


# --------------------------------------------------------------------------- M-KWIDTH
def elem_width(mn):
    """element width in bytes at which a masked EVEX instruction interprets its write-mask; None = not element-typed"""
    m = re.search(r'(8|16|32|64)$', mn)
    if mn.startswith(('vmovdqu', 'vmovdqa')) and m:
        return int(m.group(1)) // 8
    if re.search(r'(32x\d|64x\d)$', mn):
        return 4 if '32x' in mn else 8
    if mn.startswith(('vpgather', 'vpscatter', 'vgather', 'vscatter')):
        return 4 if mn[-1] in 'ds' and not mn.endswith('pd') else 8
    if mn.startswith('vpshufb'):
        return 1
    if mn.startswith('vp') or mn.startswith('vbroadcast'):
        for suf, w in (('b', 1), ('w', 2), ('d', 4), ('q', 8)):
            if mn.endswith(suf):
                return w
    return None


def mask_width_conflicts(u, f):
    """reaching-definitions dataflow on k1..k7: a definition of a mask register that is consumed as a write-mask at
    two different element widths.  -> list of (def insn, {width: example use insn})"""
    IN = {f.entry: {}}
    work = [f.entry]
    uses = {}
    it = 0
    while work:
        a = work.pop()
        it += 1
        if it > 200000:
            raise AnalysisBroken('%s:%s: mask-width analysis did not converge' % (u.name, f.name))
        st = dict(IN[a])
        i = u.insns[a]
        for o in i.ops:
            m = re.search(r'\{(k[1-7])\}', o)
            if m:
                w = elem_width(i.mn)
                if w is not None:
                    for d in st.get(m.group(1), frozenset()):
                        uses.setdefault(d, {}).setdefault(w, i)
        # definitions of k registers: first operand is a bare k register
        if i.ops and KREG.match(re.sub(r'\{[^}]*\}', '', i.ops[0]).strip()) and i.mn not in ('ktestb', 'ktestw', 'ktestd', 'ktestq', 'kortestb', 'kortestw', 'kortestd', 'kortestq'):
            st[re.sub(r'\{[^}]*\}', '', i.ops[0]).strip()] = frozenset([a])
        for n in u.succ(f, a):
            if n not in IN:
                IN[n] = st
                work.append(n)
            else:
                old = IN[n]
                new = dict(old)
                ch = False
                for k, v in st.items():
                    j = old.get(k, frozenset()) | v
                    if j != old.get(k):
                        new[k] = j
                        ch = True
                if ch:
                    IN[n] = new
                    work.append(n)
    out = []
    for d, ws in uses.items():
        if len(ws) > 1:
            out.append((u.insns[d], ws))
    return out


# --------------------------------------------------------------------------- M-KLANES
def _vecbytes(i):
    for o in i.ops:
        m = re.search(r'\b([xyz])mm\d+', o)
        if m:
            return {'x': 16, 'y': 32, 'z': 64}[m.group(1)]
    return None


def _defbits(d):
    """number of significant mask bits a defining instruction produces from a RUN-TIME value; None = exempt / unknown
    (constant-pool loads, all-ones idioms, shifts)"""
    mn = d.mn
    m = re.match(r'^kmov([bwdq])$', mn)
    if m:
        if len(d.ops) == 2 and ('[rip' in d.ops[1] or KREG.match(d.ops[1].strip())):
            return None
        return {'b': 8, 'w': 16, 'd': 32, 'q': 64}[m.group(1)]
    if mn.startswith(('vpcmp', 'vptestm', 'vptestnm')):
        w = elem_width(mn)
        vb = _vecbytes(d)
        if w and vb:
            return vb // w
    return None


def mask_lane_mismatches(u, f):
    """a mask defined from a run-time value with N significant bits, consumed as the write-mask of an instruction
    with a different number of lanes.  -> [(def insn, use insn, bits, lanes)]"""
    IN = {f.entry: {}}
    work = [f.entry]
    out = {}
    it = 0
    while work:
        a = work.pop()
        it += 1
        if it > 200000:
            raise AnalysisBroken('%s:%s: mask-lane analysis did not converge' % (u.name, f.name))
        st = dict(IN[a])
        i = u.insns[a]
        for o in i.ops:
            m = re.search(r'\{(k[1-7])\}', o)
            if m:
                w = elem_width(i.mn)
                vb = _vecbytes(i)
                if w and vb:
                    lanes = vb // w
                    for d in st.get(m.group(1), ()):
                        db = _defbits(u.insns[d])
                        if db is not None and db != lanes:
                            out[(d, a)] = (u.insns[d], i, db, lanes)
        if i.ops and KREG.match(re.sub(r'\{[^}]*\}', '', i.ops[0]).strip()) and not i.mn.startswith(('ktest', 'kortest')):
            st[re.sub(r'\{[^}]*\}', '', i.ops[0]).strip()] = frozenset([a])
        for n in u.succ(f, a):
            if n not in IN:
                IN[n] = st
                work.append(n)
            else:
                old = IN[n]
                new = dict(old)
                ch = False
                for k, v in st.items():
                    j = old.get(k, frozenset()) | v
                    if j != old.get(k):
                        new[k] = j
                        ch = True
                if ch:
                    IN[n] = new
                    work.append(n)
    return list(out.values())
