"""Write summaries of asm symbols callable from C, in the caller's frame (param-relative atoms),
derived from the provenance analysis of the kernels the symbol can dispatch to."""
import asmdb, facts, provenance, kernels
from provenance import base_tag
from asmflow import SYSV_ARGS
import llir

STRUCT_TAGS = ('STREAM', 'STATE', 'BB', 'LEVELBUF')


def kernel_writes(info):
    fam = info['fam']
    tag2idx = {}
    for reg, v in fam['args'].items():
        if v[0] == 'P' and reg in SYSV_ARGS:
            tag2idx[v[1]] = SYSV_ARGS.index(reg)
    out = set()
    for a in info['accesses']:
        if a.kind not in ('store', 'rmw'):
            continue
        bt = base_tag(a.addr)
        if bt == 'STACK':
            continue
        if bt in tag2idx:
            out.add(('param', tag2idx[bt], None))
        elif bt.endswith('[]') and bt[:-2] in tag2idx:
            out.add(('ld', ('param', tag2idx[bt[:-2]], None), None))
        elif bt in ('GLOBAL', 'TLS', 'TOP', 'BAD'):
            out.add(llir.UNK)
        else:
            hit = False
            for t, idx in tag2idx.items():
                if t in STRUCT_TAGS:
                    out.add(('ld', ('param', idx, None), None))
                    hit = True
            if not hit:
                out.add(llir.UNK)
    return out


_memo = {}


def asm_writes(mod=None, cW=None, config='default'):
    """{symbol: set of atoms}: every asm kernel, and every multibinary interface = union over the
    symbols its resolver can select (C candidates use cW, the C write summaries, when given)."""
    key = (config, id(cW))
    if key in _memo:
        return _memo[key]
    res, nofam = provenance.analyse(config)
    W = {sym: kernel_writes(info) for sym, info in res.items()}
    units = asmdb.units(config)
    for un, u in units.items():
        for ep in facts.find_entry_points(u):
            cands = set()
            for p in facts.resolver_paths(u, ep['resolver']):
                if p.stored and p.stored[0] == 'SYM':
                    cands.add(p.stored[1])
            w = set()
            for c in cands:
                if c in W and c != ep['name']:
                    w |= W[c]
                elif cW is not None and c in cW:
                    w |= {a for a in cW[c]}
                elif cW is None:
                    pass
                else:
                    w.add(llir.UNK)
            W[ep['name']] = w
    _memo[key] = W
    return W
