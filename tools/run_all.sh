#!/bin/sh
# Run every claimed check (quick tier) against /repo, validate MANIFEST and evidence. Use before committing.
cd "$(dirname "$0")/.."
unset VERIF_REPO
rc=0
for id in $(python3 -c "import json;print(' '.join(c['property_id'] for c in json.load(open('MANIFEST.json'))['checks']))"); do
  out=$(./check $id --tier ${1:-quick} 2>&1); r=$?
  echo "$id exit=$r $(echo "$out" | tail -1 | cut -c1-120)"
  [ $r -ne 0 ] && rc=1
done
python3-vt - <<'PY'
import json,jsonschema,sys
m=json.load(open('MANIFEST.json'))
jsonschema.validate(m,json.load(open('/root/.vp/MANIFEST.schema.json')))
sch=json.load(open('/root/.vp/EVIDENCE.schema.json'))
for c in m['checks']:
    e=json.load(open(c['evidence_file']))
    jsonschema.validate(e,sch)
    assert e['level']==c['level_claimed']['category'],(c['property_id'],e['level'])
    if e['level']=='proof': assert e['coverage']['obligations']==e['coverage']['discharged'],c['property_id']
print('manifest + evidence valid for',len(m['checks']),'checks')
PY
exit $rc
