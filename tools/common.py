"""Shared plumbing of the static checks: result collection, evidence, known
findings, scratch directories, parallel map.  Python 3 stdlib only."""
import os, re, sys, json, time, tempfile, shutil, atexit, hashlib, subprocess, traceback
from concurrent.futures import ProcessPoolExecutor

VERIF = os.path.dirname(os.path.dirname(os.path.abspath(__file__)))
REPO = os.environ.get('VERIF_REPO', '/repo')
# runs against a scratch/mutant tree (VERIF_REPO=...) must never overwrite the evidence of /repo itself
EVID = os.path.join(VERIF, 'evidence') if REPO == '/repo' else os.path.join(VERIF, 'build', 'mutant-evidence')
CACHE = os.path.join(VERIF, 'build', 'cache')
REPLAY_DIR = os.path.join(VERIF, 'build', 'replay' if REPO == '/repo' else 'mutant-replay')
KNOWN = os.path.join(VERIF, 'known_findings.json')
NPROC = min(16, os.cpu_count() or 4)


class AnalysisBroken(Exception):
    """An anchor vanished, an idiom is unknown, an instance floor is not met:
    neither a pass nor a violation (exit 2)."""


_scratch = []


def scratch(prefix='isalverif-'):
    """fresh scratch directory outside /repo and /verif, removed at exit"""
    base = os.environ.get('VERIF_SCRATCH') or tempfile.gettempdir()
    d = tempfile.mkdtemp(prefix=prefix, dir=base)
    _scratch.append(d)
    return d


def _cleanup():
    for d in _scratch:
        shutil.rmtree(d, ignore_errors=True)


atexit.register(_cleanup)


def run(cmd, cwd=None, ok=(0,), inp=None, text=True):
    p = subprocess.run(cmd, cwd=cwd, input=inp, capture_output=True, text=text)
    if ok is not None and p.returncode not in ok:
        raise AnalysisBroken('command failed (%d): %s\n%s' % (
            p.returncode, ' '.join(cmd), (p.stderr if text else p.stderr.decode('latin1'))[-2000:]))
    return p


def sha(*parts):
    h = hashlib.sha256()
    for p in parts:
        if isinstance(p, str):
            p = p.encode()
        h.update(p)
        h.update(b'\0')
    return h.hexdigest()[:24]


def pmap(fn, items, nproc=None):
    items = list(items)
    if len(items) <= 1 or os.environ.get('VERIF_SERIAL'):
        return [fn(x) for x in items]
    with ProcessPoolExecutor(max_workers=nproc or NPROC) as ex:
        return list(ex.map(fn, items))


def repo_path(rel):
    return os.path.join(REPO, rel)


def read_repo(rel):
    p = repo_path(rel)
    if not os.path.exists(p):
        raise AnalysisBroken('anchor file vanished: ' + rel)
    with open(p, 'r', errors='replace') as f:
        return f.read()


class Rule:
    """one rule of one property: counts obligations and collects failures"""

    def __init__(self, rid, text, floor=0, unit='instances'):
        self.id = rid
        self.text = text
        self.floor = floor
        self.unit = unit
        self.obligations = 0
        self.discharged = 0
        self.instances = 0
        self.samples = []
        self.failures = []
        self.notes = []

    def instance(self, n=1):
        self.instances += n

    def ok(self, n=1, sample=None):
        self.obligations += n
        self.discharged += n
        if sample is not None and len(self.samples) < 4:
            self.samples.append(sample)

    def fail(self, where, what, key=None, **extra):
        """where: file:line / unit:function+off ; what: human text ; key: stable
        identity used to match known findings"""
        self.obligations += 1
        d = dict(rule=self.id, where=where, what=what, key=key or ('%s|%s' % (self.id, where)))
        d.update(extra)
        self.failures.append(d)

    def check(self, cond, where, what, key=None, sample=None, **extra):
        if cond:
            self.ok(1, sample)
        else:
            self.fail(where, what, key, **extra)
        return cond


# build configurations a thorough run adds to the default one, per property (a configuration is listed only where it changes what is analysed)
THOROUGH_CONFIGS = {
    'C16': [],                                   # already evaluates the three assembler feature levels itself; window options do not reach the dispatchers
    'C12': [],                                   # default + GF_LARGE_TABLES handled by the check itself
    'C11': ['hist8k', 'longhuff'], 'C19': ['hist8k', 'longhuff'], 'C18': ['hist8k', 'longhuff'],
}
THOROUGH_DEFAULT = ['hist8k', 'longhuff', 'asfeat6', 'asfeat4']


class Report:
    def __init__(self, pid, tier, level='other'):
        self.pid = pid
        self.tier = tier
        self.level = level
        self.rules = []
        self.t0 = time.time()
        self.assumptions = []
        self.trusted = []
        self.analysed = {}
        self.undecided = ''
        self.explanation = ''
        self.extra = {}
        self.broken = []

    def attempt(self, fn, *args, **kw):
        """run one rule family; an analysis that cannot be carried out (vanished anchor, unrecognised shape, internal error) is recorded and reported as
        ANALYSIS-BROKEN at the end, but does not keep the other rules of the property from being evaluated"""
        try:
            return fn(*args, **kw)
        except AnalysisBroken as e:
            self.broken.append(str(e))
        except Exception as e:
            import traceback
            traceback.print_exc()
            self.broken.append('internal error in %s: %s: %s' % (getattr(fn, '__module__', '?') + '.' + getattr(fn, '__name__', '?'), type(e).__name__, str(e)[:200]))

    def rule(self, rid, text, floor=0, unit='instances'):
        r = Rule(rid, text, floor, unit)
        self.rules.append(r)
        return r

    def run_subconfigs(self):
        """thorough tier: the same rules, evaluated again with the library built (assembled / compiled to IR) in every other supported configuration"""
        import subprocess
        here = os.path.dirname(os.path.dirname(os.path.abspath(__file__)))
        cfgs = THOROUGH_CONFIGS.get(self.pid, THOROUGH_DEFAULT)
        subdir = os.path.join(os.path.dirname(REPLAY_DIR), 'sub-evidence')
        os.makedirs(subdir, exist_ok=True)
        jobs = []
        for c in cfgs:
            out = os.path.join(subdir, '%s.%s.json' % (self.pid, c))
            if os.path.exists(out):
                os.remove(out)
            env = dict(os.environ, VERIF_CONFIG_ALIAS=c, VERIF_SUBRUN=c, VERIF_SUBOUT=out, VERIF_TIER='quick')
            jobs.append((c, out, subprocess.Popen([os.path.join(here, 'check'), self.pid, '--tier', 'quick'], env=env, stdout=subprocess.PIPE, stderr=subprocess.STDOUT, text=True)))
        self.extra['configurations'] = ['default'] + cfgs
        for c, out, p in jobs:
            txt, _ = p.communicate()
            if p.returncode == 2 or not os.path.exists(out) or 'ANALYSIS-BROKEN' in txt:
                r = self.rule('SUBRUN@' + c, 'the check could be evaluated in configuration %s' % c, floor=1, unit='runs')
                r.notes.append((re.findall(r'ANALYSIS-BROKEN[^\n]*', txt) or [txt[-300:]])[0])
                if p.returncode == 2 or not os.path.exists(out):
                    continue
            d = json.load(open(out))
            for rr in d['rules']:
                r = Rule(rr['id'] + '@' + c, rr['text'], 0, rr['unit'])
                r.instances, r.obligations, r.discharged = rr['instances'], rr['obligations'], rr['discharged']
                r.notes = rr['notes'][:5]
                r.failures = [dict(f, rule=f['rule'] + '@' + c, where='[%s] %s' % (c, f['where'])) for f in rr['failures']]
                self.rules.append(r)

    def finish_sub(self, cfg):
        out = os.environ.get('VERIF_SUBOUT')
        rules = []
        for r in self.rules:
            rules.append(dict(id=r.id, text=r.text, unit=r.unit, instances=r.instances, obligations=r.obligations, discharged=r.discharged, notes=r.notes[:5], failures=r.failures))
        with open(out, 'w') as f:
            json.dump(dict(property=self.pid, config=cfg, rules=rules), f, default=str)
        nf = sum(len(r.failures) for r in self.rules)
        print('SUBRUN property=%s config=%s rules=%d failures=%d' % (self.pid, cfg, len(self.rules), nf))
        for b in self.broken:
            print('ANALYSIS-BROKEN property=%s %s' % (self.pid, b))
        return 2 if self.broken and not nf else 0

    def load_known(self):
        if not os.path.exists(KNOWN):
            return [], []
        k = json.load(open(KNOWN))
        known = [e for e in k.get('known', []) if e['property'] == self.pid]
        fixed = [e for e in k.get('fixed', []) if e['property'] == self.pid]
        return known, fixed

    def finish(self):
        """write evidence, print verdict lines, return exit code"""
        sub = os.environ.get('VERIF_SUBRUN')
        if sub:
            return self.finish_sub(sub)
        if self.tier == 'thorough':
            self.run_subconfigs()
        known, fixed = self.load_known()
        knownkeys = {e['key']: e for e in known}
        broken = list(self.broken)
        for r in self.rules:
            if r.instances < r.floor:
                broken.append('rule %s: %d %s found, floor confirmed by hand is %d' % (r.id, r.instances, r.unit, r.floor))
        viol = []
        kf = []
        for r in self.rules:
            for f in r.failures:
                if f['key'] in knownkeys:
                    kf.append(f)
                else:
                    viol.append(f)
        stale = [k for k in knownkeys if k not in {f['key'] for f in kf}]
        os.makedirs(EVID, exist_ok=True)
        # obligations that are listed known findings are reported separately, so that for a
        # proof-level claim "discharged == obligations" states exactly what was proved
        obligations = sum(r.obligations for r in self.rules) - len(kf)
        discharged = sum(r.discharged for r in self.rules)
        wall = time.time() - self.t0
        samples = []
        for r in self.rules:
            for s in r.samples[:2]:
                samples.append({'rule': r.id, 'case': s})
        if not samples:
            samples = [{'rule': r.id, 'case': r.text} for r in self.rules[:1]] or [{'rule': 'none'}]
        cov = dict(
            obligations=obligations, discharged=discharged,
            checker_cmd='./check %s --tier %s' % (self.pid, self.tier),
            trusted_base=self.trusted,
            explanation=self.explanation,
            undecided=self.undecided,
            rules=[dict(id=r.id, text=r.text, instances=r.instances, floor=r.floor, unit=r.unit,
                        obligations=r.obligations, discharged=r.discharged,
                        failures=len(r.failures), notes=r.notes[:20]) for r in self.rules],
            analysed=self.analysed,
            samples=samples,
            evaluations=max(1, obligations),
            distinct_nontrivial=max(2, sum(r.instances for r in self.rules)),
            rule='static rules over the current /repo tree; every rule instance discovered is evaluated (no sampling); an instance is one (rule, code site / table / path) pair',
            exhaustive=True,
            known_findings=[f['key'] for f in kf],
            known_finding_obligations=len(kf),
        )
        cov.update(self.extra)
        level = self.level
        ev = dict(property_id=self.pid, tier=self.tier, seed=int(os.environ.get('VERIF_SEED', '0') or 0),
                  level=level, coverage=cov, assumptions=self.assumptions, wall_s=round(wall, 2),
                  violations=len(viol))
        with open(os.path.join(EVID, self.pid + '.json'), 'w') as f:
            json.dump(ev, f, indent=1, default=str)
        for r in self.rules:
            print('  rule %-18s %5d %s, %7d obligations, %d failed' % (r.id, r.instances, r.unit, r.obligations, len(r.failures)))
        printed = set()
        for f in kf:
            e = knownkeys[f['key']]
            if f['key'] in printed:
                continue
            printed.add(f['key'])
            print('KNOWN-FINDING: property=%s %s [%s] %s' % (self.pid, e.get('what', f['what']), f['rule'], f['where']))
        for b in broken:
            print('ANALYSIS-BROKEN property=%s %s' % (self.pid, b))
        if broken and not viol:
            return 2
        if viol:
            os.makedirs(REPLAY_DIR, exist_ok=True)
            path = os.path.join(REPLAY_DIR, '%s.json' % self.pid)
            with open(path, 'w') as fo:
                json.dump(dict(property=self.pid, tier=self.tier, violations=viol), fo, indent=1, default=str)
            for v in viol[:40]:
                print('  violation [%s] %s: %s' % (v['rule'], v['where'], v['what']))
            if len(viol) > 40:
                print('  ... %d more in %s' % (len(viol) - 40, path))
            print('VIOLATION property=%s replay=%s' % (self.pid, path))
            return 1
        for k in stale:
            print('  note: known finding no longer reproduces (consider moving to fixed): %s' % k)
        print('OK property=%s tier=%s obligations=%d wall=%.1fs' % (self.pid, self.tier, obligations, wall))
        return 0
