"""ASMDB: the resolved assembly program.  Every x86-64 .asm unit of the build is assembled
by nasm (macros, %rep, %if expanded by the real assembler) into a scratch directory and
disassembled with objdump; instructions are selected by recursive descent from every
global text symbol, so data embedded in .text is never taken for code."""
import os, re, pickle, hashlib, subprocess, collections
from common import REPO, CACHE, scratch, run, pmap, AnalysisBroken, sha
import srcset
from elf import Elf

REG64 = {}


def _mk():
    names = [('rax', 'eax', 'ax', 'al'), ('rbx', 'ebx', 'bx', 'bl'), ('rcx', 'ecx', 'cx', 'cl'), ('rdx', 'edx', 'dx', 'dl'),
             ('rsi', 'esi', 'si', 'sil'), ('rdi', 'edi', 'di', 'dil'), ('rbp', 'ebp', 'bp', 'bpl'), ('rsp', 'esp', 'sp', 'spl')]
    for t in names:
        for i, n in enumerate(t):
            REG64[n] = (t[0], [64, 32, 16, 8][i])
    for h, f in (('ah', 'rax'), ('bh', 'rbx'), ('ch', 'rcx'), ('dh', 'rdx')):
        REG64[h] = (f, 8)
    for i in range(8, 16):
        for suf, w in (('', 64), ('d', 32), ('w', 16), ('b', 8)):
            REG64['r%d%s' % (i, suf)] = ('r%d' % i, w)


_mk()
VREG = re.compile(r'^([xyz])mm(\d+)$')
KREG = re.compile(r'^k([0-7])$')
PREFIXES = ('rep', 'repz', 'repnz', 'repe', 'repne', 'lock', 'notrack', 'bnd', 'data16', 'cs', 'ds', 'es', 'ss', 'fs', 'gs', 'rex.W', 'rex')


class Insn:
    __slots__ = ('addr', 'size', 'raw', 'mn', 'ops', 'text', 'target', 'reloc', 'line', 'prefix', 'tsym')

    def __repr__(self):
        return '%x: %s' % (self.addr, self.text)

    @property
    def end(self):
        return self.addr + self.size


def split_ops(s):
    out = []
    d = 0
    cur = ''
    for ch in s:
        if ch in '[{':
            d += 1
        if ch in ']}':
            d -= 1
        if ch == ',' and d == 0:
            out.append(cur.strip())
            cur = ''
        else:
            cur += ch
    if cur.strip():
        out.append(cur.strip())
    return out


_memre = re.compile(r'\[(.*?)\]')


def parse_mem(op):
    """-> dict(base,index,scale,disp,rip,seg,size) or None"""
    m = _memre.search(op)
    if not m:
        return None
    e = m.group(1).replace(' ', '')
    base = index = None
    scale = 1
    disp = 0
    rip = False
    for sign, term in re.findall(r'([+-]?)([^+-]+)', e):
        if '*' in term:
            r, s = term.split('*')
            index = r
            scale = int(s, 0)
        elif term == 'rip':
            rip = True
        elif term in REG64 or VREG.match(term):
            if base is None and term in REG64:
                base = term
            else:
                index = term
        else:
            try:
                v = int(term, 0)
            except ValueError:
                raise AnalysisBroken('cannot parse memory operand %r' % op)
            disp += -v if sign == '-' else v
    seg = None
    sm = re.search(r'\b([c-g]s):\[', op)
    if sm:
        seg = sm.group(1)
    size = None
    sz = re.match(r'^(BYTE|WORD|DWORD|QWORD|XMMWORD|YMMWORD|ZMMWORD|TBYTE|OWORD) PTR', op)
    if sz:
        size = {'BYTE': 1, 'WORD': 2, 'DWORD': 4, 'QWORD': 8, 'XMMWORD': 16, 'OWORD': 16, 'YMMWORD': 32, 'ZMMWORD': 64, 'TBYTE': 10}[sz.group(1)]
    return dict(base=base, index=index, scale=scale, disp=disp, rip=rip, seg=seg, size=size)


def is_mem(op):
    return '[' in op


def is_cond_jump(mn):
    return (mn.startswith('j') and mn not in ('jmp',)) or mn.startswith('loop')


class Func:
    def __init__(self, name, entry):
        self.name = name
        self.entry = entry
        self.addrs = []
        self.aset = set()
        self.calls = []          # (addr, callee symbol name or None)
        self.tailcalls = []      # (addr, symbol) direct jmp to another global symbol / external
        self.slotjumps = []      # (addr, slot symbol) jmp [rel slot]
        self.unresolved = []     # indirect jumps/calls not resolved
        self.extra_entries = []
        self.extra_succ = {}     # addr of computed jmp -> [targets]


class Unit:
    def __init__(self, name, obj):
        self.name = name
        self.obj = obj
        self.elf = Elf(obj)
        self.insns = {}
        self.labels = collections.defaultdict(list)   # addr -> [names] in .text
        self.funcs = {}
        self._disasm()
        self._functions()

    # ---------------------------------------------------------------- disassembly
    def _disasm(self):
        out = run(['objdump', '-D', '-j', '.text', '-r', '-w', '-l', '-M', 'intel', self.obj]).stdout
        cur_line = None
        last = None
        textrel = self.elf.relmap.get('.text', {})
        for line in out.splitlines():
            if not line:
                continue
            c0 = line[0]
            if c0 == '/':
                m = re.match(r'^(/.*):(\d+)(?: \(discriminator \d+\))?$', line)
                if m:
                    cur_line = (m.group(1), int(m.group(2)))
                continue
            if c0 == '0':
                m = re.match(r'^([0-9a-f]+) <([^>]+)>:', line)
                if m:
                    self.labels[int(m.group(1), 16)].append(m.group(2))
                continue
            if c0 != ' ':
                continue
            m = re.match(r'^\s*([0-9a-f]+):\t((?:[0-9a-f]{2} )+)\s*(?:\t(.*))?$', line)
            if not m:
                continue
            a = int(m.group(1), 16)
            raw = bytes(int(x, 16) for x in m.group(2).split())
            txt = (m.group(3) or '').strip()
            if not txt:
                if last is not None and last.addr + last.size == a:
                    last.raw += raw
                    last.size = len(last.raw)
                continue
            txt = re.sub(r'\t[0-9a-f]+: R_X86_64_.*$', '', txt)
            txt = re.sub(r'\s+#.*$', '', txt).strip()
            i = Insn()
            i.addr = a
            i.raw = raw
            i.size = len(raw)
            i.text = txt
            i.line = cur_line
            i.target = None
            i.tsym = None
            i.reloc = None
            parts = txt.split(None, 1)
            mn = parts[0]
            rest = parts[1] if len(parts) > 1 else ''
            pref = []
            while mn in PREFIXES and rest:
                pref.append(mn)
                p2 = rest.split(None, 1)
                mn = p2[0]
                rest = p2[1] if len(p2) > 1 else ''
            i.prefix = pref
            i.mn = mn
            tm = re.match(r'^([0-9a-f]+) <([^>]+)>$', rest)
            if tm and (mn.startswith('j') or mn == 'call' or mn.startswith('loop') or mn == 'xbegin'):
                i.target = int(tm.group(1), 16)
                i.tsym = tm.group(2)
                i.ops = []
            else:
                i.ops = split_ops(rest)
            self.insns[a] = i
            last = i
        # attach relocations (by offset inside the instruction)
        offs = sorted(textrel)
        import bisect
        addrs = sorted(self.insns)
        for off in offs:
            k = bisect.bisect_right(addrs, off) - 1
            if k < 0:
                continue
            ins = self.insns[addrs[k]]
            if ins.addr <= off < ins.addr + ins.size:
                r = textrel[off]
                # effective addend relative to the symbol for PC-relative relocs
                add = r[3]
                if r[1] in ('R_X86_64_PC32', 'R_X86_64_PLT32', 'R_X86_64_GOTPCREL', 'R_X86_64_GOTPCRELX', 'R_X86_64_REX_GOTPCRELX'):
                    add = r[3] + (ins.addr + ins.size - off)
                ins.reloc = (r[1], r[2], add, r[4])

    def reloc_target(self, ins):
        """(section or None, symbol name, offset) the relocation of this instruction refers to.
        Section symbols are resolved to the named symbol at that offset when one exists."""
        if ins.reloc is None:
            return None
        typ, name, add, sym = ins.reloc
        if sym.type == 3:  # section symbol
            sec = sym.sec
            for y in self.elf.symlist:
                if y.sec == sec and y.type != 3 and y.name and y.value == add:
                    return (sec, y.name, 0)
            # nearest preceding symbol
            best = None
            for y in self.elf.symlist:
                if y.sec == sec and y.type != 3 and y.name and y.value <= add:
                    if best is None or y.value > best.value:
                        best = y
            if best is not None:
                return (sec, best.name, add - best.value)
            return (sec, sec, add)
        return (sym.sec, name, add)

    # ---------------------------------------------------------------- functions
    def global_text_syms(self):
        out = []
        for y in self.elf.symlist:
            if y.sec == '.text' and y.bind == 1 and y.name and y.type in (0, 1, 2):
                out.append(y)
        return out

    def _functions(self):
        gl = self.global_text_syms()
        gaddr = {y.value: y.name for y in gl}
        for y in gl:
            if y.name.endswith('_slver') or re.search(r'_slver_[0-9a-f]+$', y.name):
                continue
            self.funcs[y.name] = self._descend(y.name, y.value, gaddr)

    def _descend(self, name, entry, gaddr):
        f = Func(name, entry)
        seen = set()
        work = [entry]
        while work:
            a = work.pop()
            while a not in seen:
                if a not in self.insns:
                    raise AnalysisBroken('%s:%s: control flow reaches %#x which objdump did not decode as an instruction start' % (self.name, name, a))
                seen.add(a)
                i = self.insns[a]
                mn = i.mn
                if mn in ('(bad)',) or mn.startswith('.'):
                    raise AnalysisBroken('%s:%s: undecodable bytes reached at %#x' % (self.name, name, a))
                if mn in ('ret', 'retq', 'ud2', 'hlt'):
                    break
                if mn == 'call':
                    if i.reloc is not None:
                        f.calls.append((a, self.reloc_target(i)[1]))
                    elif i.target is not None:
                        tn = gaddr.get(i.target) or (self.labels.get(i.target) or [None])[0]
                        f.calls.append((a, tn))
                        # local call: also analyse the callee body as part of this function's reachable code
                        work.append(i.target)
                    else:
                        f.unresolved.append(a)
                    a = i.end
                    continue
                if mn == 'jmp':
                    if i.reloc is not None and not i.ops:
                        f.tailcalls.append((a, self.reloc_target(i)[1]))
                    elif i.target is not None:
                        if i.target in gaddr and i.target != entry and gaddr[i.target] != name and not self._same_function(name, gaddr[i.target]):
                            f.tailcalls.append((a, gaddr[i.target]))
                        else:
                            work.append(i.target)
                    elif i.ops and is_mem(i.ops[0]) and i.reloc is not None:
                        f.slotjumps.append((a, self.reloc_target(i)))
                    else:
                        tg = self._resolve_computed(i)
                        if tg:
                            f.extra_succ[a] = tg
                            work.extend(tg)
                        else:
                            f.unresolved.append(a)
                    break
                if is_cond_jump(mn):
                    if i.target is not None:
                        work.append(i.target)
                    else:
                        f.unresolved.append(a)
                a = i.end
        f.addrs = sorted(seen)
        f.aset = seen
        return f

    def _resolve_computed(self, jmp):
        """jmp R where R = T + zx16([T + idx*2]) + d  (jump table of 16-bit offsets embedded in
        .text): targets = { T + d + entry } for every entry of the table T."""
        if not jmp.ops or jmp.ops[0] not in REG64:
            return None
        reg = jmp.ops[0]
        addrs = sorted(self.insns)
        import bisect
        k = bisect.bisect_left(addrs, jmp.addr)
        prev = [self.insns[x] for x in addrs[max(0, k - 6):k]][::-1]
        table = None
        disp = None
        idxreg = None
        for p in prev:
            if p.mn == 'lea' and p.ops[0] == reg:
                m = parse_mem(p.ops[1])
                if m['rip'] and disp is not None:
                    table = p.end + m['disp']
                    break
                if m['base'] == reg and m['index'] and m['scale'] == 1 and disp is None:
                    disp = m['disp']
                    idxreg = m['index']
                    continue
                return None
            if p.mn in ('movzx',) and idxreg and p.ops[0] == idxreg:
                m = parse_mem(p.ops[1])
                if not (m and m['base'] == reg and m['size'] == 2 and m['scale'] == 2):
                    return None
                continue
            if p.ops and p.ops[0] in (reg, idxreg):
                return None
        if table is None or disp is None or table not in self.labels:
            return None
        text = self.elf.secbytes('.text')
        nxt = min([x for x in self.labels if x > table] + [len(text)])
        tg = set()
        for off in range(table, nxt - 1, 2):
            tg.add(table + disp + int.from_bytes(text[off:off + 2], 'little'))
        return sorted(tg)

    def _same_function(self, a, b):
        # global labels inside one routine (igzip bodies export loop labels); treat a jump to
        # another global text symbol as intra-procedural unless that symbol is typed FUNC
        y = self.elf.syms.get(b)
        return y is not None and y.type != 2

    def succ(self, f, a):
        i = self.insns[a]
        mn = i.mn
        if mn in ('ret', 'retq', 'ud2', 'hlt'):
            return []
        if mn == 'jmp':
            if i.target is not None and i.target in f.aset and not i.reloc:
                return [i.target]
            return [t for t in f.extra_succ.get(a, []) if t in f.aset]
        out = []
        if is_cond_jump(mn) and i.target is not None and i.target in f.aset:
            out.append(i.target)
        n = i.end
        if n in f.aset:
            out.append(n)
        return out

    def where(self, i, f=None):
        ln = ''
        if i.line:
            p = i.line[0]
            if p.startswith(REPO + '/'):
                p = p[len(REPO) + 1:]
            ln = '%s:%d ' % (p, i.line[1])
        fn = ''
        if f is not None:
            fn = '%s+%#x ' % (f.name, i.addr - f.entry)
        return '%s%s[%s]' % (ln, fn, i.text)


# -------------------------------------------------------------------- building

_wd = None


def _workdir():
    global _wd
    if _wd is None:
        _wd = scratch('isalverif-asm-')
    return _wd


def _asm_job(job):
    unit, obj, flags = job
    p = subprocess.run(['nasm'] + flags + ['-g', '-F', 'dwarf', '-o', obj, os.path.join(REPO, unit)], capture_output=True, text=True)
    if p.returncode != 0:
        return (unit, None, p.stderr[-2000:])
    return (unit, obj, '')


_tree_hash = {}


def tree_hash():
    """hash of every assembly-relevant source (all .asm/.inc/.h under the include dirs)"""
    if 'h' in _tree_hash:
        return _tree_hash['h']
    h = hashlib.sha256()
    ss = srcset.get()
    files = []
    for d in set(ss.inc_dirs) | {os.path.join(REPO, os.path.dirname(u)) for u in ss.asm_units}:
        if os.path.isdir(d):
            for fn in sorted(os.listdir(d)):
                if fn.endswith(('.asm', '.inc', '.h')):
                    files.append(os.path.join(d, fn))
    for p in sorted(set(files)):
        h.update(p.encode())
        with open(p, 'rb') as f:
            h.update(f.read())
    h.update(open(os.path.abspath(__file__), 'rb').read())
    _tree_hash['h'] = h.hexdigest()[:20]
    return _tree_hash['h']


def _load_job(job):
    unit, obj = job
    try:
        return (unit, Unit(unit, obj), None)
    except AnalysisBroken as e:
        return (unit, None, str(e))


_units = {}


def units(config='default', only=None):
    """dict unit path -> Unit for the configuration (assembled + disassembled, parallel)"""
    ss = srcset.get()
    names = list(only) if only else list(ss.asm_units)
    key = (config,)
    have = _units.setdefault(key, {})
    todo = [u for u in names if u not in have]
    if todo:
        d = os.path.join(_workdir(), config)
        os.makedirs(d, exist_ok=True)
        flags = ss.asm_flags(srcset.CONFIGS[config]['asm'])
        jobs = [(u, os.path.join(d, u.replace('/', '__')[:-4] + '.o'), flags) for u in todo]
        objs = []
        for unit, obj, err in pmap(_asm_job, jobs):
            if obj is None:
                raise AnalysisBroken('nasm failed on %s [%s]: %s' % (unit, config, err))
            objs.append((unit, obj))
        for unit, u, err in pmap(_load_job, objs):
            if u is None:
                raise AnalysisBroken(err)
            have[unit] = u
    return {u: have[u] for u in names}
