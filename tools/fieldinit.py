"""FIELDINIT: interprocedural definite-assignment analysis of the bytes of a context structure.

For a function f and a pointer parameter k, compute
    UE(f)[k]  byte intervals (relative to the parameter) that may be READ on some path before f (or a
              callee) has written them - the "upward exposed" part of the context: what the function's
              behaviour can depend on;
    MW(f)[k]  byte intervals written on EVERY path to a return.
Forward must-dataflow over the LLIR CFG (intersection at joins), callee summaries substituted through
constant-offset argument pointers; accesses at a non-constant offset (array elements) are ignored.
Asm callees get the same two sets from the ASMFLOW access list by a must-dataflow over the asm CFG."""
import re
from common import AnalysisBroken
import irrules, llir

TOPSET = None      # "everything written" (unreached)


def iv_add(iv, lo, hi):
    if lo >= hi:
        return iv
    out = []
    for a, b in iv:
        if b < lo or a > hi:
            out.append((a, b))
        else:
            lo, hi = min(lo, a), max(hi, b)
    out.append((lo, hi))
    out.sort()
    return tuple(out)


def iv_union(a, b):
    for lo, hi in b:
        a = iv_add(a, lo, hi)
    return a


def iv_inter(a, b):
    out = []
    for x in a:
        for y in b:
            lo, hi = max(x[0], y[0]), min(x[1], y[1])
            if lo < hi:
                out.append((lo, hi))
    return tuple(sorted(out))


def iv_minus(lo, hi, iv):
    """parts of [lo,hi) not covered by iv"""
    out = []
    cur = lo
    for a, b in iv:
        if b <= cur or a >= hi:
            continue
        if a > cur:
            out.append((cur, a))
        cur = max(cur, b)
    if cur < hi:
        out.append((cur, hi))
    return out


def iv_shift(iv, d):
    return tuple((a + d, b + d) for a, b in iv)


def st_join(a, b):
    if a is TOPSET:
        return b
    if b is TOPSET:
        return a
    return {k: iv_inter(a.get(k, ()), b.get(k, ())) for k in set(a) | set(b)}


def type_size(mod, ty):
    try:
        return mod.types.size_align(ty)[0] if hasattr(mod, 'types') else mod.size_align(ty)[0]
    except Exception:
        m = re.match(r'^i(\d+)$', ty or '')
        return (int(m.group(1)) + 7) // 8 if m else 1


class Analysis:
    def __init__(self, mod, ext=None):
        """ext: {symbol: (UE, MW)} summaries for callees outside the module (asm), keyed per parameter index"""
        self.mod = mod
        self.ext = ext or {}
        self.memo = {}
        self.stack = []
        self.notes = []

    def summary(self, fname):
        if fname in self.memo:
            return self.memo[fname]
        if fname in self.stack:
            self.notes.append('recursion through %s: treated as neither reading nor writing' % fname)
            return ({}, {}, {})
        f = self.mod.funcs[fname]
        self.stack.append(fname)
        try:
            r = self._analyse(f)
        finally:
            self.stack.pop()
        self.memo[fname] = r
        return r

    def _param_cell(self, P, ptr):
        at = P.atoms(ptr)
        if len(at) != 1:
            return None
        a = list(at)[0]
        if a[0] == 'param' and a[2] is not None:
            return a[1], a[2]
        return None

    def _analyse(self, f):
        mod = self.mod
        P = irrules.prov(mod, f)
        IN = {b: TOPSET for b in f.order}
        IN[f.order[0]] = {}
        UE = {}
        UEsite = {}
        changed = True

        def callee_summary(i):
            c = i.callee
            if c in mod.funcs:
                return self.summary(c)
            if c in self.ext:
                return self.ext[c]
            return None

        def transfer(b, st, collect):
            st = {k: v for k, v in st.items()}
            for i in f.blocks[b].insns:
                if i.op == 'load':
                    pc = self._param_cell(P, i.ops[0])
                    if pc and collect:
                        k, off = pc
                        for lo, hi in iv_minus(off, off + type_size(mod, i.ty), st.get(k, ())):
                            UE[k] = iv_add(UE.get(k, ()), lo, hi)
                            UEsite.setdefault((k, lo), mod.where(f, i))
                elif i.op == 'store':
                    pc = self._param_cell(P, i.ops[1])
                    if pc:
                        k, off = pc
                        st[k] = iv_add(st.get(k, ()), off, off + type_size(mod, i.ty))
                elif i.op == 'call':
                    c = i.callee
                    if c.startswith('llvm.dbg') or c.startswith('llvm.lifetime'):
                        continue
                    if c in irrules.WRITERS:
                        n = i.args[2][1] if len(i.args) > 2 else None
                        if c.startswith(('llvm.memcpy', 'llvm.memmove', 'memcpy', 'memmove', '__memcpy', '__memmove')) and n and re.match(r'^\d+$', n):
                            pc = self._param_cell(P, i.args[1][1])
                            if pc and collect:
                                k, off = pc
                                for lo, hi in iv_minus(off, off + int(n), st.get(k, ())):
                                    UE[k] = iv_add(UE.get(k, ()), lo, hi)
                                    UEsite.setdefault((k, lo), mod.where(f, i))
                        pc = self._param_cell(P, i.args[0][1])
                        if pc and n and re.match(r'^\d+$', n):
                            k, off = pc
                            st[k] = iv_add(st.get(k, ()), off, off + int(n))
                        continue
                    s = callee_summary(i)
                    if s is None:
                        continue
                    cue, cmw, csite = s
                    for j, (_, av) in enumerate(i.args):
                        pc = self._param_cell(P, av)
                        if not pc:
                            continue
                        k, off = pc
                        if collect:
                            for lo0, hi0 in cue.get(j, ()):
                                for lo, hi in iv_minus(lo0 + off, hi0 + off, st.get(k, ())):
                                    UE[k] = iv_add(UE.get(k, ()), lo, hi)
                                    UEsite.setdefault((k, lo), '%s -> %s' % (mod.where(f, i), csite.get((j, lo - off), csite.get((j, lo0), c))))
                    for j, (_, av) in enumerate(i.args):
                        pc = self._param_cell(P, av)
                        if pc:
                            k, off = pc
                            st[k] = iv_union(st.get(k, ()), iv_shift(cmw.get(j, ()), off))
            return st
        rounds = 0
        while changed:
            changed = False
            rounds += 1
            if rounds > 60:
                raise AnalysisBroken('fieldinit: no fixpoint in %s' % f.name)
            for b in f.order:
                if IN[b] is TOPSET:
                    continue
                out = transfer(b, IN[b], False)
                for s in f.blocks[b].succs:
                    new = st_join(IN[s], out) if IN[s] is not TOPSET else out
                    if IN[s] is TOPSET or new != IN[s]:
                        if IN[s] is TOPSET or any(new.get(k, ()) != IN[s].get(k, ()) for k in set(new) | set(IN[s])):
                            IN[s] = new
                            changed = True
        MW = TOPSET
        for b in f.order:
            if IN[b] is TOPSET:
                continue
            out = transfer(b, IN[b], True)
            if f.blocks[b].insns and f.blocks[b].insns[-1].op == 'ret':
                MW = st_join(MW, out)
        return (UE, MW if MW is not TOPSET else {}, UEsite)


def asm_summary(u, f, accesses, tag, param_index):
    """(UE, MW, sites) of an asm kernel for the structure it receives in the register tagged `tag` (P(tag,(off,0)) accesses)"""
    byaddr = {}
    for a in accesses:
        if a.addr[0] == 'P' and a.addr[1] == tag and a.addr[2] is not None and a.addr[2][1] == 0:
            byaddr.setdefault(a.insn.addr, []).append(a)
    IN = {f.entry: ()}
    work = [f.entry]
    while work:
        x = work.pop()
        st = IN[x]
        for a in byaddr.get(x, []):
            if a.kind in ('store', 'rmw'):
                st = iv_add(st, a.addr[2][0], a.addr[2][0] + a.size)
        for n in u.succ(f, x):
            if n not in IN:
                IN[n] = st
                work.append(n)
            else:
                new = iv_inter(IN[n], st)
                if new != IN[n]:
                    IN[n] = new
                    work.append(n)
    UE = ()
    sites = {}
    MW = None
    for x in f.addrs:
        if x not in IN:
            continue
        st = IN[x]
        for a in byaddr.get(x, []):
            if a.kind in ('load', 'rmw'):
                for lo, hi in iv_minus(a.addr[2][0], a.addr[2][0] + a.size, st):
                    UE = iv_add(UE, lo, hi)
                    sites.setdefault((param_index, lo), '%s: %s' % (u.name, u.where(a.insn, f)))
            if a.kind in ('store', 'rmw'):
                st = iv_add(st, a.addr[2][0], a.addr[2][0] + a.size)
        if u.insns[x].mn == 'ret':
            MW = st if MW is None else iv_inter(MW, st)
    return ({param_index: UE}, {param_index: MW or ()}, sites)


SYSV = ['rdi', 'rsi', 'rdx', 'rcx', 'r8', 'r9']


def dispatch_ext(mod, A, config='default'):
    """summaries for the multibinary entry points called from C: UE = union, MW = intersection over every
    implementation a resolver can select (C siblings from the IR, asm siblings from ASMFLOW)."""
    import facts, provenance
    from program import Program
    prog = Program(config)
    res, _ = provenance.analyse(config)
    notes = []
    for un, u in sorted(prog.units.items()):
        for ep in facts.find_entry_points(u):
            syms = sorted({p.stored[1] for p in facts.resolver_paths(u, ep['resolver']) if p.stored and p.stored[0] == 'SYM'})
            sums = []
            ok = True
            for s in syms:
                if s in mod.funcs:
                    sums.append(A.summary(s))
                elif s in res:
                    info = res[s]
                    ue, mw, sites = {}, {}, {}
                    for reg, val in info['fam']['args'].items():
                        if reg in SYSV and val[0] == 'P' and isinstance(val[1], str) and val[2] == (0, 0):
                            k = SYSV.index(reg)
                            a, b, c = asm_summary(info['unit'], info['func'], info['accesses'], val[1], k)
                            ue.update(a)
                            mw.update(b)
                            sites.update(c)
                    sums.append((ue, mw, sites))
                else:
                    ok = False
                    notes.append('%s: implementation %s has no IR and no kernel family: entry point not summarised' % (ep['name'], s))
            if not ok or not sums:
                continue
            UE, MW, sites = {}, None, {}
            for ue, mw, st in sums:
                for k, iv in ue.items():
                    UE[k] = iv_union(UE.get(k, ()), iv)
                MW = dict(mw) if MW is None else {k: iv_inter(MW.get(k, ()), mw.get(k, ())) for k in set(MW) | set(mw)}
                for kk, vv in st.items():
                    sites.setdefault(kk, vv)
            A.ext[ep['name']] = (UE, MW or {}, sites)
    A.memo.clear()
    return notes


def struct_fields(struct, header='igzip_lib.h', config='default'):
    """[(field, offset, size)] of a structure: names from the header text, offsets/sizes as the compiler evaluates them"""
    import mirror
    from common import read_repo
    txt = read_repo('include/' + header)
    m = re.search(r'struct %s \{(.*?)\n\};' % struct, txt, re.S)
    if not m:
        raise AnalysisBroken('struct %s not found in %s' % (struct, header))
    body = re.sub(r'/\*.*?\*/', '', m.group(1), flags=re.S)
    body = re.sub(r'//[^\n]*', '', body)
    names = []
    depth = 0
    for decl in body.split(';'):
        depth += decl.count('{') - decl.count('}')
        d = decl.strip()
        mm = re.search(r'(\w+)\s*(\[[^\]]*\])*\s*$', d)
        if mm and d and depth == 0:
            names.append(mm.group(1))
    ex = []
    for n in names:
        ex += [(n + '@off', 'offsetof(struct %s, %s)' % (struct, n)), (n + '@sz', 'sizeof(((struct %s*)0)->%s)' % (struct, n))]
    v, drop = mirror.c_values(config, [header], ex, 'fi_' + struct)
    return [(n, v[n + '@off'], v[n + '@sz']) for n in names if n + '@off' in v and n + '@sz' in v]


def names_of(fields, lo, hi):
    out = []
    for n, o, s in fields:
        if o < hi and lo < o + s:
            out.append(n if (lo <= o and o + s <= hi) else '%s[%d..%d)' % (n, max(lo, o) - o, min(hi, o + s) - o))
    return out
