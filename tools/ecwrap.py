"""R-BATCH / R-HANDOFF-LEN: the row-batching C wrappers ec_encode_data_<isa> and
ec_encode_data_update_<isa> against the asm kernels they drive (siblings must agree)."""
import re
from common import AnalysisBroken
import cast, asmdb, kernels
from asmflow import Flow, AFF, SC, TOP
import provenance

UNIT = 'erasure_code/ec_highlevel_func.c'


def table_stride():
    """bytes of expanded table per coefficient, from the initialisers themselves"""
    fa = cast.function_asts('erasure_code/ec_base.c', 'ec_init_tables_base')
    f = fa.get('ec_init_tables_base')
    if f is None:
        raise AnalysisBroken('ec_init_tables_base not found')
    s_base = None
    for n in cast.walk(cast.body(f)):
        if n.get('kind') == 'CompoundAssignOperator' and n.get('opcode') == '+=':
            lhs = cast.strip(n['inner'][0])
            if lhs.get('kind') == 'DeclRefExpr' and lhs['referencedDecl']['name'] == 'g_tbls':
                p = cast.poly(n['inner'][1])
                if p and list(p) == [()]:
                    s_base = p[()]
    fg = cast.function_asts(UNIT, 'ec_init_tables_gfni').get('ec_init_tables_gfni')
    s_gfni = None
    if fg is not None:
        for n in cast.walk(cast.body(fg)):
            if n.get('kind') == 'VarDecl' and n.get('name') == 'g64':
                t = n['type']['qualType']
                if 'uint64_t' in t or 'unsigned long' in t:
                    s_gfni = 8
    if s_base is None:
        raise AnalysisBroken('cannot read the per-coefficient table stride from ec_init_tables_base')
    return s_base, s_gfni


def kernel_min_len(sym):
    """minimum len the asm kernel accepts: the largest N such that an entry guard sends len < N to a
    return with a non-zero constant and without any store.  0 if the kernel has no failing guard."""
    units = asmdb.units('default')
    for un, u in units.items():
        if sym in u.funcs:
            break
    else:
        raise AnalysisBroken('kernel %s is not defined by any asm unit of the build' % sym)
    f = u.funcs[sym]
    k = kernels.family(sym)
    if k is None:
        raise AnalysisBroken('kernel %s belongs to no known family' % sym)
    args = dict(k['args'])
    fl = Flow(u, f, args, k['loadrule'], 'rdi')    # N := len (first argument)
    acc = fl.run()
    store_addrs = {a.insn.addr for a in acc if a.kind in ('store', 'rmw') and not (a.addr[0] == 'P' and a.addr[1] == 'STACK')}
    # return sites with a known non-zero constant in rax
    rets = {}
    for a in f.addrs:
        i = u.insns[a]
        if i.mn == 'ret':
            v = fl.IN[a]['rax'] if a in fl.IN else TOP
            rets[a] = v

    def only_fail(start):
        seen = set()
        work = [start]
        any_ret = False
        while work:
            b = work.pop()
            if b in seen:
                continue
            seen.add(b)
            if b in store_addrs:
                return False
            if b in rets:
                v = rets[b]
                if not (v[0] == 'AFF' and v[2] == 0 and v[1] != 0):
                    return False
                any_ret = True
                continue
            work += u.succ(f, b)
        return any_ret
    best = 0
    guards = []
    for a in f.addrs:
        i = u.insns[a]
        if i.mn not in ('jl', 'jb', 'jnge', 'jnae', 'jc', 'jge', 'jae', 'jnl', 'jnb', 'jle', 'jbe', 'jg', 'ja'):
            continue
        # flag producer: nearest preceding cmp/sub in straight line
        idx = f.addrs.index(a)
        prod = None
        for b in reversed(f.addrs[max(0, idx - 6):idx]):
            j = u.insns[b]
            if j.end != (f.addrs[f.addrs.index(b) + 1]):
                break
            if j.mn in ('cmp', 'sub'):
                prod = j
                break
            if provenance.writes_flags(j):
                break
        if prod is None or len(prod.ops) != 2:
            continue
        try:
            imm = int(prod.ops[1], 0)
        except ValueError:
            continue
        st = fl.IN.get(prod.addr)
        if st is None:
            continue
        v = fl.rd(st, prod.ops[0])
        if not (v[0] == 'AFF' and v[2] == 1):
            continue
        c = v[1]
        # len + c < imm  <=> len < imm - c   (jl/jb taken);  jle/jbe: len <= imm - c
        thr = imm - c
        if i.mn in ('jl', 'jb', 'jnge', 'jnae', 'jc'):
            fail_edge, n = i.target, thr
        elif i.mn in ('jle', 'jbe'):
            fail_edge, n = i.target, thr + 1
        elif i.mn in ('jge', 'jae', 'jnl', 'jnb'):
            fail_edge, n = i.end, thr
        else:
            fail_edge, n = i.end, thr + 1
        if fail_edge in f.aset and only_fail(fail_edge):
            guards.append((n, u.where(i, f)))
            best = max(best, n)
    return best, guards, u.name


def check_wrappers(rep, kind):
    """kind: 'encode' (dot_prod kernels) or 'update' (mad kernels)"""
    stem = 'dot_prod' if kind == 'encode' else 'mad'
    prefix = 'ec_encode_data_' if kind == 'encode' else 'ec_encode_data_update_'
    rid = 'R-BATCH' if kind == 'encode' else 'R-BATCH-UPD'
    R = rep.rule(rid, 'row-batching wrappers: loop calls the widest kernel and advances g_tbls by W*k*S, coding by W, rows by W; one switch arm per remainder calling the kernel of that arity; same ISA family throughout',
                 floor=6, unit='wrappers')
    RH = rep.rule('R-HANDOFF-LEN' + ('' if kind == 'encode' else '-UPD'), 'the length below which a wrapper falls back to the portable code is >= the minimum length every kernel it calls accepts (kernels\' return value is ignored by the wrappers)',
                  floor=6, unit='wrappers')
    s_base, s_gfni = table_stride()
    fa = cast.function_asts(UNIT, prefix)
    wrappers = {n: f for n, f in fa.items() if re.match('^' + prefix + r'(sse|avx|avx2|avx512|avx512_gfni|avx2_gfni)$', n)}
    if kind == 'encode':
        wrappers = {n: f for n, f in wrappers.items() if not n.startswith('ec_encode_data_update_')}
    for name, fn in sorted(wrappers.items()):
        R.instance()
        RH.instance()
        isa = name[len(prefix):]
        S = s_gfni if 'gfni' in isa else s_base
        W = '%s:%s' % (UNIT, name)
        pr = cast.params(fn)
        exp_params = ['len', 'k', 'rows', 'g_tbls', 'data', 'coding'] if kind == 'encode' else ['len', 'k', 'rows', 'vec_i', 'g_tbls', 'data', 'coding']
        if pr != exp_params:
            raise AnalysisBroken('%s: parameter list %s differs from the documented %s' % (W, pr, exp_params))
        b = cast.body(fn)
        whiles = [n for n in b['inner'] if n.get('kind') == 'WhileStmt']
        switches = [n for n in b['inner'] if n.get('kind') == 'SwitchStmt']
        ifs = [n for n in b['inner'] if n.get('kind') == 'IfStmt']

        def rows_eq(n):
            c = cast.strip(n['inner'][0])
            if c.get('kind') == 'BinaryOperator' and c.get('opcode') == '==':
                l, r = cast.poly(c['inner'][0]), cast.poly(c['inner'][1])
                if l == {('rows',): 1} and r and list(r) == [()]:
                    return r[()]
                if r == {('rows',): 1} and l and list(l) == [()]:
                    return l[()]
            return None
        # the remainder dispatch may be written as an if / else-if chain on rows instead of a switch
        chains = [n for n in ifs if rows_eq(n) is not None]
        ifs = [n for n in ifs if rows_eq(n) is None]
        if len(whiles) != 1 or len(switches) + len(chains) != 1 or len(ifs) > 1:
            raise AnalysisBroken('%s: unrecognised wrapper shape (while=%d switch=%d if=%d rows-chain=%d)' % (W, len(whiles), len(switches), len(ifs), len(chains)))

        def kernel_call(node, want_arity):
            calls = [c for c in cast.find_all(node, 'CallExpr')]
            if len(calls) != 1:
                return None, 'expected exactly one kernel call, found %d' % len(calls)
            c = calls[0]
            cn = cast.callee_name(c)
            m = re.match(r'^gf_(\d?)vect_%s_(\w+)$' % stem, cn or '')
            if not m:
                return None, 'calls %s, not a gf_<n>vect_%s kernel' % (cn, stem)
            ar = int(m.group(1) or 1)
            problems = []
            if m.group(2) != isa:
                problems.append('kernel %s belongs to ISA family %s, wrapper is %s' % (cn, m.group(2), isa))
            if want_arity is not None and ar != want_arity:
                problems.append('arm for %d rows calls the %d-row kernel %s' % (want_arity, ar, cn))
            args = [cast.poly(a) for a in cast.call_args(c)]
            names = []
            for p in args:
                names.append(list(p)[0][0] if p and len(p) == 1 and list(p.values()) == [1] and len(list(p)[0]) == 1 else None)
            want = ['len', 'k', 'g_tbls', 'data', 'coding'] if kind == 'encode' else ['len', 'k', 'vec_i', 'g_tbls', 'data', 'coding']
            if ar == 1:
                want = want[:-1] + ['*coding']
            if names != want:
                problems.append('%s is passed (%s), expected (%s)' % (cn, ', '.join(str(x) for x in names), ', '.join(want)))
            return (cn, ar), '; '.join(problems)
        # (i) the loop
        wh = whiles[0]
        cond = cast.strip(wh['inner'][0])
        Wn = None
        maxrem = None
        if cond.get('kind') == 'BinaryOperator' and cond.get('opcode') in ('>=', '>'):
            l, r = cast.poly(cond['inner'][0]), cast.poly(cond['inner'][1])
            if l == {('rows',): 1} and r and list(r) == [()]:
                Wn = r[()]
                # "rows >= W" leaves 0..W-1 rows, "rows > W" leaves up to W rows for the switch
                maxrem = Wn - 1 if cond['opcode'] == '>=' else Wn
        if Wn is None:
            raise AnalysisBroken('%s: loop condition is not rows >= <const> / rows > <const>' % W)
        kc, prob = kernel_call(wh['inner'][1], Wn)
        called = []
        R.check(kc is not None and not prob, '%s:%d' % (W, cast.line_of(wh)), 'batch loop (%d rows per call): %s' % (Wn, prob), key='%s|%s|loop-call' % (rid, name),
                sample='%s: while rows>=%d -> %s' % (name, Wn, kc[0]) if kc and isa == 'avx2' else None)
        if kc:
            called.append(kc[0])
        steps = {}
        for n in cast.walk(wh['inner'][1]):
            if n.get('kind') == 'CompoundAssignOperator':
                lhs = cast.strip(n['inner'][0])
                if lhs.get('kind') == 'DeclRefExpr':
                    steps[lhs['referencedDecl']['name']] = (n['opcode'], cast.poly(n['inner'][1]), cast.line_of(n))
        exp = {'g_tbls': ('+=', {('k',): Wn * S}), 'coding': ('+=', {(): Wn}), 'rows': ('-=', {(): Wn})}
        for var, (op, pol) in exp.items():
            got = steps.get(var)
            R.check(got is not None and got[0] == op and got[1] == pol, '%s:%s' % (W, got[2] if got else cast.line_of(wh)),
                    'batch loop must do "%s %s %s" (W=%d rows per call, %d table bytes per coefficient); found %s' % (var, op, pol, Wn, S, (got[0], got[1]) if got else 'nothing'),
                    key='%s|%s|step-%s' % (rid, name, var), sample='%s: g_tbls += %d*k' % (name, Wn * S) if var == 'g_tbls' and isa == 'avx512_gfni' else None)
        # (ii) the remainder switch
        arms = {}
        cur = []
        if chains:
            sw = chains[0]
            node = sw
            while node is not None and node.get('kind') == 'IfStmt':
                v = rows_eq(node)
                if v is None:
                    raise AnalysisBroken('%s: the else-if chain after the loop tests something other than rows == <const>' % W)
                if v in arms:
                    raise AnalysisBroken('%s: rows == %d is tested twice in the chain' % (W, v))
                arms[v] = [node['inner'][1], {'kind': 'BreakStmt'}]       # an if-arm cannot fall through
                node = node['inner'][2] if len(node['inner']) > 2 else None
            if node is not None:
                arms['default'] = [node, {'kind': 'BreakStmt'}]
            sbody = {'inner': []}
        else:
            sw = switches[0]
            scond = cast.poly(sw['inner'][0])
            R.check(scond == {('rows',): 1}, '%s:%d' % (W, cast.line_of(sw)), 'remainder switch must switch on rows', key='%s|%s|switch-var' % (rid, name))
            sbody = sw['inner'][1]
        for n in sbody.get('inner', []):
            node = n
            labels = []
            while node.get('kind') in ('CaseStmt', 'DefaultStmt'):
                if node['kind'] == 'CaseStmt':
                    v = cast.poly(node['inner'][0])
                    labels.append(v[()] if v and list(v) == [()] else '?')
                    node = node['inner'][-1]
                else:
                    labels.append('default')
                    node = node['inner'][-1]
            if labels:
                cur = labels
                for l in labels:
                    arms[l] = [node]
            else:
                for l in cur:
                    arms[l].append(node)
            if node.get('kind') == 'BreakStmt':
                cur = []
        for r in range(1, maxrem + 1):
            if r not in arms:
                R.fail('%s:%d' % (W, cast.line_of(sw)), 'no switch arm for a remainder of %d rows' % r, key='%s|%s|arm%d-missing' % (rid, name, r))
                continue
            stm = {'kind': 'CompoundStmt', 'inner': arms[r]}
            kc, prob = kernel_call(stm, r)
            R.check(kc is not None and not prob, '%s:%d' % (W, cast.line_of(arms[r][0])), 'arm for %d rows: %s' % (r, prob), key='%s|%s|arm%d' % (rid, name, r))
            if kc:
                called.append(kc[0])
            R.check(any(x.get('kind') == 'BreakStmt' for x in arms[r]), '%s:%d' % (W, cast.line_of(arms[r][0])), 'arm for %d rows falls through into the next arm' % r, key='%s|%s|arm%d-fallthrough' % (rid, name, r))
        for l, stmts in arms.items():
            if l in (0, 'default'):
                R.check(not cast.find_all({'kind': 'X', 'inner': stmts}, 'CallExpr'), '%s:%d' % (W, cast.line_of(stmts[0])), 'arm %s must do nothing' % l, key='%s|%s|arm0' % (rid, name))
            elif not (isinstance(l, int) and 1 <= l <= maxrem):
                R.fail('%s:%d' % (W, cast.line_of(stmts[0])), 'unexpected switch arm %s (rows is <= %d after the loop)' % (l, maxrem), key='%s|%s|arm-extra' % (rid, name))
        # (iv) hand-off length
        V = None
        if ifs:
            c = cast.strip(ifs[0]['inner'][0])
            if c.get('kind') == 'BinaryOperator' and c.get('opcode') == '<':
                l, r = cast.poly(c['inner'][0]), cast.poly(c['inner'][1])
                if l == {('len',): 1} and r and list(r) == [()]:
                    V = r[()]
            then_calls = [cast.callee_name(x) for x in cast.find_all(ifs[0]['inner'][1], 'CallExpr')]
            base = 'ec_encode_data_base' if kind == 'encode' else 'ec_encode_data_update_base'
            has_ret = bool(cast.find_all(ifs[0]['inner'][1], 'ReturnStmt'))
            if V is None or then_calls != [base] or not has_ret:
                raise AnalysisBroken('%s: leading if-statement is not the "len < V -> %s; return" hand-off idiom' % (W, base))
        for kn in called:
            mn, guards, kunit = kernel_min_len(kn)
            if V is None:
                RH.check(mn == 0, W, 'wrapper has no short-length fallback but %s (%s) rejects len < %d' % (kn, kunit, mn), key='R-HANDOFF-LEN|%s|%s' % (name, kn),
                         sample='%s: no fallback, %s accepts every len' % (name, kn) if kn.startswith('gf_6') else None)
            else:
                RH.check(V >= mn, W, 'falls back to portable code only for len < %d, but %s (%s) rejects len < %d: lengths in between are silently not encoded' % (V, kn, kunit, mn),
                         key='R-HANDOFF-LEN|%s|%s' % (name, kn), sample='%s: len<%d -> base; %s needs len>=%d' % (name, V, kn, mn) if kn.startswith('gf_6') else None)
    return wrappers
