"""Light-weight reader of textual LLVM IR (clang 14, typed pointers): functions, their
bodies, referenced symbols, attribute groups, global definitions."""
import re


class IRFunc:
    __slots__ = ('name', 'internal', 'params', 'body', 'attrs', 'refs', 'unit', 'header', 'line')


class IRModule:
    def __init__(self, path, unit=None):
        self.path = path
        self.unit = unit
        txt = open(path).read()
        self.text = txt
        self.funcs = {}
        self.decls = set()
        self.attrgroups = {}
        self.globals = {}
        for m in re.finditer(r'^attributes #(\d+) = \{(.*)\}$', txt, re.M):
            self.attrgroups[m.group(1)] = m.group(2)
        for m in re.finditer(r'^declare [^\n]*?@([\w.$]+)\(', txt, re.M):
            self.decls.add(m.group(1))
        for m in re.finditer(r'^@([\w.$]+) = ([^\n]*)$', txt, re.M):
            self.globals[m.group(1)] = m.group(2)
        for m in re.finditer(r'^define ([^\n]*?)@([\w.$]+)\(([^\n]*)\)([^\n]*)\{\n(.*?)^\}', txt, re.M | re.S):
            f = IRFunc()
            f.header = m.group(1)
            f.name = m.group(2)
            f.internal = 'internal' in m.group(1).split() or 'private' in m.group(1).split()
            f.params = m.group(3)
            tail = m.group(4)
            am = re.search(r'#(\d+)', tail)
            f.attrs = self.attrgroups.get(am.group(1), '') if am else ''
            f.body = m.group(5)
            f.refs = set(re.findall(r'@([\w.$]+)', f.body))
            f.unit = unit
            self.funcs[f.name] = f

    def target_features(self, f):
        m = re.search(r'"target-features"="([^"]*)"', f.attrs)
        return set(x for x in m.group(1).split(',') if x) if m else set()
