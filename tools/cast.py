"""CAST: syntax-level lints over clang's JSON AST (type-checked, callee-resolved)."""
import json, os
from common import REPO, run, AnalysisBroken
import srcset, cbuild

_memo = {}


def function_asts(unit, filt, config='default', extra=()):
    """{function name: FunctionDecl node with a body} for every definition whose name contains `filt`"""
    key = (unit, filt, config, tuple(extra))
    if key in _memo:
        return _memo[key]
    ss = srcset.get()
    cmd = ['clang', '-fsyntax-only', '-w'] + ss.c_flags(srcset.CONFIGS[config]['c']) + list(extra) + \
          ['-Xclang', '-ast-dump=json', '-Xclang', '-ast-dump-filter=' + filt, os.path.join(REPO, unit)]
    out = run(cmd).stdout
    dec = json.JSONDecoder()
    res = {}
    i = 0
    n = len(out)
    while i < n:
        j = out.find('{', i)
        if j < 0:
            break
        try:
            obj, end = dec.raw_decode(out, j)
        except ValueError:
            raise AnalysisBroken('cannot parse clang AST output for %s' % unit)
        i = end
        if obj.get('kind') == 'FunctionDecl' and any(c.get('kind') == 'CompoundStmt' for c in obj.get('inner', [])):
            _annotate_lines(obj, [None])
            res[obj['name']] = obj
    _memo[key] = res
    return res


def _annotate_lines(node, last):
    # clang omits "line" when it equals the previously printed one: propagate in document order
    for key in ('loc',):
        l = node.get(key, {})
        if isinstance(l, dict) and l.get('line'):
            last[0] = l['line']
    r = node.get('range', {}).get('begin', {})
    if r.get('line'):
        last[0] = r['line']
    node['_line'] = last[0]
    for c in node.get('inner', []) or []:
        if isinstance(c, dict):
            _annotate_lines(c, last)
    e = node.get('range', {}).get('end', {})
    if e.get('line'):
        last[0] = e['line']


def body(fn):
    for c in fn.get('inner', []):
        if c.get('kind') == 'CompoundStmt':
            return c
    return None


def params(fn):
    return [c['name'] for c in fn.get('inner', []) if c.get('kind') == 'ParmVarDecl']


def walk(node):
    yield node
    for c in node.get('inner', []) or []:
        if isinstance(c, dict):
            yield from walk(c)


def strip(e):
    """strip implicit casts / parens"""
    while e.get('kind') in ('ImplicitCastExpr', 'ParenExpr', 'CStyleCastExpr', 'ConstantExpr') and e.get('inner'):
        e = e['inner'][0]
    return e


def callee_name(call):
    c = strip(call['inner'][0])
    if c.get('kind') == 'DeclRefExpr':
        return c['referencedDecl']['name']
    return None


def call_args(call):
    return call['inner'][1:]


def line_of(node):
    return node.get('_line') or 0


def poly(e):
    """integer expression -> {monomial(tuple of sorted var names): coefficient}; None if not polynomial"""
    e = strip(e)
    k = e.get('kind')
    if k == 'IntegerLiteral':
        return {(): int(e['value'])}
    if k == 'DeclRefExpr':
        return {(e['referencedDecl']['name'],): 1}
    if k == 'UnaryOperator' and e.get('opcode') == '-':
        p = poly(e['inner'][0])
        return None if p is None else {m: -c for m, c in p.items()}
    if k == 'UnaryOperator' and e.get('opcode') == '*':
        p = strip(e['inner'][0])
        if p.get('kind') == 'DeclRefExpr':
            return {('*' + p['referencedDecl']['name'],): 1}
        return None
    if k == 'UnaryExprOrTypeTraitExpr':
        return None
    if k == 'BinaryOperator':
        a, b = poly(e['inner'][0]), poly(e['inner'][1])
        if a is None or b is None:
            return None
        op = e['opcode']
        if op in ('+', '-'):
            out = dict(a)
            for m, c in b.items():
                out[m] = out.get(m, 0) + (c if op == '+' else -c)
            return {m: c for m, c in out.items() if c}
        if op == '*':
            out = {}
            for m1, c1 in a.items():
                for m2, c2 in b.items():
                    m = tuple(sorted(m1 + m2))
                    out[m] = out.get(m, 0) + c1 * c2
            return {m: c for m, c in out.items() if c}
    return None


def find_all(node, kind):
    return [n for n in walk(node) if n.get('kind') == kind]
