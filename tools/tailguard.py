"""R-TAIL-GUARD / R-TAIL-REENTRY: the end of a kernel's walk.  Whole-function linear forms (tools/asmlin.py with lockstep classes, so that a length
register counted down while the cursor is counted up stays related to it) give, at every conditional branch after the first buffer access, the
decision quantity D = op0 - op1 of the compare it depends on.  A branch with one QUIET edge (no further access to the buffers before a return
that is not a failure return) and one LOUD edge (more accesses follow) decides whether the walk is over; with R = len@entry - cursor (bytes not yet
walked; the cursor is an induction register that indexes buffer accesses) the quiet condition has to imply R <= 0.  Where the loud edge re-enters
a loop from behind it (the overlapped last vector), the cursor it re-enters with has to be len@entry - stride."""
import re, collections
from asmdb import is_cond_jump, is_mem, parse_mem, REG64
from common import AnalysisBroken
from provenance import writes_flags
import asmlin, provenance
from earlypass import LEN_ARG

NEG = {'je': 'jne', 'jne': 'je', 'jl': 'jge', 'jge': 'jl', 'jle': 'jg', 'jg': 'jle', 'jb': 'jae', 'jae': 'jb', 'jbe': 'ja', 'ja': 'jbe'}
ALIAS = {'jz': 'je', 'jnz': 'jne', 'jnae': 'jb', 'jc': 'jb', 'jnb': 'jae', 'jnc': 'jae', 'jna': 'jbe', 'jnbe': 'ja', 'jnge': 'jl', 'jnl': 'jge', 'jng': 'jle', 'jnle': 'jg'}


def implied_upper(cond, s, c):
    """D = s*R + c with s = +-1; the branch condition cond holds of D (compared with 0).  Largest R the condition admits, or None when unbounded."""
    if s == 1:      # R = D - c
        return {'je': -c, 'jle': -c, 'jbe': -c, 'jl': -c - 1, 'jb': -c - 1}.get(cond)
    # R = c - D
    return {'je': c, 'jge': c, 'jae': c, 'jg': c - 1, 'ja': c - 1}.get(cond)


def analyse(sym, info):
    u, f = info['unit'], info['func']
    lenreg = LEN_ARG[info['fam']['family']]
    accs = [x for x in info['accesses'] if not (x.addr[0] == 'P' and (x.addr[1] == 'STACK' or str(x.addr[1]).startswith('GLOBAL')))]
    arg_acc = {x.insn.addr for x in accs}
    if not arg_acc:
        return None
    L = asmlin.Lin(u, f)
    L.auto_pairs = True
    L.run()
    # registers that index buffer accesses
    idx = set()
    for x in accs:
        for o in x.insn.ops:
            m = parse_mem(o) if is_mem(o) else None
            if m:
                for r in (m['index'], m['base']):
                    if r and r in REG64:
                        idx.add(REG64[r][0])
    rets = {}
    for i, st in L.rets:
        v = st['r'].get('rax', {'rax@entry': 1})
        rets[i.addr] = v.get(1, 0) if set(v) <= {1} else None

    def classify(start):
        """-> (reaches an access, reaches a non-failing return without an access)"""
        seen, work, loud, ok_ret = set(), [start], False, False
        while work:
            b = work.pop()
            if b in seen:
                continue
            seen.add(b)
            if b in arg_acc:
                loud = True
                continue
            if b in rets:
                if rets[b] is None or rets[b] == 0:
                    ok_ret = True
                continue
            work += u.succ(f, b)
        return loud, ok_ret
    # region reachable from an access
    post, work = set(), [s_ for a in arg_acc for s_ in u.succ(f, a)]
    while work:
        b = work.pop()
        if b in post:
            continue
        post.add(b)
        work += u.succ(f, b)
    order = {a: n for n, a in enumerate(f.addrs)}
    sites = []
    for a in f.addrs:
        i = u.insns[a]
        if a not in post or not is_cond_jump(i.mn) or i.target is None or i.target not in f.aset or i.end not in f.aset:
            continue
        (lt, qt), (lf, qf) = classify(i.target), classify(i.end)
        if qt and not lt and lf:
            quiet_taken = True
        elif qf and not lf and lt:
            quiet_taken = False
        else:
            continue
        prod = None
        for b in reversed(f.addrs[max(0, order[a] - 40):order[a]]):
            j = u.insns[b]
            if j.end != f.addrs[order[b] + 1]:
                break
            if j.mn in ('cmp', 'sub', 'test', 'and', 'or', 'add', 'dec'):
                prod = j
                break
            if writes_flags(j):
                break
        cond = ALIAS.get(i.mn, i.mn)
        if not quiet_taken:
            cond = NEG.get(cond)
        site = dict(insn=i, prod=prod, cond=cond, kind='unknown', quiet_taken=quiet_taken)
        sites.append(site)
        st = L.IN.get(prod.addr) if prod is not None else None
        if st is None or cond is None:
            continue
        S = {'r': dict(st['r']), 'm': dict(st['m'])}
        ops = prod.ops
        if prod.mn == 'test' and len(ops) == 2 and re.match(r'^(0x[0-9a-f]+|\d+)$', ops[1]) and bin(int(ops[1], 0)).count('1') == 1:
            site['kind'] = 'bit'          # one bit of a count: a step of a binary decomposition, not a comparison with the end
            continue
        if prod.mn in ('test', 'or', 'and') and len(ops) == 2 and ops[0] == ops[1]:
            D = L.val(S, ops[0], prod)
        elif prod.mn in ('cmp', 'sub') and len(ops) == 2:
            D = asmlin.add(L.val(S, ops[0], prod), L.val(S, ops[1], prod), -1)
        else:
            continue
        if any(isinstance(k, tuple) and k[0] in ('v', 'M') for k in D) or (REG64.get(ops[0]) and REG64[ops[0]][1] < 32):
            site['kind'] = 'data'         # decided by loaded data (a comparison result), not by the position
            continue
        site['D'] = D
        if any(isinstance(k, tuple) and k[0] == 'J' and k[2] == lenreg for k in D):
            site['kind'] = 'lenjoin'        # the bound itself differs between the paths that reach this guard
        for r in sorted(idx):
            fr = L.reg(S, r)
            if not any(isinstance(k, tuple) and k[0] == 'J' for k in fr):
                continue
            R = asmlin.add({lenreg + '@entry': 1}, fr, -1)
            for s in (1, -1):
                rest = asmlin.add(D, R, -s)
                if set(rest) <= {1}:
                    site.update(kind='guard', cursor=r, s=s, c=rest.get(1, 0), upper=implied_upper(cond, s, rest.get(1, 0)))
                    break
            if site['kind'] == 'guard':
                break
    # re-entries: a jmp from behind a loop to its head
    heads = {}
    for a in f.addrs:
        i = u.insns[a]
        if is_cond_jump(i.mn) and i.target is not None and i.target <= a and i.target in f.aset:
            heads[i.target] = max(heads.get(i.target, a), a)
    reent = []
    for a in f.addrs:
        i = u.insns[a]
        if i.mn != 'jmp' or i.target is None or a not in L.IN:
            continue
        # innermost loop [h, b] that the jump enters from behind (at its head or, for kernels that keep part of the state across the extra pass, in its middle)
        encl = [(b_ - h_, h_, b_) for h_, b_ in heads.items() if h_ <= i.target <= b_ and a > b_]
        if not encl:
            continue
        _, h, b = min(encl)
        stb = L.IN.get(b)
        if stb is None:
            continue
        # induction registers of the loop and their strides
        strides = {}
        for r, form in stb['r'].items():
            js = [k for k in form if isinstance(k, tuple) and k[0] == 'J' and k[1] in (h, i.target) and k[2] == r]
            if len(js) == 1 and form[js[0]] == 1 and set(form) <= {js[0], 1} and form.get(1, 0):
                strides[r] = form[1]
        S = {'r': dict(L.IN[a]['r']), 'm': dict(L.IN[a]['m'])}
        for r in sorted(set(strides) & idx):
            fr = L.reg(S, r)
            rest = asmlin.add(asmlin.add(fr, {1: strides[r]}), {lenreg + '@entry': 1}, -1)
            reent.append(dict(insn=i, head=h, reg=r, stride=strides[r], form=fr, ok=not rest, rest=rest))
    return dict(sites=sites, reent=reent)


def check(rep, suffix, families, floor_guard, floor_reent, not_decided=()):
    R = rep.rule('R-TAIL-GUARD-' + suffix, 'at every conditional branch behind the first buffer access that has a quiet edge (no further buffer access before a return other than a failure return) and a loud edge (more accesses '
                 'follow), the condition of the quiet edge - read off the compare it depends on, D = op0 - op1 in whole-function linear forms with lockstep classes - implies len@entry - cursor <= 0 for the cursor register '
                 'that indexes the buffers: the kernel never stops while bytes remain.  Branches decided by loaded data or by one bit of a count (binary decomposition of a tail) are not length guards and are counted apart',
                 floor=floor_guard, unit='tail guards')
    Q = None if floor_reent is None else rep.rule('R-TAIL-REENTRY-' + suffix, 'a jmp from behind a loop back into it (the overlapped last vector) enters with the cursor at len@entry - stride, so that the extra pass ends exactly at the end of the buffers',
                 floor=floor_reent, unit='re-entries')
    res, _ = provenance.analyse('default')
    nk, other = 0, collections.Counter()
    for sym, info in sorted(res.items()):
        if info['fam']['family'] not in families:
            continue
        r = analyse(sym, info)
        if r is None:
            continue
        nk += 1
        u, f = info['unit'], info['func']
        for s_ in r['sites']:
            i = s_['insn']
            w = '%s: %s' % (u.name, u.where(i, f))
            if s_['kind'] in ('bit', 'data'):
                other[s_['kind']] += 1
                continue
            if s_['kind'] == 'lenjoin':
                R.instance()
                R.check(False, w, '%s decides here whether the walk is over by comparing against the length register, but that register does not hold one value on all paths into this branch (%s: it was changed '
                        'on one way in and not on another): on one of them the walk stops although bytes remain, or runs on past the end' % (sym, asmlin.fmt(s_['D'])), key='R-TAIL-GUARD|%s|%#x' % (sym, i.addr - f.entry))
                continue
            if s_['kind'] == 'unknown':
                if sym in not_decided:
                    other['not decided (%s)' % sym] += 1
                    continue
                raise AnalysisBroken('R-TAIL-GUARD-%s: %s: the branch at %s ends the walk on one side but the quantity it tests (%s %s) is not len@entry - cursor plus a constant for any cursor register' %
                                     (suffix, sym, w, s_['prod'].mn if s_['prod'] else '?', ' '.join(s_['prod'].ops) if s_['prod'] else ''))
            R.instance()
            up = s_['upper']
            R.check(up is not None and up <= 0, w, '%s stops walking here (%s edge of %s after "%s %s") although up to %s bytes remain: the condition is %s on D = %s(len - %s) %+d' %
                    (sym, 'taken' if s_['quiet_taken'] else 'fall-through', i.mn, s_['prod'].mn, ', '.join(s_['prod'].ops), 'any number of' if up is None else up, s_['cond'], '' if s_['s'] == 1 else '-', s_['cursor'], s_['c']),
                    key='R-TAIL-GUARD|%s|%#x' % (sym, i.addr - f.entry), sample='%s: stops only when len - %s <= %s' % (sym, s_['cursor'], up) if sym.endswith(('_sse', '512_gfni')) and '2vect' in sym else None)
        for e in (r['reent'] if Q is not None else ()):
            Q.instance()
            i = e['insn']
            Q.check(e['ok'], '%s: %s' % (u.name, u.where(i, f)), '%s re-enters the loop at +%#x with %s = %s; with a stride of %d the extra pass ends at len@entry %s instead of at the end of the buffers' %
                    (sym, e['head'] - f.entry, e['reg'], asmlin.fmt(e['form']), e['stride'], asmlin.fmt(e['rest'])), key='R-TAIL-REENTRY|%s|%#x' % (sym, i.addr - f.entry),
                    sample='%s: re-enters with %s = len - %d' % (sym, e['reg'], e['stride']) if sym.endswith('_sse') and '2vect' in sym else None)
    if nk == 0:
        raise AnalysisBroken('R-TAIL-GUARD-%s: no kernel' % suffix)
    R.notes.append('%d kernels; branches that are not length guards: %s' % (nk, dict(other)))
