"""Interval abstract interpretation of a loop-free LLIR function.  Memory cells are keyed by
provenance atoms (('param', k, off)); a comparison of a value just loaded from a cell refines
that cell on each branch edge.  Unsigned machine integers; every transfer is sound (over-
approximates) or returns the full range of the type."""
import re
from common import AnalysisBroken
import irrules

FULL = None


def width(ty):
    m = re.match(r'^i(\d+)$', ty or '')
    return int(m.group(1)) if m else 64


def full(w):
    return (0, (1 << w) - 1)


def join(a, b):
    if a is None or b is None:
        return None
    return (min(a[0], b[0]), max(a[1], b[1]))


class Interp:
    def __init__(self, mod, f, init_cells=None):
        self.mod = mod
        self.f = f
        self.P = irrules.prov(mod, f)
        self.init_cells = dict(init_cells or {})
        self.out_cells = {}
        self.values = {}       # ssa name -> interval at its definition (joined over paths)
        self.origin = {}       # ssa name -> cell it was loaded from (for refinement)

    def cell_of(self, ptr):
        at = self.P.atoms(ptr)
        if len(at) == 1:
            a = list(at)[0]
            if a[0] in ('param', 'alloca') and a[2] is not None:
                return a
        return None

    def run(self):
        f = self.f
        # topological order; a back edge means a loop -> not supported
        order = []
        indeg = {b: len(f.blocks[b].preds) for b in f.order}
        ready = [b for b in f.order if indeg[b] == 0]
        while ready:
            b = ready.pop(0)
            order.append(b)
            for s in f.blocks[b].succs:
                indeg[s] -= 1
                if indeg[s] == 0:
                    ready.append(s)
        if len(order) != len(f.order):
            raise AnalysisBroken('intervals: %s contains a loop' % f.name)
        edge_state = {}
        ret_states = []
        for b in order:
            preds = f.blocks[b].preds
            if not preds:
                st = dict(self.init_cells)
                env = {}
            else:
                st = None
                env = None
                for p in preds:
                    es = edge_state.get((p, b))
                    if es is None:
                        continue
                    s2, e2 = es
                    if st is None:
                        st, env = dict(s2), dict(e2)
                    else:
                        for k in set(st) | set(s2):
                            st[k] = join(st.get(k, 'absent'), s2.get(k, 'absent')) if ('absent' not in (st.get(k, 'absent'), s2.get(k, 'absent'))) else None
                        for k in set(env) | set(e2):
                            if k in env and k in e2:
                                env[k] = join(env[k], e2[k])
                            else:
                                env[k] = env.get(k, e2.get(k))
                if st is None:
                    continue      # unreachable block
            blk = f.blocks[b]
            for i in blk.insns:
                self.step(i, st, env, b, edge_state)
            t = blk.insns[-1]
            if t.op == 'ret':
                ret_states.append(dict(st))
            elif t.op == 'br' and not t.extra.get('cond'):
                edge_state[(b, t.extra['targets'][0])] = (dict(st), dict(env))
            elif t.op == 'br':
                self.branch(t, st, env, b, edge_state)
            elif t.op == 'switch':
                for s in blk.succs:
                    edge_state[(b, s)] = (dict(st), dict(env))
        # join of all return states
        res = None
        for s in ret_states:
            if res is None:
                res = dict(s)
            else:
                for k in set(res) | set(s):
                    res[k] = join(res.get(k), s.get(k)) if (k in res and k in s) else None
        self.out_cells = res or {}
        return self.out_cells

    def val(self, v, env, ty=None):
        if re.match(r'^-?\d+$', v):
            n = int(v)
            w = width(ty)
            n &= (1 << w) - 1
            return (n, n)
        if v in ('true',):
            return (1, 1)
        if v in ('false', 'null', 'zeroinitializer'):
            return (0, 0)
        return env.get(v)

    def step(self, i, st, env, b, edge_state):
        op = i.op
        if op == 'load':
            c = self.cell_of(i.ops[0])
            w = width(i.ty)
            if c is not None and st.get(c) is not None:
                env[i.dst] = st[c]
            else:
                env[i.dst] = full(w) if re.match(r'^i\d+$', i.ty or '') else None
            self.origin[i.dst] = c
        elif op == 'store':
            c = self.cell_of(i.ops[1])
            v = self.val(i.ops[0], env, i.ty)
            if c is not None:
                st[c] = v if v is not None else (full(width(i.ty)) if re.match(r'^i\d+$', i.ty or '') else None)
                # a store invalidates the refinement link of earlier loads
                for k, o in list(self.origin.items()):
                    if o == c:
                        self.origin[k] = None
            else:
                # store through an unknown pointer: forget every param cell that could alias
                for k in list(st):
                    if k[0] == 'param':
                        st[k] = None
        elif op in ('zext', 'sext', 'trunc', 'bitcast', 'freeze'):
            a = self.val(i.ops[0], env, i.extra.get('fromty'))
            w = width(i.ty)
            if a is None:
                env[i.dst] = full(w) if re.match(r'^i\d+$', i.ty or '') else None
            elif op == 'zext' or op in ('bitcast', 'freeze'):
                env[i.dst] = a
                self.origin[i.dst] = self.origin.get(i.ops[0])
            elif op == 'trunc':
                env[i.dst] = a if a[1] < (1 << w) else full(w)
                if a[1] < (1 << w):
                    self.origin[i.dst] = self.origin.get(i.ops[0])
            else:
                fw = width(i.extra.get('fromty'))
                env[i.dst] = a if a[1] < (1 << (fw - 1)) else full(w)
                if a[1] < (1 << (fw - 1)):
                    self.origin[i.dst] = self.origin.get(i.ops[0])
        elif op in ('add', 'sub', 'shl', 'and', 'or', 'mul', 'lshr', 'xor', 'urem', 'udiv'):
            w = width(i.ty)
            a = self.val(i.ops[0], env, i.ty)
            c = self.val(i.ops[1], env, i.ty)
            r = full(w)
            if a is not None and c is not None:
                M = (1 << w) - 1
                if a[0] == a[1] and c[0] == c[1] and not (op in ('urem', 'udiv') and c[0] == 0) and not (op in ('shl', 'lshr') and c[0] >= w):
                    x, y = a[0], c[0]
                    v = {'add': x + y, 'sub': x - y, 'shl': x << y, 'and': x & y, 'or': x | y, 'mul': x * y, 'lshr': x >> y, 'xor': x ^ y,
                         'urem': x % y if y else 0, 'udiv': x // y if y else 0}[op] & M
                    r = (v, v)
                elif op == 'add' and a[1] + c[1] <= M:
                    r = (a[0] + c[0], a[1] + c[1])
                elif op == 'sub' and a[0] >= c[1]:
                    r = (a[0] - c[1], a[1] - c[0])
                elif op == 'add' and c[0] == c[1] and c[0] > M // 2 and a[0] >= (M + 1 - c[0]):
                    k = M + 1 - c[0]          # adding a negative constant
                    r = (a[0] - k, a[1] - k)
                elif op == 'shl' and a[0] == a[1] and c[1] < w and (a[0] << c[1]) <= M:
                    r = (a[0] << c[0], a[0] << c[1])
                elif op == 'shl' and c[0] == c[1] and c[0] < w and (a[1] << c[0]) <= M:
                    r = (a[0] << c[0], a[1] << c[0])
                elif op == 'and':
                    r = (0, min(a[1], c[1]))
                elif op == 'or' and c[0] == c[1] == 0:
                    r = a
                elif op == 'or':
                    hi = (1 << max(a[1].bit_length(), c[1].bit_length())) - 1
                    r = (max(a[0], c[0]), min(hi, M))
                elif op == 'mul' and a[1] * c[1] <= M:
                    r = (a[0] * c[0], a[1] * c[1])
                elif op == 'lshr' and c[0] == c[1]:
                    r = (a[0] >> c[0], a[1] >> c[0])
                elif op == 'urem' and c[0] == c[1] and c[0] > 0:
                    r = (0, min(a[1], c[0] - 1))
                elif op == 'udiv' and c[0] == c[1] and c[0] > 0:
                    r = (a[0] // c[0], a[1] // c[0])
            env[i.dst] = r
        elif op == 'phi':
            r = 'none'
            for v, pb in i.extra['incoming']:
                es = edge_state.get((pb, b))
                if es is None:
                    continue
                x = self.val(v, es[1], i.ty)
                r = x if r == 'none' else join(r, x)
            env[i.dst] = None if r == 'none' else r
        elif op == 'select':
            a = self.val(i.ops[1], env, i.ty)
            c = self.val(i.ops[2], env, i.ty)
            env[i.dst] = join(a, c)
        elif op == 'icmp':
            env[i.dst] = (0, 1)
        elif op == 'call':
            if i.dst:
                env[i.dst] = None
            # a call may write through pointer arguments: forget all parameter cells unless it is a known reader
            if i.callee not in irrules.READONLY_EXT and not i.callee.startswith('llvm.dbg'):
                for k in list(st):
                    st[k] = None
        elif i.dst:
            env[i.dst] = None
        if i.dst and i.dst in env:
            self.values[i.dst] = join(self.values[i.dst], env[i.dst]) if i.dst in self.values else env[i.dst]

    def branch(self, t, st, env, b, edge_state):
        f = self.f
        tt, tf = t.extra['targets']
        c = f.defs.get(t.extra['cond'])
        st_t, st_f = dict(st), dict(st)
        env_t, env_f = dict(env), dict(env)
        if c is not None and c.op == 'icmp':
            a, k = c.ops
            kv = self.val(k, env, c.ty)
            av = self.val(a, env, c.ty)
            if kv is not None and kv[0] == kv[1] and av is not None:
                n = kv[0]
                pred = c.extra['pred']
                w = width(c.ty)
                M = (1 << w) - 1

                def clip(lo, hi):
                    lo2, hi2 = max(av[0], lo), min(av[1], hi)
                    return (lo2, hi2) if lo2 <= hi2 else 'empty'
                signed_ok = av[1] <= M // 2 and n <= M // 2
                rt = rf = av
                if pred == 'eq':
                    rt = clip(n, n)
                    rf = (av[0] + 1, av[1]) if av[0] == n else (av[0], av[1] - 1) if av[1] == n else av
                    if av[0] == av[1] == n:
                        rf = 'empty'
                elif pred == 'ne':
                    rf = clip(n, n)
                    rt = (av[0] + 1, av[1]) if av[0] == n else (av[0], av[1] - 1) if av[1] == n else av
                    if av[0] == av[1] == n:
                        rt = 'empty'
                elif pred == 'ugt' or (pred == 'sgt' and signed_ok):
                    rt, rf = clip(n + 1, M), clip(0, n)
                elif pred == 'uge' or (pred == 'sge' and signed_ok):
                    rt, rf = clip(n, M), clip(0, n - 1) if n > 0 else 'empty'
                elif pred == 'ult' or (pred == 'slt' and signed_ok):
                    rt, rf = (clip(0, n - 1) if n > 0 else 'empty'), clip(n, M)
                elif pred == 'ule' or (pred == 'sle' and signed_ok):
                    rt, rf = clip(0, n), clip(n + 1, M)
                cell = self.origin.get(a)
                for r, s_, e_, tgt in ((rt, st_t, env_t, tt), (rf, st_f, env_f, tf)):
                    if r == 'empty':
                        continue
                    e_[a] = r
                    if cell is not None and s_.get(cell) is not None:
                        s_[cell] = r
                    edge_state[(b, tgt)] = (s_, e_) if (b, tgt) not in edge_state else edge_state[(b, tgt)]
                return
        edge_state[(b, tt)] = (st_t, env_t)
        edge_state[(b, tf)] = (st_f, env_f)
