"""R-EARLY-PASS: a kernel may return success without touching its buffers only when there is nothing to do.  Every conditional branch whose taken (or fall-through) edge
leads to success returns only (rax = 0) without passing any access through an argument-derived pointer is an early exit; the set of length values N for which it is
taken - read off the compare it depends on, with the length register's affine value from ASMFLOW - must be {0}."""
import re
from common import AnalysisBroken
import provenance, kernels
from asmflow import Flow, TOP
from provenance import writes_flags


# the SysV register carrying the byte length, per kernel family (prototypes in include/erasure_code.h, raid.h, mem_routines.h); only families whose
# return value is a status (0 = success / all zero) are listed
LEN_ARG = {'ec_dot_prod': 'rdi', 'ec_mad': 'rdi', 'ec_mul': 'rdi', 'raid_pq_gen': 'rsi', 'raid_xor_gen': 'rsi', 'raid_pq_check': 'rsi', 'raid_xor_check': 'rsi', 'mem_zero': 'rsi'}


def early_exits(sym, info):
    u, f, k = info['unit'], info['func'], info['fam']
    count_reg = LEN_ARG.get(k['family'])
    if not count_reg:
        return None
    fl = Flow(u, f, dict(k['args']), k['loadrule'], count_reg)
    acc = fl.run()
    arg_acc = {x.insn.addr for x in acc if not (x.addr[0] == 'P' and (x.addr[1] == 'STACK' or (isinstance(x.addr[1], str) and x.addr[1].startswith('GLOBAL'))))}
    rets = {a: (fl.IN[a]['rax'] if a in fl.IN else TOP) for a in f.addrs if u.insns[a].mn == 'ret'}

    def only_pass(start):
        seen, work, any_ret = set(), [start], False
        while work:
            b = work.pop()
            if b in seen:
                continue
            seen.add(b)
            if b in arg_acc:
                return False
            if b in rets:
                v = rets[b]
                if not (v[0] == 'AFF' and v[2] == 0 and v[1] == 0):
                    return False
                any_ret = True
                continue
            work += u.succ(f, b)
        return any_ret
    # region before the first access
    pre, work = set(), [f.entry]
    while work:
        b = work.pop()
        if b in pre or b in arg_acc:
            continue
        pre.add(b)
        work += u.succ(f, b)
    order = {a: n for n, a in enumerate(f.addrs)}
    out = []
    for a in sorted(pre):
        i = u.insns[a]
        mn = i.mn
        if not (mn.startswith('j') and mn != 'jmp') or i.target is None:
            continue
        edges = [(i.target, True), (i.end, False)]
        for tgt, taken in edges:
            if tgt not in f.aset or not only_pass(tgt):
                continue
            other = i.end if taken else i.target
            if other in f.aset and only_pass(other):
                continue          # both ways lead to success without work: not a decision about the length
            # producer of the flags
            idx = order[a]
            prod = None
            for b in reversed(f.addrs[max(0, idx - 6):idx]):
                j = u.insns[b]
                if j.end != f.addrs[order[b] + 1]:
                    break
                if j.mn in ('cmp', 'sub', 'test', 'and', 'or', 'add', 'dec'):
                    prod = j
                    break
                if writes_flags(j):
                    break
            desc, ok = 'a condition that is not a comparison of the length with a constant', False
            if prod is not None and len(prod.ops) == 2:
                st = fl.IN.get(prod.addr)
                v = fl.rd(st, prod.ops[0]) if st is not None else TOP
                imm = None
                if re.match(r'^(0x[0-9a-f]+|-?\d+)$', prod.ops[1]):
                    imm = int(prod.ops[1], 0)
                elif prod.mn in ('test', 'or', 'and') and prod.ops[0] == prod.ops[1]:
                    imm = 0
                if v[0] == 'AFF' and v[2] == 1 and imm is not None:
                    c = v[1]
                    cond = mn if taken else {'je': 'jne', 'jz': 'jne', 'jne': 'je', 'jnz': 'je', 'jl': 'jge', 'jb': 'jae', 'jle': 'jg', 'jbe': 'ja', 'jge': 'jl', 'jae': 'jb', 'jg': 'jle', 'ja': 'jbe',
                                              'jnae': 'jae', 'jnb': 'jb', 'jc': 'jae', 'jnc': 'jb', 'jng': 'jg', 'jnge': 'jge', 'jnl': 'jl', 'jnle': 'jle', 'jna': 'ja', 'jnbe': 'jbe'}.get(mn)
                    if prod.mn in ('cmp', 'sub'):
                        thr = imm - c          # flags of N - thr
                    elif prod.mn in ('test', 'or', 'and') and imm == 0 and prod.ops[0] == prod.ops[1]:
                        thr = -c
                    else:
                        thr = None
                    if thr is not None and cond is not None:
                        if cond in ('je', 'jz'):
                            desc, ok = 'N == %d' % thr, thr == 0
                        elif cond in ('jl', 'jb', 'jnae', 'jnge', 'jc'):
                            desc, ok = 'N < %d' % thr, thr <= 1
                        elif cond in ('jle', 'jbe', 'jna', 'jng'):
                            desc, ok = 'N <= %d' % thr, thr <= 0
                        else:
                            desc, ok = 'N %s %d' % (cond, thr), False
            out.append((i, desc, ok))
    return out


def check(rep, suffix, families, floor):
    R = rep.rule('R-EARLY-PASS-' + suffix, 'every branch taken before the first buffer access whose outcome leads only to success returns (rax = 0) without any access through the arguments is taken for no length other than 0 '
                 '(set of lengths read off the compare it depends on; N = the length argument, affine value from ASMFLOW): no kernel reports success for a non-empty buffer it never looked at', floor=floor, unit='early exits')
    res, _ = provenance.analyse('default')
    nk = 0
    for sym, info in sorted(res.items()):
        if info['fam']['family'] not in families:
            continue
        ex = early_exits(sym, info)
        if ex is None:
            continue
        nk += 1
        u, f = info['unit'], info['func']
        for i, desc, ok in ex:
            R.instance()
            R.check(ok, '%s: %s' % (u.name, u.where(i, f)), '%s returns success without touching its buffers when %s: for such a length the output is left unwritten / the data unchecked' % (sym, desc),
                    key='R-EARLY-PASS|%s|%#x' % (sym, i.addr - f.entry), sample='%s: early success only for %s' % (sym, desc) if ok else None)
    if nk == 0:
        raise AnalysisBroken('R-EARLY-PASS-%s: no kernel' % suffix)
    R.notes.append('%d kernels examined' % nk)
