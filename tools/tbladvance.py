"""L-TBL-ADVANCE: in the loops of the EC / mad kernels that walk over the sources, every load from the coefficient tables must use an
address that advances with the source index (otherwise every source is multiplied by the coefficient of the first one).  Whole-function
linear-form dataflow (tools/asmlin.py): the address form of the load must contain a join atom created inside the loop."""
import re
from asmdb import is_cond_jump, is_mem
from common import AnalysisBroken
import asmlin, provenance


def check(rep, suffix, families, floor):
    R = rep.rule('L-TBL-ADVANCE-' + suffix, 'source-walking loops of the dot-product kernels: the address of every coefficient-table load inside the loop changes from one source to the next (its linear form contains a value '
                 'joined at a point inside the loop); a loop-invariant table address would apply the first source\'s coefficient to every source', floor=floor, unit='table loads in source loops')
    res, _ = provenance.analyse('default')
    nk = 0
    for sym, info in sorted(res.items()):
        if info['fam']['family'] not in families:
            continue
        u, f = info['unit'], info['func']
        acc = {}
        for a in info['accesses']:
            acc.setdefault(a.insn.addr, []).append(a)
        src_walk = [x for x, l in acc.items() if any(a.kind == 'load' and a.addr[0] == 'P' and a.addr[1] == 'SRCARR' and a.addr[2] is None for a in l)]
        if not src_walk:
            continue
        loops = []
        for a in f.addrs:
            i = u.insns[a]
            if is_cond_jump(i.mn) and i.target is not None and i.target <= a and any(i.target <= x <= a for x in src_walk):
                loops.append((i.target, a))
        if not loops:
            continue
        nk += 1
        L = asmlin.Lin(u, f).run()
        for x in sorted(acc):
            tl = [a for a in acc[x] if a.kind == 'load' and a.addr[0] == 'P' and a.addr[1] == 'TBL']
            if not tl:
                continue
            inl = [(h, b) for h, b in loops if h <= x <= b]
            if not inl:
                continue
            h, b = min(inl, key=lambda hb: hb[1] - hb[0])
            R.instance()
            i = u.insns[x]
            st = L.IN.get(x)
            mem = [o for o in i.ops if is_mem(o)]
            form = L.addr({'r': dict(st['r']), 'm': dict(st['m'])}, mem[0]) if st is not None and mem else None
            moving = form is not None and any(isinstance(k, tuple) and k[0] in ('J', 'v') and h <= k[1] <= b for k in form)
            R.check(moving, '%s: %s' % (u.name, u.where(i, f)), '%s: this coefficient-table load inside the source loop (%#x..%#x) uses the address %s, which does not change from one source to the next' %
                    (sym, h - f.entry, b - f.entry, asmlin.fmt(form) if form is not None else '?'), key='L-TBL-ADVANCE|%s|%#x' % (sym, x - f.entry),
                    sample='%s: table address advances with the source index' % sym if sym.endswith('_sse') and x == min(acc) else None)
    if nk == 0:
        raise AnalysisBroken('L-TBL-ADVANCE: no source-walking kernel found')
    R.notes.append('%d kernels' % nk)
