#!/usr/bin/env python3
"""seed_recheck.py <shard> <nshards> : development aid.  For every stored seed, re-run only the checks that reported it (meta.json detected_by) plus the check of
its own property against the seed applied to a scratch worktree, and print REGRESSION when a seed that was reported is no longer reported by any of them, NEWLY when a
missed seed is now reported.  meta.json is not modified (seed_matrix.py does that)."""
import json, os, re, subprocess, sys, tempfile, shutil
V = '/verif'
VRUN = os.environ.get('SEED_VERIF', V)
shard, n = int(sys.argv[1]), int(sys.argv[2])
ids = sorted(d for d in os.listdir(V + '/seeded') if os.path.isfile(V + '/seeded/%s/patch.diff' % d))[shard::n]
wt = tempfile.mkdtemp(prefix='seedrc-')
os.rmdir(wt)
subprocess.check_call(['git', '-C', '/repo', 'worktree', 'add', '-q', '--detach', wt, 'HEAD'])
try:
    for sid in ids:
        subprocess.check_call(['git', '-C', wt, 'checkout', '-q', '--', '.'])
        if subprocess.run(['git', '-C', wt, 'apply', V + '/seeded/%s/patch.diff' % sid]).returncode:
            print(sid, 'PATCH DOES NOT APPLY', flush=True)
            continue
        meta = json.load(open(V + '/seeded/%s/meta.json' % sid))
        was = bool(meta.get('detected'))
        cs = [meta['property']] + [d['check'] for d in meta.get('detected_by', []) if not d['rules'][0].startswith('ANALYSIS-BROKEN')]
        seen, hit, broken = [], [], []
        for c in cs:
            if c in seen:
                continue
            seen.append(c)
            p = subprocess.run([VRUN + '/check', c], env=dict(os.environ, VERIF_REPO=wt), stdout=subprocess.PIPE, stderr=subprocess.STDOUT, text=True)
            if p.returncode == 1:
                hit.append('%s[%s]' % (c, ' '.join(sorted(set(re.findall(r'violation \[([^\]]+)\]', p.stdout)))[:3])))
                break
            elif p.returncode != 0:
                broken.append('%s:%s' % (c, (re.findall(r'ANALYSIS-BROKEN[^\n]*', p.stdout) or [''])[0][:140]))
        tag = 'ok' if (hit and was) else 'NEWLY' if hit else 'REGRESSION' if was else 'still-missed'
        print(sid, tag, ' '.join(hit), ' '.join(broken), flush=True)
finally:
    subprocess.call(['git', '-C', '/repo', 'worktree', 'remove', '--force', wt])
    shutil.rmtree(wt, ignore_errors=True)
    subprocess.call(['git', '-C', '/repo', 'worktree', 'prune'])
