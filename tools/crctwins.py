"""R-CRC-TWINS: several folding CRC kernels exist twice, as an SSE (legacy-encoded) version and as its instruction-by-instruction AVX (VEX-encoded) translation; the dispatcher
hands out one or the other depending on the CPU, and on any given machine only one of the two is ever run.  Both have to compute the same function, and for these pairs
that is visible in the code: the multiset of (mnemonic with the v prefix dropped, immediate operands) is identical - for three pairs over all instructions, for the gzip
pair (whose main loop was rescheduled for three-operand instructions) over the instructions that carry an immediate: byte-shift counts, PCLMULQDQ selectors, length
comparisons, pointer steps.  A twin that deviates is reported at the first difference.  Sibling agreement, not a proof of the CRC."""
import re, difflib
from common import AnalysisBroken
import asmdb

FULL = [('crc16_t10dif_01', 'crc16_t10dif_02'), ('crc32_ieee_01', 'crc32_ieee_02'), ('crc16_t10dif_copy_by4', 'crc16_t10dif_copy_by4_02')]
IMM_ONLY = [('crc32_gzip_refl_by8', 'crc32_gzip_refl_by8_02')]
NORM = {'movdqa': 'mov', 'movdqu': 'mov', 'xorps': 'pxor', 'xorpd': 'pxor'}


def skeleton(u, f, imm_only):
    out = []
    for a in f.addrs:
        i = u.insns[a]
        mn = i.mn
        if mn.startswith(('nop', 'prefetch')) or mn == 'endbr64':
            continue
        m = mn[1:] if mn.startswith('v') and mn != 'vzeroupper' else mn
        m = NORM.get(m, m)
        imms = tuple(int(o, 0) for o in i.ops if re.match(r'^(0x[0-9a-f]+|\d+)$', o))
        if imms or not imm_only:
            out.append(((m, imms), i))
    return out


def check(rep, floor=4):
    R = rep.rule('R-CRC-TWINS', 'the SSE and AVX versions of the same folding CRC kernel (crc16_t10dif_01/_02, crc32_ieee_01/_02, crc16_t10dif_copy_by4/_by4_02: every instruction; crc32_gzip_refl_by8/_by8_02: every '
                 'instruction with an immediate) agree in the multiset of (mnemonic without the v prefix, immediate operands): byte-shift counts, carry-less-multiply selectors, length comparisons and pointer steps '
                 'of the variant the build host never runs are those of its twin', floor=floor, unit='twin pairs')
    units = asmdb.units('default')
    F = {}
    for un, u in units.items():
        for fn, f in u.funcs.items():
            F[fn] = (u, f)
    for pairs, imm_only in ((FULL, False), (IMM_ONLY, True)):
        for a, b in pairs:
            if a not in F or b not in F:
                raise AnalysisBroken('R-CRC-TWINS: %s / %s not both present' % (a, b))
            R.instance()
            sa, sb = skeleton(*F[a], imm_only), skeleton(*F[b], imm_only)
            ka, kb = [x for x, _ in sa], [x for x, _ in sb]
            if len(ka) < 20:
                raise AnalysisBroken('R-CRC-TWINS: %s has only %d skeleton entries' % (a, len(ka)))
            import collections
            ca, cb = collections.Counter(ka), collections.Counter(kb)
            if ca == cb:
                R.ok(1, sample='%s / %s: %d entries agree' % (a, b, len(ka)))
                continue
            # compared as multisets: re-scheduling instructions inside one twin is not a difference; a changed immediate, a dropped or an extra instruction is
            only_a, only_b = ca - cb, cb - ca
            ka1 = next((x for x in only_a), None)
            kb1 = next((x for x in only_b), None)
            ia = next((i for k, i in sa if k == ka1), sa[0][1])
            ib = next((i for k, i in sb if k == kb1), sb[0][1])
            ua, fa = F[a]
            ub, fb = F[b]
            R.fail('%s: %s' % (ua.name, ua.where(ia, fa)), '%s and its twin %s differ: only %s has %s, only %s has %s ("%s" / "%s" at %s): the two versions of the kernel no longer compute the same function, and only '
                   'one of them is ever exercised on a given machine' % (a, b, a, dict(only_a) or 'nothing', b, dict(only_b) or 'nothing', ia.text, ib.text, ub.where(ib, fb)), key='R-CRC-TWINS|%s' % a)
