"""R-CRC-TWINS: several folding CRC kernels exist twice, as an SSE (legacy-encoded) version and as its instruction-by-instruction AVX (VEX-encoded) translation; the dispatcher
hands out one or the other depending on the CPU, and on any given machine only one of the two is ever run.  Both have to compute the same function, and for these pairs
that is visible in the code: the multiset of (vector mnemonic with the v prefix dropped, immediate operands) is identical - for three pairs over all vector instructions,
for the gzip pair (whose main loop was rescheduled for three-operand instructions) over those that carry an immediate: byte-shift counts, PCLMULQDQ selectors - and so is the
multiset of constants of the general-purpose instructions in a spelling-independent form (pointer / length steps, length thresholds; see skeleton()).  Register allocation,
instruction order and the choice between add/lea, cmp 0/test, mov 0/xor are not compared.  A twin that deviates is reported at the first difference.  Sibling agreement, not a proof of the CRC."""
import re, difflib
from common import AnalysisBroken
import asmdb

FULL = [('crc16_t10dif_01', 'crc16_t10dif_02'), ('crc32_ieee_01', 'crc32_ieee_02'), ('crc16_t10dif_copy_by4', 'crc16_t10dif_copy_by4_02')]
IMM_ONLY = [('crc32_gzip_refl_by8', 'crc32_gzip_refl_by8_02')]
NORM = {'movdqa': 'mov', 'movdqu': 'mov', 'xorps': 'pxor', 'xorpd': 'pxor'}


_IMM = re.compile(r'^(0x[0-9a-f]+|\d+)$')
_VEC = re.compile(r'^(v?p[a-z]|v?mov(dq|q|d|ap|up|hp|lp)|v?xorp|v?andp|v?orp|v?shufp|v?blend|v?insert|v?extract|vbroadcast|vperm|vzero)')
JT = {'jl': 0, 'jge': 0, 'jnl': 0, 'jb': 0, 'jae': 0, 'jnb': 0, 'jc': 0, 'jnc': 0, 'jle': 1, 'jg': 1, 'jbe': 1, 'ja': 1, 'jna': 1, 'jng': 1}


def skeleton(u, f, imm_only):
    """the entries that are compared.  Vector instructions: (mnemonic without v, immediates) - all of them, or those with an immediate for the rescheduled pair.  General-purpose
    instructions only through the constants they carry, in a form that does not depend on how the constant is spelt: `add r,K`, `sub r,-K`, `lea r,[r+K]`, `inc r` are ('step', K);
    `cmp r,K` + jl/jge/jb/jae is the threshold ('thr', K), with jle/jg/jbe/ja the threshold K+1, with je/jne ('eq', K) - `cmp r,0`+je is `test r,r`+jz and is not an entry;
    `mov r,0` is `xor r,r` and is not an entry; any other immediate is (mnemonic, immediates)."""
    out = []
    addrs = list(f.addrs)
    for n, a in enumerate(addrs):
        i = u.insns[a]
        mn = i.mn
        if mn.startswith(('nop', 'prefetch')) or mn == 'endbr64':
            continue
        m = mn[1:] if mn.startswith('v') and mn != 'vzeroupper' else mn
        m = NORM.get(m, m)
        imms = tuple(int(o, 0) for o in i.ops if _IMM.match(o))
        if _VEC.match(mn):
            if imms or not imm_only:
                out.append(((m, imms), i))
            continue
        if mn in ('add', 'sub') and len(imms) == 1:
            k = imms[0] if imms[0] < (1 << 31) else imms[0] - (1 << 64 if imms[0] >= (1 << 32) else 1 << 32)
            out.append((('step', k if mn == 'add' else -k), i))
        elif mn in ('inc', 'dec'):
            out.append((('step', 1 if mn == 'inc' else -1), i))
        elif mn == 'lea' and len(i.ops) == 2:
            mm = re.match(r'^\[(\w+)([+-])(0x[0-9a-f]+|\d+)\]$', i.ops[1])
            if mm and mm.group(1) == i.ops[0]:
                out.append((('step', int(mm.group(3), 0) * (1 if mm.group(2) == '+' else -1)), i))
            elif re.search(r'[+-](0x[0-9a-f]+|\d+)\]$', i.ops[1]):
                mm = re.search(r'([+-])(0x[0-9a-f]+|\d+)\]$', i.ops[1])
                out.append((('lea', int(mm.group(2), 0) * (1 if mm.group(1) == '+' else -1)), i))
        elif mn == 'cmp' and len(imms) == 1:
            j = next((u.insns[b] for b in addrs[n + 1:n + 4] if u.insns[b].mn.startswith('j') and u.insns[b].mn != 'jmp'), None)
            if j is not None and j.mn in JT:
                out.append((('thr', imms[0] + JT[j.mn]), i))
            elif j is not None and j.mn in ('je', 'jz', 'jne', 'jnz'):
                if imms[0] != 0:
                    out.append((('eq', imms[0]), i))
            else:
                out.append((('cmp', imms), i))
        elif mn == 'mov' and imms == (0,):
            continue
        elif imms:
            out.append(((m, imms), i))
    return out


def check(rep, floor=4):
    R = rep.rule('R-CRC-TWINS', 'the SSE and AVX versions of the same folding CRC kernel (crc16_t10dif_01/_02, crc32_ieee_01/_02, crc16_t10dif_copy_by4/_by4_02: every vector instruction; crc32_gzip_refl_by8/_by8_02: every '
                 'vector instruction with an immediate) agree in the multiset of (vector mnemonic without the v prefix, immediate operands) and in the multiset of general-purpose constants in spelling-independent form '
                 '(step K for add/sub/lea/inc/dec, threshold K for cmp+jcc): byte-shift counts, carry-less-multiply selectors, length thresholds and pointer steps '
                 'of the variant the build host never runs are those of its twin', floor=floor, unit='twin pairs')
    units = asmdb.units('default')
    F = {}
    for un, u in units.items():
        for fn, f in u.funcs.items():
            F[fn] = (u, f)
    for pairs, imm_only in ((FULL, False), (IMM_ONLY, True)):
        for a, b in pairs:
            if a not in F or b not in F:
                raise AnalysisBroken('R-CRC-TWINS: %s / %s not both present' % (a, b))
            R.instance()
            sa, sb = skeleton(*F[a], imm_only), skeleton(*F[b], imm_only)
            ka, kb = [x for x, _ in sa], [x for x, _ in sb]
            if len(ka) < 20:
                raise AnalysisBroken('R-CRC-TWINS: %s has only %d skeleton entries' % (a, len(ka)))
            import collections
            ca, cb = collections.Counter(ka), collections.Counter(kb)
            if ca == cb:
                R.ok(1, sample='%s / %s: %d entries agree' % (a, b, len(ka)))
                continue
            # compared as multisets: re-scheduling instructions inside one twin is not a difference; a changed immediate, a dropped or an extra instruction is
            only_a, only_b = ca - cb, cb - ca
            ka1 = next((x for x in only_a), None)
            kb1 = next((x for x in only_b), None)
            ia = next((i for k, i in sa if k == ka1), sa[0][1])
            ib = next((i for k, i in sb if k == kb1), sb[0][1])
            ua, fa = F[a]
            ub, fb = F[b]
            R.fail('%s: %s' % (ua.name, ua.where(ia, fa)), '%s and its twin %s differ: only %s has %s, only %s has %s ("%s" / "%s" at %s): the two versions of the kernel no longer compute the same function, and only '
                   'one of them is ever exercised on a given machine' % (a, b, a, dict(only_a) or 'nothing', b, dict(only_b) or 'nothing', ia.text, ib.text, ub.where(ib, fb)), key='R-CRC-TWINS|%s' % a)
