"""Whole-program view: every library symbol (asm function or C function), the call graph
across both languages, and per-symbol ISA requirements (closure over reachable code)."""
import os, re
from common import AnalysisBroken, REPO
import srcset, asmdb, cbuild, isa
from irtext import IRModule

BASELINE_FEATURES = {'+cx8', '+fxsr', '+mmx', '+sse', '+sse2', '+x87', '+cmov'}
LIBC_OK = {'memcpy', 'memmove', 'memset', 'memcmp', 'strnlen', 'wmemset', '__assert_fail', '__stack_chk_fail',
           '__memcpy_chk', '__memset_chk', '__memmove_chk'}


class Program:
    def __init__(self, config='default'):
        self.config = config
        self.units = asmdb.units(config)
        self.asm = {}       # symbol -> (Unit, Func)
        for un, u in self.units.items():
            for fn, f in u.funcs.items():
                if fn in self.asm:
                    raise AnalysisBroken('duplicate global asm symbol %s (%s and %s)' % (fn, un, self.asm[fn][0].name))
                self.asm[fn] = (u, f)
        self.mods = {}
        self.cfun = {}      # external C symbol -> (IRModule, IRFunc)
        for unit, path in cbuild.lls(config).items():
            m = IRModule(path, unit)
            self.mods[unit] = m
            for fn, f in m.funcs.items():
                if not f.internal:
                    if fn in self.cfun or fn in self.asm:
                        raise AnalysisBroken('duplicate global symbol %s' % fn)
                    self.cfun[fn] = (m, f)
        self._req = {}
        self._insn_req = {}

    def is_interface(self, sym):
        """asm multibinary interface: body is a jump through a dispatch slot"""
        if sym in self.asm:
            u, f = self.asm[sym]
            return bool(f.slotjumps) and len(f.addrs) <= 4
        return False

    def c_callees(self, m, f):
        out = []
        for r in f.refs:
            if r.startswith('llvm.'):
                out.append(('intrinsic', r))
            elif r in m.funcs:
                out.append(('c', (m, m.funcs[r])))
            elif r in self.cfun:
                out.append(('c', self.cfun[r]))
            elif r in self.asm:
                out.append(('asm', r))
            elif r in m.decls:
                out.append(('ext', r))
            # else: a data global
        return out

    def requirement(self, sym):
        """-> dict token -> witness string, over everything reachable from sym (not through
        dispatch slots).  Witness names the first instruction found needing the token."""
        req = {}
        seen = set()
        work = [('sym', sym)]
        problems = []
        while work:
            kind, x = work.pop()
            if kind == 'sym':
                if x in seen:
                    continue
                seen.add(x)
                if x in self.asm:
                    u, f = self.asm[x]
                    if f.slotjumps:
                        if len(f.addrs) > 4:
                            problems.append('%s: slot jump inside a non-interface function' % x)
                        continue  # separately resolved entry point
                    if f.unresolved:
                        problems.append('%s: unresolved indirect control flow at %s' % (x, [hex(a) for a in f.unresolved]))
                    for a in f.addrs:
                        i = u.insns[a]
                        for t in isa.classify(i):
                            if t not in req:
                                req[t] = '%s: %s' % (u.name, u.where(i, f))
                    for a, callee in f.calls + f.tailcalls:
                        if callee is None:
                            problems.append('%s: call with unknown callee at %#x' % (x, a))
                        elif callee in self.asm or callee in self.cfun:
                            work.append(('sym', callee))
                        elif callee in (u.labels.get(u.insns[a].target) or []):
                            pass  # local routine, already part of f.addrs
                        else:
                            problems.append('%s: calls symbol %s not defined by the library' % (x, callee))
                elif x in self.cfun:
                    work.append(('cf', self.cfun[x]))
                else:
                    problems.append('symbol %s is not defined by the library' % x)
            else:
                m, f = x
                key = (m.unit, f.name)
                if key in seen:
                    continue
                seen.add(key)
                extra = m.target_features(f) - BASELINE_FEATURES
                if extra:
                    req['C-target-features:' + ','.join(sorted(extra))] = '%s:%s' % (m.unit, f.name)
                if re.search(r'\basm\b (?:sideeffect |inteldialect |alignstack )*"', f.body):
                    req['C-inline-asm'] = '%s:%s' % (m.unit, f.name)
                for k, c in self.c_callees(m, f):
                    if k == 'c':
                        work.append(('cf', c))
                    elif k == 'asm':
                        work.append(('sym', c))
                    elif k == 'intrinsic':
                        if c.startswith('llvm.x86.'):
                            req['C-x86-intrinsic:' + c] = '%s:%s' % (m.unit, f.name)
                    elif k == 'ext':
                        if c not in LIBC_OK:
                            problems.append('%s:%s references external symbol %s' % (m.unit, f.name, c))
        return req, problems, seen
