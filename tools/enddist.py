"""ENDDIST: how far below the end of the input every pointer of a portable match finder is.
For one function and one designated end pointer E (start_in + avail_in), a fixpoint over the SSA values computes
    D(v)   an upper bound of v - E in bytes for pointer values (None = unknown)
    U(x)   a constant upper bound of an integer value
    R(x)   a relational upper bound  x <= E - p + c  of an integer value (p an SSA pointer)
with refinement by dominating pointer comparisons (p + a < q + b on the taken edge) and the contract of compare258
(result <= its max_length argument, and <= 258, read off its own source: `if (max_length > 258) max_length = 258`).
A read of W bytes at p is inside the input iff D(p) + W <= 0 where it executes."""
import re
from common import AnalysisBroken
import irrules

INF = None
INT = re.compile(r'^-?\d+$')


class EndDist:
    def __init__(self, mod, f, end):
        self.mod, self.f, self.E = mod, f, end
        self.D = {end: 0}
        self.U = {}
        self.R = {}
        self.count = {}
        self.guards = self._guards()

    # ---- structural helpers
    def strip(self, v):
        return irrules._strip(self.f, v)

    def ptr_lin(self, v):
        """(root SSA, constant byte offset) through GEPs with constant indices"""
        off = 0
        for _ in range(12):
            d = self.f.defs.get(v)
            if d is None:
                break
            if d.op == 'bitcast':
                v = d.ops[0]
                continue
            if d.op == 'getelementptr' and d.ops[0] != '?':
                o = self.mod.types.gep_offset(d.extra['basety'], d.extra['idx'])
                o = o[0] if isinstance(o, tuple) else o
                if o is None:
                    break
                off += o
                v = d.ops[0]
                continue
            break
        return v, off

    def _guards(self):
        """[(edge target block, (root_x, off_x), pred, (root_y, off_y))] for pointer comparisons, both polarities"""
        out = []
        f = self.f
        neg = {'ult': 'uge', 'ule': 'ugt', 'ugt': 'ule', 'uge': 'ult', 'eq': 'ne', 'ne': 'eq', 'slt': 'sge', 'sle': 'sgt', 'sgt': 'sle', 'sge': 'slt'}
        for b in f.order:
            t = f.blocks[b].insns[-1]
            if t.op != 'br' or not t.extra.get('cond'):
                continue
            c = f.defs.get(t.extra['cond'])
            if c is None or c.op != 'icmp' or not (c.ty or '').endswith('*'):
                continue
            x, y = self.ptr_lin(c.ops[0]), self.ptr_lin(c.ops[1])
            tt, tf = t.extra['targets']
            if tt != tf:
                if f.blocks[tt].preds == [b]:
                    out.append((tt, x, c.extra['pred'], y))
                if f.blocks[tf].preds == [b]:
                    out.append((tf, x, neg[c.extra['pred']], y))
        return out

    # ---- evaluation
    def d_eff(self, v, block, depth=0):
        """upper bound of v - E where `block` executes"""
        root, off = self.ptr_lin(v)
        best = self.D.get(v)
        base = self.D.get(root)
        if base is not None and (best is None or base + off < best):
            best = base + off
        for tgt, x, pred, y in self.guards:
            if not self.f.dominates(tgt, block):
                continue
            # x pred y  with x = (rx, ox), y = (ry, oy)
            for (a, oa), p, (b_, ob) in ((x, pred, y), (y, {'ult': 'ugt', 'ule': 'uge', 'ugt': 'ult', 'uge': 'ule'}.get(pred, pred), x)):
                if a != root or p not in ('ult', 'ule'):
                    continue
                db = self.D.get(b_) if depth >= 2 else self.d_eff(b_, block, depth + 1)
                if db is None and b_ == self.E:
                    db = 0
                if db is None:
                    continue
                # root + oa < b_ + ob  =>  root - E <= db + ob - oa - 1
                cand = db + ob - oa - (1 if p == 'ult' else 0) + off
                if best is None or cand < best:
                    best = cand
        return best

    def run(self):
        f = self.f
        changed = True
        rounds = 0
        while changed:
            changed = False
            rounds += 1
            if rounds > 60:
                raise AnalysisBroken('enddist: no fixpoint in %s' % f.name)
            for i in f.all_insns():
                if not i.dst:
                    continue
                v = i.dst
                if (i.ty or '').endswith('*') or i.op == 'getelementptr':
                    new = self.ptr_value(i)
                    old = self.D.get(v, 'unset')
                    if v == self.E:
                        continue
                    if old == 'unset':
                        if new is not None:
                            self.D[v] = new
                            changed = True
                    elif old is not None and (new is None or new > old):
                        self.count[v] = self.count.get(v, 0) + 1
                        self.D[v] = None if (new is None or self.count[v] > 4) else new
                        changed = True
                else:
                    u, r = self.int_value(i)
                    if u is not None and (v not in self.U or self.U[v] != u):
                        if v in self.U and u > self.U[v]:
                            self.count[v] = self.count.get(v, 0) + 1
                            if self.count[v] > 4:
                                continue
                        self.U[v] = u
                        changed = True
                    if r is not None and self.R.get(v) != r:
                        self.R[v] = r
                        changed = True
        return self

    def ptr_value(self, i):
        f = self.f
        if i.op == 'bitcast':
            return self.d_eff(i.ops[0], i.block)
        if i.op == 'getelementptr' and i.ops[0] != '?':
            base = self.d_eff(i.ops[0], i.block)
            o = self.mod.types.gep_offset(i.extra['basety'], i.extra['idx'])
            o = o[0] if isinstance(o, tuple) else o
            if o is not None:
                return None if base is None else base + o
            # one variable index over i8
            if i.extra['basety'].strip() == 'i8' and len(i.extra['idx']) == 1:
                x = i.extra['idx'][0].split()[-1]
                xs = self.strip(x)
                u = self.ub(x)
                r = self.R.get(xs) or self.R.get(x)
                cands = []
                if u is not None and base is not None:
                    cands.append(base + u)
                if r is not None and self.ptr_lin(i.ops[0])[0] == self.ptr_lin(r[0])[0]:
                    cands.append(r[1] + self.ptr_lin(i.ops[0])[1] - self.ptr_lin(r[0])[1])
                return min(cands) if cands else None
            return None
        if i.op == 'phi':
            vals = []
            for v, pb in i.extra['incoming']:
                t = f.blocks[pb].insns[-1]
                vals.append(self.d_eff(v, pb))
            if any(x is None for x in vals):
                # an incoming value not yet computed (back edge) is optimistic only while unset
                known = [x for x in vals if x is not None]
                unset = [v for (v, pb), x in zip(i.extra['incoming'], vals) if x is None and v not in self.D and self.ptr_lin(v)[0] not in self.D]
                if len(unset) == len([x for x in vals if x is None]) and known:
                    return max(known)
                return None
            return max(vals)
        if i.op == 'select':
            a, b = self.d_eff(i.ops[1], i.block), self.d_eff(i.ops[2], i.block)
            return None if a is None or b is None else max(a, b)
        return None

    def ub(self, x):
        if INT.match(x):
            return int(x)
        xs = self.strip(x)
        if INT.match(xs):
            return int(xs)
        d = self.f.defs.get(x)
        u = self.U.get(xs, self.U.get(x))
        if d is not None and d.op == 'zext' and d.extra.get('fromty') == 'i16':
            u = min(u, 65535) if u is not None else 65535
        return u

    def int_value(self, i):
        f = self.f
        if i.op in ('zext', 'sext', 'trunc', 'freeze'):
            return self.ub(i.ops[0]), self.R.get(self.strip(i.ops[0]))
        if i.op == 'sub':
            a, b = f.defs.get(i.ops[0]), f.defs.get(i.ops[1])
            if a is not None and b is not None and a.op == 'ptrtoint' and b.op == 'ptrtoint':
                # q - p  with D(q) known:  q - p <= E - p + D(q)
                dq = self.d_eff(a.ops[0], i.block)
                if dq is not None:
                    return None, (b.ops[0], dq)
            u = self.ub(i.ops[0])
            if u is not None and INT.match(i.ops[1]) and int(i.ops[1]) >= 0:
                return u - int(i.ops[1]), None
            return None, None
        if i.op == 'add':
            a, b = self.ub(i.ops[0]), self.ub(i.ops[1])
            return (a + b if a is not None and b is not None else None), None
        if i.op == 'and' and INT.match(i.ops[1]) and int(i.ops[1]) >= 0:
            return int(i.ops[1]), None
        if i.op == 'call' and re.sub(r'\.\d+$', '', i.callee) == 'compare258':
            m = i.args[2][1]
            u = self.ub(m)
            r = self.R.get(self.strip(m))
            return (258 if u is None else min(258, u)), r
        if i.op == 'phi':
            us = [self.ub(v) for v, _ in i.extra['incoming']]
            return (max(us) if all(u is not None for u in us) else None), None
        if i.op == 'select':
            a, b = self.ub(i.ops[1]), self.ub(i.ops[2])
            return (max(a, b) if a is not None and b is not None else None), None
        return None, None
