"""R-NO-DATA-EXIT: the portable reference kernels iterate over index ranges given by their scalar arguments only.  A loop exit (break / return
inside a loop) whose condition depends on bytes loaded from memory - a coefficient, a table entry, a source byte - makes the set of output
bytes written depend on data.  (Skipping a store on a data condition without leaving the loop is not an exit and is not reported.)"""
from common import AnalysisBroken
import irrules


def check(rep, suffix, funcs, floor):
    import llir
    mod = llir.library('default')
    R = rep.rule('R-NO-DATA-EXIT-' + suffix, 'portable kernels %s: no edge that leaves a loop is taken on a condition that depends on loaded data (coefficients, tables, source bytes): every row and every byte position '
                 'given by the scalar arguments is visited' % ', '.join(funcs), floor=floor, unit='loops')
    for fn in funcs:
        f = mod.funcs.get(fn)
        if f is None:
            raise AnalysisBroken(fn + ' not found in the linked IR')
        loops = irrules.natural_loops(f)
        if not loops:
            raise AnalysisBroken(fn + ' has no loop')
        exits = irrules.data_exits(mod, f, lambda d: d[0] == 'mem')
        for _ in loops:
            R.instance()
        bad = {}
        for b, tgt, t in exits:
            bad.setdefault(b, (tgt, t))
        for b, (tgt, t) in bad.items():
            R.fail(mod.where(f, t), '%s: the branch at the end of block %s leaves its loop (to %s) on a condition that depends on loaded data: rows / positions after that point are not processed' % (fn, b, tgt),
                   key='R-NO-DATA-EXIT|%s|%s' % (fn, b))
        R.ok(max(0, len(loops) - len(bad)), sample='%s: %d loops, exits depend on arguments only' % (fn, len(loops)))
