"""ISA classifier: the instruction-set extensions one decoded instruction needs, from its
ENCODING (legacy/VEX/EVEX, vector length) and mnemonic.  Hand-written, fail-closed: an
unknown mnemonic raises AnalysisBroken.  This table is the trusted base of C16."""
from common import AnalysisBroken

LEGACY_PREFIX = {0x66, 0xf2, 0xf3, 0x2e, 0x36, 0x3e, 0x26, 0x64, 0x65, 0x67, 0xf0}

BASE = set('''add adc and bsf bsr bswap bt btc btr bts call cbw cdq cdqe clc cld cmc cmp cmps cmpxchg cpuid cqo cwd cwde dec div
 endbr64 endbr32 hlt idiv imul inc jmp lea lods loop loope loopne mov movabs movs movsx movsxd movzx mul neg nop not or pop push
 rcl rcr ret rol ror sahf lahf sar sbb scas shl shld shr shrd stc std stos sub test ud2 xadd xchg xlat xor pause
 prefetchnta prefetcht0 prefetcht1 prefetcht2 sfence lfence mfence xgetbv rdtsc leave'''.split())
CC = ['a', 'ae', 'b', 'be', 'c', 'e', 'g', 'ge', 'l', 'le', 'na', 'nae', 'nb', 'nbe', 'nc', 'ne', 'ng', 'nge', 'nl', 'nle', 'no',
      'np', 'ns', 'nz', 'o', 'p', 'pe', 'po', 's', 'z']
for _c in CC:
    BASE.add('j' + _c)
    BASE.add('cmov' + _c)
    BASE.add('set' + _c)
BASE |= {'jrcxz', 'jecxz'}

# SSE/SSE2 (architectural baseline of x86-64)
SSE2 = set('''movd movq movdqa movdqu movntdq movnti movaps movups movapd movupd movss movsd movlps movhps movlpd movhpd movhlps movlhps
 movmskps movmskpd movntps movntpd maskmovdqu
 paddb paddw paddd paddq paddsb paddsw paddusb paddusw psubb psubw psubd psubq psubsb psubsw psubusb psubusw
 pand pandn por pxor pcmpeqb pcmpeqw pcmpeqd pcmpgtb pcmpgtw pcmpgtd pmovmskb pshufd pshufhw pshuflw
 psllw pslld psllq psrlw psrld psrlq psraw psrad pslldq psrldq pmullw pmulhw pmulhuw pmuludq pmaddwd psadbw
 pavgb pavgw pmaxub pminub pmaxsw pminsw packsswb packssdw packuswb punpcklbw punpcklwd punpckldq punpcklqdq
 punpckhbw punpckhwd punpckhdq punpckhqdq pextrw pinsrw
 xorps xorpd andps andpd andnps andnpd orps orpd addps addpd addss addsd subps subpd mulps mulpd divps divpd sqrtps sqrtpd
 shufps shufpd unpcklps unpckhps unpcklpd unpckhpd cvtsi2sd cvtsi2ss cvttsd2si cvttss2si cvtdq2ps cvtps2dq cvttps2dq
 comiss comisd ucomiss ucomisd cmpps cmppd minps maxps minpd maxpd ldmxcsr stmxcsr clflush'''.split())
SSE3 = set('lddqu movddup movshdup movsldup haddps haddpd hsubps hsubpd addsubps addsubpd'.split())
SSSE3 = set('pshufb palignr phaddw phaddd phaddsw phsubw phsubd phsubsw pabsb pabsw pabsd pmaddubsw pmulhrsw psignb psignw psignd'.split())
SSE41 = set('''pblendvb pblendw blendps blendpd blendvps blendvpd pextrb pextrd pextrq pinsrb pinsrd pinsrq
 pmovzxbw pmovzxbd pmovzxbq pmovzxwd pmovzxwq pmovzxdq pmovsxbw pmovsxbd pmovsxbq pmovsxwd pmovsxwq pmovsxdq
 pmulld pmuldq ptest movntdqa pmaxsb pminsb pmaxuw pminuw pmaxud pminud pmaxsd pminsd pcmpeqq packusdw mpsadbw phminposuw
 roundps roundpd roundss roundsd dpps dppd insertps extractps'''.split())
SSE42 = set('crc32 pcmpgtq pcmpestri pcmpestrm pcmpistri pcmpistrm'.split())
CLMUL = set('pclmulqdq pclmullqlqdq pclmulhqlqdq pclmullqhqdq pclmulhqhqdq'.split())
AESNI = set('aesenc aesenclast aesdec aesdeclast aesimc aeskeygenassist'.split())

LEGACY = {}
for _s, _c in ((SSE2, ()), (SSE3, ('SSE3',)), (SSSE3, ('SSSE3',)), (SSE41, ('SSE4.1',)), (SSE42, ('SSE4.2',)),
               (CLMUL, ('PCLMULQDQ',)), (AESNI, ('AES',))):
    for _m in _s:
        LEGACY[_m] = _c
for _m in BASE:
    LEGACY[_m] = ()
LEGACY.update({'popcnt': ('POPCNT',), 'lzcnt': ('LZCNT',), 'tzcnt': ('soft:BMI1-TZCNT',), 'movbe': ('MOVBE',),
               'adcx': ('ADX',), 'adox': ('ADX',), 'rdrand': ('RDRAND',), 'xsave': ('XSAVE',)})

VEX_GPR = {'andn': 'BMI1', 'bextr': 'BMI1', 'blsi': 'BMI1', 'blsmsk': 'BMI1', 'blsr': 'BMI1',
           'bzhi': 'BMI2', 'mulx': 'BMI2', 'pdep': 'BMI2', 'pext': 'BMI2', 'rorx': 'BMI2', 'sarx': 'BMI2', 'shlx': 'BMI2', 'shrx': 'BMI2'}

K_BASE = ['kmov', 'kand', 'kandn', 'knot', 'kor', 'kxor', 'kxnor', 'kshiftl', 'kshiftr', 'kortest', 'ktest', 'kadd']


def _kclass(mn):
    if mn in ('kunpckbw',):
        return 'AVX512F'
    if mn in ('kunpckwd', 'kunpckdq'):
        return 'AVX512BW'
    for b in K_BASE:
        if mn.startswith(b) and len(mn) == len(b) + 1:
            suf = mn[-1]
            if suf in 'dq':
                return 'AVX512BW'
            if suf == 'b':
                return 'AVX512DQ'
            if suf == 'w':
                return 'AVX512DQ' if b in ('ktest', 'kadd') else 'AVX512F'
    return None


# VEX SIMD mnemonics that are AVX2 regardless of vector length
VEX_AVX2_ALWAYS = set('''vpbroadcastb vpbroadcastw vpbroadcastd vpbroadcastq vpblendd vpsllvd vpsllvq vpsrlvd vpsrlvq vpsravd
 vpmaskmovd vpmaskmovq vpgatherdd vpgatherdq vpgatherqd vpgatherqq vgatherdps vgatherdpd vgatherqps vgatherqpd
 vbroadcasti128 vextracti128 vinserti128 vperm2i128 vpermd vpermq vpermps vpermpd'''.split())
# VEX 256-bit mnemonics that are plain AVX (float domain / moves)
VEX_AVX_256 = set('''vmovdqa vmovdqu vmovntdq vmovaps vmovups vmovapd vmovupd vmovntps vmovntpd vptest vtestps vtestpd
 vbroadcastf128 vbroadcastss vbroadcastsd vextractf128 vinsertf128 vperm2f128 vpermilps vpermilpd vzeroupper vzeroall
 vxorps vxorpd vandps vandpd vandnps vandnpd vorps vorpd vaddps vaddpd vsubps vsubpd vmulps vmulpd vdivps vdivpd
 vblendps vblendpd vblendvps vblendvpd vshufps vshufpd vunpcklps vunpckhps vunpcklpd vunpckhpd vmaskmovps vmaskmovpd
 vmovmskps vmovmskpd vlddqu vcvtdq2ps vcvtps2dq vroundps vroundpd vmovddup vmovshdup vmovsldup'''.split())
VEX_CLMUL = set('vpclmulqdq vpclmullqlqdq vpclmulhqlqdq vpclmullqhqdq vpclmulhqhqdq'.split())
VEX_GFNI = set('vgf2p8affineqb vgf2p8affineinvqb vgf2p8mulb'.split())
VEX_AES = set('vaesenc vaesenclast vaesdec vaesdeclast'.split())

# EVEX classes by mnemonic (besides AVX512F and VL)
EVEX_F = set('''vmovdqa32 vmovdqa64 vmovdqu32 vmovdqu64 vmovd vmovq vmovntdq vmovntdqa vmovaps vmovups vmovapd vmovupd
 vpaddd vpaddq vpsubd vpsubq vpandd vpandq vpandnd vpandnq vpord vporq vpxord vpxorq vpternlogd vpternlogq
 vpermd vpermq vpermps vpermpd vpermi2d vpermi2q vpermt2d vpermt2q vpermilps vpermilpd
 vpgatherdd vpgatherdq vpgatherqd vpgatherqq vpscatterdd vpscatterdq vpscatterqd vpscatterqq
 vpcompressd vpcompressq vpexpandd vpexpandq vpmovdw vpmovdb vpmovqd vpmovqw vpmovqb vpmovsdw vpmovusdw
 vpmovzxbd vpmovzxbq vpmovzxwd vpmovzxwq vpmovzxdq vpmovsxbd vpmovsxbq vpmovsxwd vpmovsxwq vpmovsxdq
 vpslld vpsllq vpsrld vpsrlq vpsrad vpsraq vpsllvd vpsllvq vpsrlvd vpsrlvq vpsravd vpsravq vprold vprolq vprord vprorq
 vprolvd vprolvq vprorvd vprorvq
 vpcmpd vpcmpq vpcmpud vpcmpuq vpcmpeqd vpcmpeqq vpcmpgtd vpcmpgtq vpcmpltd vpcmpltq vpcmpled vpcmpleq vpcmpneqd vpcmpneqq
 vpcmpnltd vpcmpnltq vpcmpnled vpcmpnleq vpcmpltud vpcmpltuq vpcmpleud vpcmpleuq vpcmpnequd vpcmpnequq vpcmpnltud vpcmpnltuq
 vpcmpnleud vpcmpnleuq vpcmpequd vpcmpequq
 vshufi64x2 vshufi32x4 vshuff64x2 vshuff32x4 vextracti32x4 vextracti64x4 vextractf32x4 vextractf64x4
 vinserti32x4 vinserti64x4 vinsertf32x4 vinsertf64x4 vbroadcasti32x4 vbroadcasti64x4 vbroadcastf32x4 vbroadcastf64x4
 vbroadcastss vbroadcastsd vpbroadcastd vpbroadcastq vpblendmd vpblendmq vptestmd vptestmq vptestnmd vptestnmq
 vpabsd vpabsq vpmuludq vpmuldq vpmulld vpmaxsd vpmaxsq vpmaxud vpmaxuq vpminsd vpminsq vpminud vpminuq valignd valignq
 vpshufd vpunpckldq vpunpckhdq vpunpcklqdq vpunpckhqdq vpsadbw_never'''.split())
EVEX_BW = set('''vmovdqu8 vmovdqu16 vpblendmb vpblendmw vpbroadcastb vpbroadcastw vpermw vpermi2w vpermt2w vpshufb vpshufhw vpshuflw
 vpaddb vpaddw vpaddsb vpaddsw vpaddusb vpaddusw vpsubb vpsubw vpsubsb vpsubsw vpsubusb vpsubusw vpsraw vpsllw vpsrlw
 vpsravw vpsllvw vpsrlvw vpslldq vpsrldq vpmaddwd vpmaddubsw vpmullw vpmulhw vpmulhuw vpmulhrsw vpsadbw vdbpsadbw
 vpmovzxbw vpmovsxbw vpmovwb vpmovswb vpmovuswb vpacksswb vpackssdw vpackuswb vpackusdw vpunpcklbw vpunpckhbw vpunpcklwd vpunpckhwd
 vpalignr vpabsb vpabsw vpavgb vpavgw vpmaxub vpminub vpmaxsb vpminsb vpmaxuw vpminuw vpmaxsw vpminsw
 vptestmb vptestmw vptestnmb vptestnmw vpmovb2m vpmovw2m vpmovm2b vpmovm2w vpextrb vpextrw vpinsrb vpinsrw
 vpcmpb vpcmpw vpcmpub vpcmpuw vpcmpeqb vpcmpeqw vpcmpgtb vpcmpgtw vpcmpltb vpcmpltw vpcmpleb vpcmplew vpcmpneqb vpcmpneqw
 vpcmpnltb vpcmpnltw vpcmpnleb vpcmpnlew vpcmpltub vpcmpltuw vpcmpleub vpcmpleuw vpcmpnequb vpcmpnequw vpcmpnltub vpcmpnltuw
 vpcmpnleub vpcmpnleuw vpcmpequb vpcmpequw'''.split())
EVEX_DQ = set('''vbroadcastf32x2 vbroadcasti32x2 vbroadcastf32x8 vbroadcasti32x8 vbroadcastf64x2 vbroadcasti64x2
 vextractf32x8 vextracti32x8 vextractf64x2 vextracti64x2 vinsertf32x8 vinserti32x8 vinsertf64x2 vinserti64x2
 vpmullq vandps vandpd vandnps vandnpd vorps vorpd vxorps vxorpd vpmovd2m vpmovq2m vpmovm2d vpmovm2q vpextrd vpextrq vpinsrd vpinsrq
 vcvtqq2pd vcvtuqq2pd vrangeps vrangepd vreduceps vreducepd vfpclassps vfpclasspd'''.split())
EVEX_CD = set('vplzcntd vplzcntq vpconflictd vpconflictq vpbroadcastmb2q vpbroadcastmw2d'.split())
EVEX_VBMI2 = set('vpcompressb vpcompressw vpexpandb vpexpandw vpshldw vpshldd vpshldq vpshldvw vpshldvd vpshldvq vpshrdw vpshrdd vpshrdq vpshrdvw vpshrdvd vpshrdvq'.split())
EVEX_VBMI = set('vpermb vpermi2b vpermt2b vpmultishiftqb'.split())
EVEX_VNNI = set('vpdpbusd vpdpbusds vpdpwssd vpdpwssds'.split())
EVEX_BITALG = set('vpopcntb vpopcntw vpshufbitqmb'.split())
EVEX_VPOPCNTDQ = set('vpopcntd vpopcntq'.split())
EVEX_F.discard('vpsadbw_never')


def encoding(raw):
    k = 0
    while k < len(raw) and raw[k] in LEGACY_PREFIX:
        k += 1
    b = raw[k]
    if b == 0x62:
        p2 = raw[k + 3]
        ll = (p2 >> 5) & 3
        return ('EVEX', (128, 256, 512, 512)[ll])
    if b == 0xc5:
        return ('VEX', 256 if raw[k + 1] & 4 else 128)
    if b == 0xc4:
        return ('VEX', 256 if raw[k + 2] & 4 else 128)
    return ('LEG', 0)


def classify(ins):
    """-> frozenset of requirement tokens for this instruction"""
    mn = ins.mn
    enc, vl = encoding(ins.raw)
    if enc == 'LEG':
        if mn in LEGACY:
            return frozenset(LEGACY[mn])
        raise AnalysisBroken('ISA classifier: unknown legacy-encoded mnemonic %r (%s)' % (mn, ins.text))
    if enc == 'VEX':
        if mn in VEX_GPR:
            return frozenset([VEX_GPR[mn]])
        kc = _kclass(mn)
        if kc:
            return frozenset([kc, 'AVX512F', 'OS.AVX512', 'OS.AVX'])
        if not mn.startswith('v'):
            raise AnalysisBroken('ISA classifier: unknown VEX-encoded mnemonic %r (%s)' % (mn, ins.text))
        req = {'AVX', 'OS.AVX'}
        if mn in VEX_CLMUL:
            req.add('PCLMULQDQ' if vl == 128 else 'VPCLMULQDQ')
        elif mn in VEX_GFNI:
            req.add('GFNI')
            if vl == 256:
                req.add('AVX')  # VEX.256 GFNI needs AVX (+GFNI) per SDM
        elif mn in VEX_AES:
            req.add('AES' if vl == 128 else 'VAES')
        elif mn.startswith('vfmadd') or mn.startswith('vfmsub') or mn.startswith('vfnm'):
            req.add('FMA')
        elif mn in VEX_AVX2_ALWAYS:
            req.add('AVX2')
        elif vl == 256:
            if mn in VEX_AVX_256:
                pass
            elif mn == 'vmovntdqa' or mn.startswith('vp') or mn.startswith('vmpsadbw'):
                req.add('AVX2')
            else:
                raise AnalysisBroken('ISA classifier: unknown 256-bit VEX mnemonic %r (%s)' % (mn, ins.text))
        else:
            base = mn[1:]
            if not (base in SSE2 or base in SSE3 or base in SSSE3 or base in SSE41 or base in SSE42 or mn in VEX_AVX_256
                    or mn in ('vzeroupper', 'vzeroall')):
                raise AnalysisBroken('ISA classifier: unknown 128-bit VEX mnemonic %r (%s)' % (mn, ins.text))
        return frozenset(req)
    # EVEX
    req = {'AVX512F', 'OS.AVX512', 'OS.AVX'}
    if vl < 512 and mn not in ('vmovd', 'vmovq', 'vpextrd', 'vpextrq', 'vpextrb', 'vpextrw', 'vpinsrd', 'vpinsrq', 'vpinsrb', 'vpinsrw'):
        req.add('AVX512VL')
    if mn in EVEX_F:
        pass
    elif mn in EVEX_BW:
        req.add('AVX512BW')
    elif mn in EVEX_DQ:
        req.add('AVX512DQ')
    elif mn in EVEX_CD:
        req.add('AVX512CD')
    elif mn in EVEX_VBMI2:
        req.add('AVX512VBMI2')
    elif mn in EVEX_VBMI:
        req.add('AVX512VBMI')
    elif mn in EVEX_VNNI:
        req.add('AVX512VNNI')
    elif mn in EVEX_BITALG:
        req.add('AVX512BITALG')
    elif mn in EVEX_VPOPCNTDQ:
        req.add('AVX512VPOPCNTDQ')
    elif mn in VEX_CLMUL:
        req.add('VPCLMULQDQ')
    elif mn in VEX_GFNI:
        req.add('GFNI')
    elif mn in VEX_AES:
        req.add('VAES')
    else:
        raise AnalysisBroken('ISA classifier: unknown EVEX-encoded mnemonic %r (%s)' % (mn, ins.text))
    return frozenset(req)
