"""ASMCONST: constant propagation through a counted loop of an asm kernel.  Starting at an instruction that loads an
immediate into a register, only registers holding known constants are tracked; arithmetic with immediates and the
flags it produces are folded, conditional jumps are followed when the flags are known, and every memory operand
whose address is (pointer with a constant offset, from ASMFLOW) + scale * known-register + disp is recorded with
its absolute byte range.  The walk ends at the first instruction that needs an unknown flag or after `budget` steps:
what is returned is exactly the set of addresses the data-independent part of the loop touches."""
import re
from common import AnalysisBroken
from asmdb import REG64, parse_mem, is_mem, is_cond_jump
import regdef

IMM = re.compile(r'^(0x[0-9a-f]+|-?\d+)$')


def _imm(s):
    v = int(s, 0)
    return v - (1 << 64) if v >= 1 << 63 else v


def walk(u, f, flow, start, budget=200000):
    """-> (accesses [(insn, kind, tag, lo, hi)], end address, steps)"""
    regs = {}
    zf = sf = None        # of the last arithmetic result, as (result value) or None
    res = None
    out = []
    a = start
    steps = 0
    from asmflow import mem_kind
    while steps < budget:
        steps += 1
        i = u.insns.get(a)
        if i is None or a not in f.aset:
            break
        mn, ops = i.mn, i.ops
        # memory operands
        for k, o in enumerate(ops):
            if not is_mem(o) or mn == 'lea' or mn.startswith('prefetch'):
                continue
            m = parse_mem(o)
            kind = mem_kind(mn, k)
            fst = flow.IN.get(a)
            if fst is None or kind is None:
                continue
            ptr = None
            off = m['disp'] or 0
            ok = True
            for r, s in ((m['base'], 1), (m['index'], m['scale'] or 1)):
                if not r:
                    continue
                if r not in REG64:
                    ok = False
                    break
                g = REG64[r][0]
                v = fst.get(g)
                if g in regs:
                    off += s * regs[g]
                elif v is not None and v[0] == 'P' and v[2] is not None and v[2][1] == 0 and s == 1 and ptr is None:
                    ptr = v
                    off += v[2][0]
                else:
                    ok = False
            if ok and ptr is not None:
                out.append((i, kind, ptr[1], off, off + (m['size'] or 1)))
        if mn == 'ret':
            break
        if mn == 'jmp':
            if i.target is None:
                break
            a = i.target
            continue
        if is_cond_jump(mn):
            if res is None:
                break
            cc = mn[1:]
            v = res
            taken = {'e': v == 0, 'z': v == 0, 'ne': v != 0, 'nz': v != 0, 'g': v > 0, 'nle': v > 0, 'ge': v >= 0, 'nl': v >= 0, 'l': v < 0, 'nge': v < 0,
                     'le': v <= 0, 'ng': v <= 0, 's': v < 0, 'ns': v >= 0}.get(cc)
            if taken is None:
                break
            a = i.target if taken else i.end
            continue
        d = REG64.get(ops[0]) if ops and not is_mem(ops[0]) else None
        src = ops[1] if len(ops) > 1 else None
        if d and d[1] >= 32 and mn in ('mov', 'movabs') and src is not None and IMM.match(src):
            regs[d[0]] = _imm(src)
        elif d and d[1] >= 32 and mn in ('add', 'sub') and src is not None and IMM.match(src) and d[0] in regs:
            regs[d[0]] += _imm(src) * (1 if mn == 'add' else -1)
            res = regs[d[0]]
        elif d and d[1] >= 32 and mn in ('inc', 'dec') and d[0] in regs:
            regs[d[0]] += 1 if mn == 'inc' else -1
            res = regs[d[0]]
        elif mn == 'cmp' and d and d[0] in regs and src is not None and IMM.match(src):
            res = regs[d[0]] - _imm(src)
        elif mn == 'xor' and d and src == ops[0]:
            regs[d[0]] = 0
            res = 0
        else:
            _, defs = regdef.def_use(i)
            for r in defs:
                regs.pop(r, None)
            if d:
                regs.pop(d[0], None)
            if provenance_writes_flags(i):
                res = None
        a = i.end
    return out, a, steps


def provenance_writes_flags(i):
    import provenance
    return provenance.writes_flags(i)


def covered(ranges, lo, hi):
    cur = lo
    for a, b in sorted(ranges):
        if a > cur:
            break
        cur = max(cur, b)
        if cur >= hi:
            return True, None
    return cur >= hi, cur
