"""SCEV: LLVM's own scalar-evolution analysis (opt-14 -passes='print<scalar-evolution>') over the linked IR, parsed into
{function: {ssa value: closed form string}} plus loop back-edge counts.  Closed forms are parsed into polynomials over the
function's arguments and one iteration variable per loop; width conversions are treated as identity (the index arithmetic of the
functions analysed is done in int and assumed not to overflow - stated in the evidence)."""
import os, re, subprocess
from common import AnalysisBroken
import cbuild, llir

_cache = {}


def analysis(config='default'):
    if config in _cache:
        return _cache[config]
    llir.library(config)
    bc = cbuild.linked(config)
    ll = os.path.join(os.path.dirname(bc), 'lib.sroa.ll')
    out_ll = os.path.join(os.path.dirname(bc), 'lib.scev.ll')
    r = subprocess.run(['opt-14', '-passes=function(sroa,loop-simplify,lcssa,instcombine),print<scalar-evolution>', '-S', '-o', out_ll, ll], capture_output=True, text=True)
    if r.returncode:
        raise AnalysisBroken('opt-14 scalar evolution failed: ' + r.stderr[-300:])
    txt = r.stderr
    out = {}
    for m in re.finditer(r"Printing analysis 'Scalar Evolution Analysis' for function '([^']+)':\n(.*?)(?=Printing analysis 'Scalar Evolution Analysis'|\Z)", txt, re.S):
        fn, body = m.group(1), m.group(2)
        vals, exits, insn = {}, {}, {}
        for mm in re.finditer(r'^  (%[\w.]+) = ([^\n]*)\n  -->  (.*?)(?: U: [^\n]*?)?(?:\t\tExits: ([^\t\n]*))?(?:\t\tLoopDispositions:[^\n]*)?$', body, re.M):
            v, ins, sc, ex = mm.group(1), mm.group(2), mm.group(3), mm.group(4)
            sc = re.sub(r' U: .*$', '', sc).strip()
            vals[v] = sc
            insn[v] = ins
            if ex:
                exits[v] = ex.strip()
        counts = {}
        for mm in re.finditer(r'^Loop (%[\w.]+): backedge-taken count is (.*)$', body, re.M):
            counts[mm.group(1)] = mm.group(2).strip()
        out[fn] = dict(vals=vals, exits=exits, counts=counts, insn=insn)
    out['#module'] = llir.Module(out_ll)
    _cache[config] = out
    return out


# ---- polynomials: {monomial (sorted tuple of variable names): coefficient}
def padd(a, b, s=1):
    out = dict(a)
    for k, v in b.items():
        n = out.get(k, 0) + s * v
        if n:
            out[k] = n
        else:
            out.pop(k, None)
    return out


def pmul(a, b):
    out = {}
    for ka, va in a.items():
        for kb, vb in b.items():
            k = tuple(sorted(ka + kb))
            out[k] = out.get(k, 0) + va * vb
    return {k: v for k, v in out.items() if v}


def pvar(n):
    return {(n,): 1}


def pconst(c):
    return {(): c} if c else {}


class Parser:
    """SCEV text -> polynomial.  {a,+,b}<L> becomes a + b*n_L; casts are identity; (0 smax x) / (x smax y) are resolved by `assume`"""

    def __init__(self, text, assume=None):
        self.toks = re.findall(r'\{|\}|\(|\)|,\+,|<[^<>]*>|-?\d+|%[\w.]+|smax|smin|umax|umin|sext|zext|trunc|to|i\d+\*?|\+|\*|/u|[a-z]+', text)
        self.i = 0
        self.assume = assume or {}

    def peek(self):
        return self.toks[self.i] if self.i < len(self.toks) else None

    def next(self):
        t = self.peek()
        self.i += 1
        return t

    def skip_flags(self):
        loop = None
        while self.peek() and self.peek().startswith('<'):
            t = self.next()
            if t.startswith('<%'):
                loop = t[1:-1]
        return loop

    def atom(self):
        t = self.next()
        if t is None:
            raise AnalysisBroken('scev: unexpected end')
        if t == '{':
            parts = [self.expr()]
            while self.peek() == ',+,':
                self.next()
                parts.append(self.expr())
            if self.next() != '}':
                raise AnalysisBroken('scev: } expected')
            loop = self.skip_flags()
            if loop is None or len(parts) != 2:
                raise AnalysisBroken('scev: unsupported add-rec')
            return padd(parts[0], pmul(parts[1], pvar('n' + loop)))
        if t == '(':
            if self.peek() in ('sext', 'zext', 'trunc'):
                self.next()
                self.next()          # from type
                e = self.expr()
                if self.next() != 'to':
                    raise AnalysisBroken('scev: to expected')
                self.next()          # to type
                if self.next() != ')':
                    raise AnalysisBroken('scev: ) expected')
                self.skip_flags()
                return e
            e = self.expr()
            if self.next() != ')':
                raise AnalysisBroken('scev: ) expected after %s' % (self.toks[:self.i],))
            self.skip_flags()
            return e
        if re.match(r'^-?\d+$', t):
            return pconst(int(t))
        if t.startswith('%'):
            return pvar(t)
        raise AnalysisBroken('scev: unexpected token %r' % t)

    def expr(self):
        e = self.atom()
        while self.peek() in ('+', '*', 'smax', 'smin', 'umax', 'umin'):
            op = self.next()
            r = self.atom()
            if op == '+':
                e = padd(e, r)
            elif op == '*':
                e = pmul(e, r)
            else:
                key = (op, canon(e), canon(r))
                if key in self.assume:
                    e = e if self.assume[key] == 0 else r
                else:
                    raise AnalysisBroken('scev: %s of %s and %s needs an assumption' % (op, pfmt(e), pfmt(r)))
        return e


def canon(p):
    return tuple(sorted(p.items()))


def pfmt(p):
    if not p:
        return '0'
    out = []
    for k, v in sorted(p.items()):
        out.append(('%+d' % v if not k else ('+' if v == 1 else '-' if v == -1 else '%+d*' % v) + '*'.join(k)))
    s = ' '.join(out)
    return s[1:] if s.startswith('+') else s


def parse(text, assume=None):
    p = Parser(text, assume)
    e = p.expr()
    if p.peek() is not None:
        raise AnalysisBroken('scev: trailing tokens in %r' % text)
    return e


class Forms:
    """closed forms of one function's values as polynomials; pointer phis that SCEV cannot fold (a pointer walked by an inner loop and
    carried around an outer loop) are composed here: p = init + (exit value of the inner recurrence - p) * n_outer"""

    def __init__(self, A, name, assume=()):
        import irrules
        self.mod = A['#module']
        self.f = self.mod.funcs.get(name)
        if self.f is None or name not in A:
            raise AnalysisBroken(name + ' not found')
        self.S = A[name]
        self.assume = {}
        for op, a, b, pick in assume:
            self.assume[(op, canon(parse(a)), canon(parse(b)))] = pick
        self.loops = irrules.natural_loops(self.f)
        self.params = [n for _, n in self.f.params]
        self.memo = {}

    def loop_of(self, block):
        best = None
        for h, L in self.loops.items():
            if block in L and (best is None or len(L) < len(self.loops[best])):
                best = h
        return best

    def count(self, loop):
        s = self.S['counts'].get('%' + loop.lstrip('%'))
        try:
            return parse(s, self.assume) if s else None
        except AnalysisBroken:
            return None

    def poly(self, v, depth=0):
        if re.match(r'^-?\d+$', v):
            return pconst(int(v))
        if v in self.memo:
            return self.memo[v]
        s = self.S['vals'].get(v)
        if s is None:
            return pvar(v)
        try:
            p = parse(s, self.assume) if s != v else pvar(v)
        except AnalysisBroken:
            p = pvar(v)
        # substitute unresolved pointer phis
        out = {}
        for mono, c in p.items():
            term = {(): c}
            for var in mono:
                sub = self.resolve_phi(var, depth) if var.startswith('%') and var not in self.params and not var.startswith('%n%') and depth < 6 else None
                term = pmul(term, sub if sub is not None else pvar(var))
            out = padd(out, term)
        self.memo[v] = out
        return out

    def resolve_phi(self, v, depth):
        d = self.f.defs.get(v)
        if d is None or d.op != 'phi':
            return None
        L = self.loop_of(d.block)
        if L is None or d.block != L:
            return None
        init = [x for x, pb in d.extra['incoming'] if pb not in self.loops[L]]
        back = [x for x, pb in d.extra['incoming'] if pb in self.loops[L]]
        if len(init) != 1 or len(back) != 1:
            return None
        ex = self.S['exits'].get(back[0])
        bs = self.S['vals'].get(back[0])
        stepp = None
        try:
            if ex and ex != '<<Unknown>>':
                stepp = padd(parse(ex, self.assume), pvar(v), -1)
            elif bs:
                stepp = padd(parse(bs, self.assume), pvar(v), -1)
        except AnalysisBroken:
            return None
        if stepp is None or any(v in mono for mono in stepp):
            return None
        if any(x.startswith('n%') for mono in stepp for x in mono):
            return None
        return padd(self.poly(init[0], depth + 1), pmul(stepp, pvar('n%' + L)))

    def addr(self, v):
        """(base pointer symbol, offset polynomial): the base is a pointer parameter or a loaded pointer (SSA name of the load)"""
        p = self.poly(v)
        bases = []
        for k, c in p.items():
            if len(k) == 1 and c == 1 and k[0].startswith('%') and not k[0].startswith('%n%'):
                if k[0] in self.params and any(t.rstrip().endswith('*') for t, n in self.f.params if n == k[0]):
                    bases.append(k[0])
                else:
                    d = self.f.defs.get(k[0])
                    if d is not None and (d.op == 'alloca' or (d.op == 'load' and (d.ty or '').endswith('*'))):
                        bases.append(k[0])
        if len(bases) != 1:
            return None, p
        q = dict(p)
        del q[(bases[0],)]
        return bases[0], q
