#!/usr/bin/env python3
"""benign_matrix.py <diff files...> : development aid for the false-alarm side.  Applies each behaviour-preserving change (a diff produced by a sub-agent that was asked for
"no functional change" edits) to a scratch worktree of /repo and runs every claimed check against it; prints the checks that do not exit 0 (1 = false alarm to be corrected,
2 = the analysis could not follow the edit).  /repo is never touched."""
import json, os, re, subprocess, sys, tempfile, shutil
V = '/verif'
VRUN = os.environ.get('SEED_VERIF', V)
checks = [c['property_id'] for c in json.load(open(V + '/MANIFEST.json'))['checks']]
wt = tempfile.mkdtemp(prefix='benign-')
os.rmdir(wt)
subprocess.check_call(['git', '-C', '/repo', 'worktree', 'add', '-q', '--detach', wt, 'HEAD'])
try:
    for d in sys.argv[1:]:
        subprocess.check_call(['git', '-C', wt, 'checkout', '-q', '--', '.'])
        if subprocess.run(['git', '-C', wt, 'apply', d]).returncode:
            print(d, 'PATCH DOES NOT APPLY', flush=True)
            continue
        bad = []
        for c in checks:
            p = subprocess.run([VRUN + '/check', c], env=dict(os.environ, VERIF_REPO=wt), stdout=subprocess.PIPE, stderr=subprocess.STDOUT, text=True)
            if p.returncode:
                lines = re.findall(r'(?:violation \[[^\]]+\][^\n]{0,220}|ANALYSIS-BROKEN[^\n]{0,220})', p.stdout)
                bad.append('%s exit=%d: %s' % (c, p.returncode, ' || '.join(lines[:2])))
        print(d, '->', 'clean' if not bad else '\n     '.join(bad), flush=True)
finally:
    subprocess.call(['git', '-C', '/repo', 'worktree', 'remove', '--force', wt])
    shutil.rmtree(wt, ignore_errors=True)
    subprocess.call(['git', '-C', '/repo', 'worktree', 'prune'])
