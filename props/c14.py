"""C14 - flush points are byte-aligned, complete and (full flush) independent.  Decided (structural, necessary conditions):
the bit pattern sync_flush emits is, for every possible number of pending bits, a non-final stored block header padded to a byte
boundary followed by LEN=0000 NLEN=FFFF; a full flush clears the match-history flag on every path after the marker was written and the
next isal_deflate call resets the match history before it compresses anything; the one-shot entry point forces end-of-stream only
for NO_FLUSH.  That everything fed so far has been emitted before the marker is not decided."""
import re
from common import Report, AnalysisBroken
import llir, irrules, mirror
import c19

UNDECIDED = ('that all input fed so far has been encoded and flushed before the marker (state machine, bit packing of the body kernels), and that a decoder restarted at the flush point reproduces the rest '
             '(follows from the history reset only together with the match finders\' window guards of C17)')


def base_name(n):
    return re.sub(r'\.\d+$', '', n or '')


def partial_cfg(mod, f, pidx, field_off):
    """(ev, succ, reach) with branches decided when their condition is a function of the given stream field only"""
    P = irrules.prov(mod, f)

    def ev(c, v, depth=0):
        if re.match(r'^-?\d+$', c):
            return int(c)
        if c in ('true', 'false'):
            return int(c == 'true')
        d = f.defs.get(irrules._strip(f, c))
        if d is None or depth > 8:
            return None
        if d.op == 'load':
            return v if P.atoms(d.ops[0]) == {('param', pidx, field_off)} else None
        if d.op == 'icmp':
            a, b = ev(d.ops[0], v, depth + 1), ev(d.ops[1], v, depth + 1)
            if a is None or b is None:
                return None
            return int({'eq': a == b, 'ne': a != b, 'ugt': a > b, 'uge': a >= b, 'ult': a < b, 'ule': a <= b, 'sgt': a > b, 'sge': a >= b, 'slt': a < b, 'sle': a <= b}[d.extra['pred']])
        if d.op in ('and', 'or', 'xor'):
            a, b = ev(d.ops[0], v, depth + 1), ev(d.ops[1], v, depth + 1)
            if a is None or b is None:
                return None
            return {'and': a & b, 'or': a | b, 'xor': a ^ b}[d.op]
        return None

    def succ(b, v):
        t = f.blocks[b].insns[-1]
        if t.op == 'br':
            if t.extra.get('cond'):
                c = ev(t.extra['cond'], v) if v is not None else None
                tt, tf = t.extra['targets']
                return [tt, tf] if c is None else [tt if c else tf]
            return list(t.extra['targets'])
        if t.op == 'switch':
            cs = t.extra['cases'].items() if isinstance(t.extra['cases'], dict) else t.extra['cases']
            c = ev(t.ops[0], v) if v is not None else None
            if c is not None:
                for k, tgt in cs:
                    if int(k) == c:
                        return [tgt]
                return [t.extra['default']]
            return list(dict.fromkeys([t.extra['default']] + [x[1] for x in cs]))
        return []

    def reach(start, v, avoid=()):
        seen, work = set(), [start]
        while work:
            b = work.pop()
            if b in seen or b in avoid:
                continue
            seen.add(b)
            work += succ(b, v)
        return seen
    return ev, succ, reach


def check_marker(rep, mod, K):
    import constinterp
    R = rep.rule('T-SYNC-MARKER', 'sync_flush: for every number c = 0..7 of bits pending in the bit buffer (partition on m_bit_count, constant propagation through the function), the single write_bits(value, n) it issues '
                 'satisfies (c + n) % 8 == 0, 35 <= n <= 42 and value == 0xFFFF << (n - 16): three zero header bits (BFINAL = 0, BTYPE = 00) and zero padding up to the byte boundary, then LEN = 0x0000, NLEN = 0xFFFF',
                 floor=8, unit='pending-bit counts')
    f = mod.funcs.get('sync_flush')
    if f is None:
        raise AnalysisBroken('sync_flush not found')
    P = irrules.prov(mod, f)
    off = c19.field_offsets('struct isal_zstream', ['internal_state.bitbuf.m_bit_count'])['internal_state.bitbuf.m_bit_count']
    where = 'igzip/igzip.c:sync_flush'
    for c in range(8):
        R.instance()
        seen = []
        hooked = []

        def hook(i, c=c):
            if P.atoms(i.ops[0]) == {('param', 0, off)}:
                hooked.append(i)
                return c
            return None

        def obs(i, env, ip):
            if i.op == 'call' and base_name(i.callee) == 'write_bits':
                seen.append((ip.val(i.args[1][1], env), ip.val(i.args[2][1], env), i))
        constinterp.Interp(mod, f, obs, load_hook=hook).run()
        if not hooked:
            raise AnalysisBroken('sync_flush does not read bitbuf.m_bit_count')
        if len(seen) != 1:
            R.fail(where, 'c = %d: expected exactly one write_bits call, saw %d' % (c, len(seen)), key='T-SYNC-MARKER|%d|n' % c)
            continue
        v, n, ins = seen[0]
        if v == constinterp.TOP or n == constinterp.TOP:
            R.fail(mod.where(f, ins), 'c = %d: the marker bits depend on more than the number of pending bits' % c, key='T-SYNC-MARKER|%d|top' % c)
            continue
        v &= (1 << 64) - 1
        ok = (c + n) % 8 == 0 and 35 <= n <= 42 and v == (0xFFFF << (n - 16))
        R.check(ok, mod.where(f, ins), 'with %d bits pending sync_flush writes %#x in %d bits: expected 3 zero header bits, zero padding to the byte boundary (%d bits in all before LEN), then 0000 FFFF, i.e. %#x in %d bits'
                % (c, v, n, (8 - (c + 3) % 8) % 8 + 3, 0xFFFF << ((8 - (c + 3) % 8) % 8 + 3 + 16), (8 - (c + 3) % 8) % 8 + 3 + 32), key='T-SYNC-MARKER|%d' % c,
                sample='c=%d: %#x / %d bits' % (c, v, n))


def check_full_flush(rep, mod, K):
    R = rep.rule('R-FULLFLUSH-HIST', '(a) sync_flush with flush == FULL_FLUSH: every path from the block that writes the marker to the return stores IGZIP_NO_HIST into has_hist (control-flow graph partially evaluated for that '
                 'flush value); (b) isal_deflate: a test has_hist == IGZIP_NO_HIST dominates every call that compresses (isal_deflate_int) and its true arm calls reset_match_history before the join; '
                 '(c) isal_deflate_stateless forces end_of_stream only when flush == NO_FLUSH (unreachable for FULL_FLUSH)', floor=3, unit='clauses')
    offs = c19.field_offsets('struct isal_zstream', ['flush', 'internal_state.has_hist', 'end_of_stream'])
    # (a)
    f = mod.funcs.get('sync_flush')
    if f is None:
        raise AnalysisBroken('sync_flush not found')
    R.instance()
    P = irrules.prov(mod, f)
    ev, succ, reach = partial_cfg(mod, f, 0, offs['flush'])
    wb = [i for i in f.all_insns() if i.op == 'call' and base_name(i.callee) == 'write_bits']
    if len(wb) != 1:
        raise AnalysisBroken('sync_flush: expected one write_bits call')
    clears = {i.block for i in f.all_insns() if i.op == 'store' and P.atoms(i.ops[1]) == {('param', 0, offs['internal_state.has_hist'])} and i.ops[0] == str(K['IGZIP_NO_HIST'])}
    B = wb[0].block
    r = reach(B, K['FULL_FLUSH'], avoid=clears) if B not in clears else set()
    esc = [b for b in r if f.blocks[b].insns[-1].op == 'ret']
    R.check(not esc, mod.where(f, wb[0]), 'with flush == FULL_FLUSH the return is reachable from the marker write without storing IGZIP_NO_HIST into has_hist (via %s): blocks after a full flush may then contain matches into data '
            'before the flush point' % sorted(r)[:6], key='R-FULLFLUSH-HIST|a', sample='sync_flush: FULL_FLUSH -> has_hist = IGZIP_NO_HIST on every path')
    # (b)
    g = mod.funcs.get('isal_deflate')
    if g is None:
        raise AnalysisBroken('isal_deflate not found')
    R.instance()
    Pg = irrules.prov(mod, g)
    pd = g.postdominators()
    tests = []
    for b in g.order:
        t = g.blocks[b].insns[-1]
        if t.op != 'br' or not t.extra.get('cond'):
            continue
        c = g.defs.get(t.extra['cond'])
        if c is None or c.op != 'icmp' or c.extra['pred'] not in ('eq', 'ne'):
            continue
        d = g.defs.get(irrules._strip(g, c.ops[0]))
        if d is not None and d.op == 'load' and Pg.atoms(d.ops[0]) == {('param', 0, offs['internal_state.has_hist'])} and c.ops[1] == str(K['IGZIP_NO_HIST']):
            tt, tf = t.extra['targets']
            tests.append((b, tt if c.extra['pred'] == 'eq' else tf))
    comp = [i for i in g.all_insns() if i.op == 'call' and base_name(i.callee) == 'isal_deflate_int']
    if not comp:
        raise AnalysisBroken('isal_deflate: no call of isal_deflate_int')
    ok = False
    for b, arm in tests:
        if not all(g.dominates(b, i.block) for i in comp):
            continue
        # the true arm up to the join of b contains the reset
        cands = pd.get(b, set()) - {b}
        J = None
        for c_ in cands:
            if c_ != '#exit' and all(o == c_ or o == '#exit' or o in pd.get(c_, set()) for o in cands):
                J = c_
        seen, work = set(), [arm]
        while work:
            x = work.pop()
            if x in seen or x == J:
                continue
            seen.add(x)
            t = g.blocks[x].insns[-1]
            work += list(t.extra.get('targets', [])) if t.op == 'br' else []
        resets = [i for x in seen for i in g.blocks[x].insns if i.op == 'call' and base_name(i.callee) == 'reset_match_history']
        # the reset must lie on every path through the arm: the arm's entry block or a block that post-dominates it
        if any(i.block == arm or i.block in pd.get(arm, set()) for i in resets):
            ok = True
    R.check(ok, 'igzip/igzip.c:isal_deflate', 'no test "has_hist == IGZIP_NO_HIST" that dominates every isal_deflate_int call and whose true arm always calls reset_match_history: after a full flush the hash tables still '
            'hold positions before the flush point', key='R-FULLFLUSH-HIST|b', sample='isal_deflate: NO_HIST -> reset_match_history before compressing')
    # (c)
    h = mod.funcs.get('isal_deflate_stateless')
    if h is None:
        raise AnalysisBroken('isal_deflate_stateless not found')
    R.instance()
    Ph = irrules.prov(mod, h)
    ev, succ, reach = partial_cfg(mod, h, 0, offs['flush'])
    st = [i for i in h.all_insns() if i.op == 'store' and Ph.atoms(i.ops[1]) == {('param', 0, offs['end_of_stream'])}]
    if not st:
        raise AnalysisBroken('isal_deflate_stateless does not store end_of_stream')
    rf = reach(h.order[0], K['FULL_FLUSH'])
    rn = reach(h.order[0], K['NO_FLUSH'])
    R.check(all(i.block not in rf for i in st) and any(i.block in rn for i in st), mod.where(h, st[0]), 'end_of_stream is forced for a flush mode other than NO_FLUSH: a FULL_FLUSH one-shot call would terminate the deflate stream, '
            'so that the output of a following call cannot be appended', key='R-FULLFLUSH-HIST|c', sample='isal_deflate_stateless: end_of_stream = 1 only under NO_FLUSH')


def check_stored_flush_reset(rep, mod):
    """a full flush whose last block is written as a STORED block completes inside write_stored_block; sync_flush may never run in that call (the output can run out right behind the stored data), so the
    match history has to be reset there - and the test that decides it reads the state the completed block has just been given"""
    R = rep.rule('R-STORED-FLUSH-RESET', 'write_stored_block: the store that gives the machine its next state when a stored block is complete (a choice that includes ZSTATE_NEW_HDR) reaches, on a path without back edge, '
                 'the test state == ZSTATE_NEW_HDR that guards reset_match_history, and that call lies behind the test: after a FULL_FLUSH that ends in a stored block the match history is cleared before the '
                 'call returns', floor=1, unit='stored-block completions')
    f = mod.funcs.get('write_stored_block')
    if f is None:
        raise AnalysisBroken('write_stored_block not found')
    off = c19.field_offsets('struct isal_zstream', ['internal_state.state'])['internal_state.state']
    Kz, drop = mirror.c_values('default', ['igzip_lib.h'], [('NEW', 'ZSTATE_NEW_HDR')], 'c14_zs')
    if drop:
        raise AnalysisBroken('ZSTATE_NEW_HDR not found')
    P = irrules.prov(mod, f)
    cell = {('param', 0, off)}

    def consts(v, depth=0):
        if re.match(r'^-?\d+$', v):
            return {int(v)}
        d = f.defs.get(irrules._strip(f, v))
        if d is None or depth > 5:
            return set()
        if d.op == 'select':
            return consts(d.ops[1], depth + 1) | consts(d.ops[2], depth + 1)
        if d.op == 'phi':
            out = set()
            for x, _ in d.extra['incoming']:
                out |= consts(x, depth + 1)
            return out
        return set()
    stores = [i for i in f.all_insns() if i.op == 'store' and P.atoms(i.ops[1]) == cell and Kz['NEW'] in consts(i.ops[0]) and len(consts(i.ops[0])) > 1]
    calls = [i for i in f.all_insns() if i.op == 'call' and base_name(i.callee) == 'reset_match_history']
    tests = []
    for b, br, c in irrules.cond_branches(mod, f):
        if c is None or c.op != 'icmp' or c.extra['pred'] not in ('eq', 'ne') or not re.match(r'^\d+$', c.ops[1]) or int(c.ops[1]) != Kz['NEW']:
            continue
        d = f.defs.get(irrules._strip(f, c.ops[0]))
        if d is not None and d.op == 'load' and P.atoms(d.ops[0]) == cell:
            tests.append((b, d, br.extra['targets'][0 if c.extra['pred'] == 'eq' else 1]))
    if not stores or not calls:
        raise AnalysisBroken('write_stored_block: completion store / reset_match_history call not found')
    pos = {}
    for b in f.order:
        for n, i in enumerate(f.blocks[b].insns):
            pos[id(i)] = (b, n)
    succ = {b: [t_ for t_ in (f.blocks[b].insns[-1].extra.get('targets') or []) if not f.dominates(t_, b)] for b in f.order}     # back edges removed

    def reach(src):
        seen, work = set(), list(succ.get(src, []))
        while work:
            x = work.pop()
            if x in seen:
                continue
            seen.add(x)
            work += succ.get(x, [])
        return seen

    def before(a, b_):
        (ba, na), (bb, nb) = pos[id(a)], pos[id(b_)]
        return (ba == bb and na < nb) or (ba != bb and bb in reach(ba))
    for s_ in stores:
        R.instance()
        ok = any(before(s_, ld) and any(f.dominates(arm, k.block) for k in calls) for _, ld, arm in tests)
        R.check(ok, mod.where(f, s_), 'write_stored_block stores the next state here, but no test "state == ZSTATE_NEW_HDR" guarding reset_match_history reads it afterwards (the test runs on the state the block had '
                'while it was being copied and is never true): a FULL_FLUSH that ends in a stored block with the output full leaves the match history in place', key='R-STORED-FLUSH-RESET', sample='next state stored, then tested, then history reset')


def check_hashmask_stable(rep, mod, K):
    """set_hash_mask may shrink the mask for a short segment, and reset_match_history then clears only that part of the table; the mask has to stay what the last reset used until the next reset"""
    R = rep.rule('R-HASHMASK-STABLE', 'isal_deflate with has_hist == IGZIP_HIST (control-flow graph partially evaluated for that value: a continuation call inside a segment whose history is established): no call of '
                 'set_hash_mask / set_dist_mask is reachable before the compression body - the masks change only together with a reset of the match history, so buckets outside a shrunken mask, which the last reset '
                 'did not clear and which may still point before the last full flush, are never looked up', floor=1, unit='continuation entries')
    f = mod.funcs.get('isal_deflate')
    if f is None:
        raise AnalysisBroken('isal_deflate not found')
    off = c19.field_offsets('struct isal_zstream', ['internal_state.has_hist'])['internal_state.has_hist']
    ev, succ, reach = partial_cfg(mod, f, 0, off)
    ints = {i.block for i in f.all_insns() if i.op == 'call' and base_name(i.callee) == 'isal_deflate_int'}
    setters = [i for i in f.all_insns() if i.op == 'call' and base_name(i.callee) in ('set_hash_mask', 'set_dist_mask')]
    if not ints or not setters:
        raise AnalysisBroken('isal_deflate: calls of isal_deflate_int / set_hash_mask not found')
    R.instance()
    r = reach(f.order[0], K['IGZIP_HIST'], avoid=ints) | {f.order[0]}
    bad = [i for i in setters if i.block in r]
    R.check(not bad, mod.where(f, bad[0]) if bad else mod.where(f, setters[0]), 'isal_deflate calls %s on a continuation call (has_hist == IGZIP_HIST) before compressing: the hash mask grows back over buckets the last '
            'reset_match_history did not clear' % (base_name(bad[0].callee) if bad else ''), key='R-HASHMASK-STABLE', sample='%d mask setters, none reachable when has_hist == IGZIP_HIST' % len(setters))


def check_mask_width(rep, mod):
    """clearing BFINAL in a 64-bit word of header bits with a 32-bit complement mask wipes the upper half of the word"""
    R = rep.rule('L-MASK-WIDTH', 'no 64-bit value anywhere in the library is AND-ed with a constant in [2^31, 2^32): such a constant is a complement mask computed in 32 bits and zero-extended (x &= ~1u on a uint64_t), '
                 'which clears bits 32..63 together with the intended bit - e.g. bytes 4..7 of the dynamic header held in header_bits when BFINAL is cleared', floor=1, unit='library scans')
    R.instance()
    if not irrules.is_narrow_mask_const(0xfffffffe) or irrules.is_narrow_mask_const(0xfffffffffffffffe):
        raise AnalysisBroken('L-MASK-WIDTH self-test failed')
    n64 = sum(1 for f in mod.funcs.values() for i in f.all_insns() if i.op == 'and' and (i.ty or '') == 'i64')
    if n64 < 25:
        raise AnalysisBroken('L-MASK-WIDTH: only %d 64-bit AND instructions seen' % n64)
    hits = irrules.narrow_masks(mod)
    for f, i, c in hits:
        R.fail(mod.where(f, i), '%s: 64-bit value AND-ed with %#x: the upper 32 bits are cleared as well (a complement mask taken in 32 bits)' % (f.name, c), key='L-MASK-WIDTH|%s|%d' % (f.name, i.line or 0))
    if not hits:
        R.ok(sample='%d 64-bit AND instructions, none with a zero-extended 32-bit complement mask' % n64)


def check_flush_reaches_int(rep, mod, K):
    """a flush request is only honoured by the state machine behind isal_deflate_int (which reaches sync_flush); a path through isal_deflate that returns success
    for a SYNC_FLUSH / FULL_FLUSH call without entering it (a 'nothing to do' shortcut) completes the call without marker or history reset"""
    R = rep.rule('R-FLUSH-REACHES-INT', 'isal_deflate with flush == SYNC_FLUSH or FULL_FLUSH (control-flow graph partially evaluated for that value): every path to the return that does not come from a non-zero error '
                 'exit passes through the call of isal_deflate_int - no shortcut returns success for a flush request without running the state machine that writes the marker and clears the history', floor=2, unit='flush modes')
    f = mod.funcs.get('isal_deflate')
    if f is None:
        raise AnalysisBroken('isal_deflate not found')
    off = c19.field_offsets('struct isal_zstream', ['flush'])['flush']
    ev, succ, reach = partial_cfg(mod, f, 0, off)
    ints = {i.block for i in f.all_insns() if i.op == 'call' and base_name(i.callee) == 'isal_deflate_int'}
    if not ints:
        raise AnalysisBroken('isal_deflate does not call isal_deflate_int')
    ret = [i for i in f.all_insns() if i.op == 'ret'][0]
    d = f.defs.get(ret.ops[0])
    if d is None or d.op != 'phi':
        raise AnalysisBroken('isal_deflate: return value is not a phi over exits')
    for name in ('SYNC_FLUSH', 'FULL_FLUSH'):
        R.instance()
        r = reach(f.order[0], K[name], avoid=ints)
        bad = []
        for v, blk in d.extra['incoming']:
            if blk not in r:
                continue
            # an error exit: a non-zero constant, or the result of a validation call tested non-zero on the way
            if re.match(r'^-?\d+$', v) and int(v) != 0:
                continue
            dv = f.defs.get(v)
            if dv is not None and dv.op == 'call' and base_name(dv.callee) != 'isal_deflate_int':
                t = f.blocks[dv.block].insns[-1]
                c = f.defs.get(t.extra.get('cond', '')) if t.op == 'br' else None
                if c is not None and c.op == 'icmp' and irrules._strip(f, c.ops[0]) == v and c.ops[1] == '0':
                    tt, tf = t.extra['targets']
                    nz = tt if c.extra['pred'] == 'ne' else tf
                    if nz == blk or f.dominates(nz, blk):
                        continue
            bad.append((v, blk))
        R.check(not bad, mod.where(f, ret), 'with flush == %s isal_deflate can return %s from block %s without having called isal_deflate_int: the flush request is reported complete although no marker was written '
                'and, for a full flush, the match history was not cleared' % (name, bad[0][0] if bad else '', bad[0][1] if bad else ''), key='R-FLUSH-REACHES-INT|' + name, sample='%s: every success return runs the state machine' % name)


def check_drain_continues(rep, mod, K):
    """isal_deflate_int first hands out what an earlier call left in the 16-byte temporary output buffer.  When that is done and output space is left, the call has to go on with
    the state machine - the caller may have brought new input and a flush request; giving up there returns a call that looks complete without having looked at its input."""
    import c19
    R = rep.rule('R-DRAIN-CONTINUES', 'isal_deflate_int: a return that is reached without running isal_deflate_pass / isal_deflate_icf_pass lies behind an edge that established avail_out == 0 or state == ZSTATE_END '
                 '(with those edges removed, and the blocks that call a pass function removed, no return is reachable from the entry): after draining the temporary output the call goes on whenever it can',
                 floor=1, unit='functions')
    f = mod.funcs.get('isal_deflate_int')
    if f is None:
        raise AnalysisBroken('isal_deflate_int not found')
    R.instance()
    P = irrules.prov(mod, f)
    zo = c19.field_offsets('struct isal_zstream', ['avail_out', 'internal_state.state'])
    END = mirror.c_values('default', ['igzip_lib.h'], [('END', 'ZSTATE_END')], 'c14_end')[0]['END']
    just = set()
    for b, t, c in irrules.cond_branches(mod, f):
        if c is None or c.op != 'icmp' or c.extra['pred'] not in ('eq', 'ne') or not re.match(r'^\d+$', c.ops[1]):
            continue
        d = f.defs.get(irrules._strip(f, c.ops[0]))
        if d is None or d.op != 'load':
            continue
        at = P.atoms(d.ops[0])
        k = int(c.ops[1])
        tt, tf = t.extra['targets']
        hit = (at == {('param', 0, zo['avail_out'])} and k == 0) or (at == {('param', 0, zo['internal_state.state'])} and k == END)
        if hit:
            just.add((b, tt if c.extra['pred'] == 'eq' else tf))
    passblocks = {i.block for i in f.all_insns() if i.op == 'call' and i.callee in ('isal_deflate_pass', 'isal_deflate_icf_pass')}
    if not passblocks or not just:
        raise AnalysisBroken('isal_deflate_int: pass calls / guarding tests not found (%d / %d)' % (len(passblocks), len(just)))
    seen, work = set(), [f.entry()]
    while work:
        b = work.pop()
        if b in seen or b in passblocks:
            continue
        seen.add(b)
        work += [s_ for s_ in f.blocks[b].succs if (b, s_) not in just]
    rets = [b for b in seen if f.blocks[b].insns[-1].op == 'ret']
    # a function with a single return block reaches it from everywhere: look at the predecessors that jump to it instead
    bad = []
    for rb in rets:
        for pb in f.blocks[rb].preds:
            if pb in seen and (pb, rb) not in just and pb not in passblocks:
                # is pb on a path that ran a pass?  (blocks after a pass call are reachable only through passblocks, which were removed)
                bad.append(pb)
    R.check(not bad, mod.where(f, f.blocks[bad[0]].insns[-1]) if bad else mod.where(f, None), 'isal_deflate_int can return from block %s without having run a pass of the state machine although neither '
            'avail_out == 0 nor state == ZSTATE_END was established: input and a flush request that came with this call are ignored, and the call returns looking like a completed flush' % (bad[0] if bad else ''),
            key='R-DRAIN-CONTINUES|isal_deflate_int', sample='isal_deflate_int: early returns only behind avail_out == 0 / ZSTATE_END')


def check_retry_buffered(rep, mod):
    """isal_deflate works from its internal buffer when the caller's pieces are small: the input is copied (and counted as consumed), then a pass of the state machine runs.  A pass
    that is entered with the marker of an EARLIER flush still pending only completes that marker.  The loop around the pass therefore has to be able to run again although the
    caller's avail_in is 0 - otherwise the call returns with avail_in == 0, avail_out > 0 and state ZSTATE_NEW_HDR (what the header calls a completed flush) while the bytes of
    this call sit unprocessed in the buffer."""
    import c19
    R = rep.rule('R-RETRY-BUFFERED', 'isal_deflate: the loop around isal_deflate_int can repeat without new input from the caller: with the true edges of every "stream->avail_in > 0 / != 0" test inside the '
                 'loop removed, the loop header is still reachable from the call of isal_deflate_int (a pass that only completed an earlier flush is followed by one that compresses what this call buffered)',
                 floor=1, unit='retry loops')
    f = mod.funcs.get('isal_deflate')
    if f is None:
        raise AnalysisBroken('isal_deflate not found')
    P = irrules.prov(mod, f)
    ai = c19.field_offsets('struct isal_zstream', ['avail_in'])['avail_in']
    calls = [i for i in f.all_insns() if i.op == 'call' and i.callee == 'isal_deflate_int']
    if len(calls) != 1:
        raise AnalysisBroken('isal_deflate: expected one call of isal_deflate_int, found %d' % len(calls))
    loops = irrules.natural_loops(f)
    cand = [(h, body) for h, body in loops.items() if calls[0].block in body]
    if not cand:
        raise AnalysisBroken('isal_deflate: the call of isal_deflate_int is not inside a loop')
    h, body = min(cand, key=lambda hb: len(hb[1]))
    R.instance()
    cut = set()
    for b, t, c in irrules.cond_branches(mod, f):
        if b not in body or c is None or c.op != 'icmp' or c.ops[1] != '0' or c.extra['pred'] not in ('ugt', 'ne'):
            continue
        d = f.defs.get(irrules._strip(f, c.ops[0]))
        if d is not None and d.op == 'load' and P.atoms(d.ops[0]) == {('param', 0, ai)}:
            cut.add((b, t.extra['targets'][0]))
    if not cut:
        raise AnalysisBroken('isal_deflate: no test of stream->avail_in > 0 inside the retry loop')
    seen, work = set(), [(calls[0].block, None)]
    back = False
    while work:
        b, frm = work.pop()
        if (b, frm) in seen:
            continue
        seen.add((b, frm))
        succs = list(f.blocks[b].succs)
        t = f.blocks[b].insns[-1]
        cd = f.defs.get(t.extra.get('cond', '')) if t.op == 'br' and t.extra.get('cond') else None
        if cd is not None and cd.op == 'phi' and cd.block == b and frm is not None:
            # the merge block of a short-circuit && / ||: on the edge from a failed test the condition is the constant that edge carries
            inc = [v for v, pb in cd.extra['incoming'] if pb == frm]
            if inc and inc[0] in ('false', '0'):
                succs = [t.extra['targets'][1]]
            elif inc and inc[0] in ('true', '1'):
                succs = [t.extra['targets'][0]]
        for s_ in succs:
            if (b, s_) in cut or s_ not in body:
                continue
            if s_ == h:
                back = True
            work.append((s_, b))
    R.check(back, mod.where(f, calls[0]), 'isal_deflate: the loop around isal_deflate_int repeats only while the caller\'s avail_in is non-zero.  Input that this call copied into the internal buffer is left '
            'uncompressed when the pass merely completed an earlier flush marker: the call returns avail_in == 0, avail_out > 0, state ZSTATE_NEW_HDR - "all input has been flushed" according to igzip_lib.h - and '
            'the output so far does not decode to everything fed so far', key='R-RETRY-BUFFERED|isal_deflate', sample='isal_deflate: the retry loop has a path back to its header that does not need avail_in > 0')


def main(tier):
    rep = Report('C14', tier, level='other')
    rep.undecided = UNDECIDED
    rep.explanation = ('Constant propagation through sync_flush partitioned on the number of pending bits (all eight values) decides the exact marker bit pattern and its byte alignment; partial evaluation of the control-flow '
                       'graphs of sync_flush and isal_deflate_stateless for each flush mode, plus dominance / post-dominance in isal_deflate, decide that a full flush clears and then resets the match history and that a '
                       'one-shot full-flush call leaves the stream unterminated. Necessary conditions that hold or fail for every input at once.')
    rep.trusted = ['clang IR + sroa', 'tools/constinterp.py', 'tools/llir.py dominators / post-dominators']
    mod = llir.library('default')
    K, drop = mirror.c_values('default', ['igzip_lib.h'], [(n, n) for n in ('NO_FLUSH', 'SYNC_FLUSH', 'FULL_FLUSH', 'IGZIP_NO_HIST', 'IGZIP_HIST')], 'c14b')
    if drop:
        raise AnalysisBroken('constants missing: %s' % drop)
    rep.attempt(check_marker, rep, mod, K)
    rep.attempt(check_full_flush, rep, mod, K)
    rep.attempt(check_stored_flush_reset, rep, mod)
    rep.attempt(check_hashmask_stable, rep, mod, K)
    rep.attempt(check_mask_width, rep, mod)
    rep.attempt(check_flush_reaches_int, rep, mod, K)
    rep.attempt(check_retry_buffered, rep, mod)
    rep.attempt(check_drain_continues, rep, mod, K)
    import c17
    rep.attempt(c17.check_masked_nohist, rep, mod)
    rep.attempt(c17.check_hist_after_space, rep)      # after a full flush has_hist is IGZIP_NO_HIST again: the mask-only finder must not look the first position up
    return rep.finish()
