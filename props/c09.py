"""C09 - any k fragments recover the data; matrix inversion exact.  Decided (structural clauses only):
the two generator functions write an identity top block and, below it, exactly the documented coefficient formulas at the documented
positions (closed forms of the store addresses from LLVM's scalar evolution, polynomial identity against k*i + j); gf_invert_matrix
starts from the identity, applies every elementary row operation identically to both matrices with the same multiplier (1/pivot for
the scaling, the column entry for the elimination, rows i and j != i), and reports a singular matrix exactly when the pivot search
ran off the end.  Invertibility of the Cauchy / Vandermonde minors and the arithmetic results are not decided."""
import re
from common import Report, AnalysisBroken
import scev
from scev import padd, pmul, pvar, pconst, canon, pfmt

UNDECIDED = ('that the Cauchy and the documented Vandermonde (m, k) choices make every k x k minor invertible, that Gauss-Jordan elimination as coded yields the exact inverse for every non-singular input, '
             'and the recovery of erased blocks (algebra over run-time matrices)')


def base_name(n):
    return re.sub(r'\.\d+$', '', n or '')


class Fn:
    def __init__(self, A, name, assume):
        self.mod = A['#module']
        self.f = self.mod.funcs.get(name)
        if self.f is None or name not in A:
            raise AnalysisBroken(name + ' not found')
        self.S = A[name]
        self.assume_src = assume
        self.params = [n for _, n in self.f.params]

    def assume(self):
        out = {}
        for op, a, b, pick in self.assume_src:
            out[(op, canon(scev.parse(a)), canon(scev.parse(b)))] = pick
        return out

    def poly(self, v):
        if re.match(r'^-?\d+$', v):
            return pconst(int(v))
        s = self.S['vals'].get(v)
        if s is None or s == v:
            return pvar(v)
        try:
            return scev.parse(s, self.assume())
        except AnalysisBroken:
            return pvar(v)

    def addr(self, v):
        """(base parameter, index polynomial) of a pointer value"""
        p = self.poly(v)
        bases = [k for k in p if len(k) == 1 and k[0] in self.params and p[k] == 1 and any(t.endswith('*') for t, n in self.f.params if n == k[0])]
        if len(bases) != 1:
            return None, p
        q = dict(p)
        del q[bases[0]]
        return bases[0][0], q

    def count(self, loop):
        s = self.S['counts'].get(loop)
        if s is None:
            return None
        try:
            return scev.parse(s, self.assume())
        except AnalysisBroken:
            return None

    def loop_of(self, block):
        """innermost loop header containing `block` (natural loops of the module function)"""
        import irrules
        loops = irrules.natural_loops(self.f)
        best = None
        for h, L in loops.items():
            if block in L and (best is None or len(L) < len(loops[best])):
                best = h
        return best

    def expr(self, v, inloop, depth=0):
        """expression tree of an i8 value; loads inside the loop `inloop` become ('ld', base, index poly), everything defined outside is opaque"""
        if re.match(r'^-?\d+$', v):
            return ('c', int(v))
        d = self.f.defs.get(v)
        if d is None or depth > 12:
            return ('ssa', v)
        if inloop is not None and self.loop_of(d.block) != inloop:
            return ('ssa', v)
        if d.op in ('zext', 'sext', 'trunc', 'freeze', 'bitcast'):
            return self.expr(d.ops[0], inloop, depth + 1)
        if d.op == 'load':
            b, ix = self.addr(d.ops[0])
            return ('ld', b, canon(ix))
        if d.op == 'xor':
            return ('xor',) + tuple(sorted([self.expr(d.ops[0], inloop, depth + 1), self.expr(d.ops[1], inloop, depth + 1)], key=str))
        if d.op == 'call' and base_name(d.callee) in ('gf_mul', 'gf_inv'):
            args = [self.expr(a[1], inloop, depth + 1) for a in d.args]
            return (base_name(d.callee),) + (tuple(sorted(args, key=str)) if base_name(d.callee) == 'gf_mul' else tuple(args))
        return ('ssa', v)


def rename(t, a, b):
    if isinstance(t, tuple):
        if t and t[0] == 'ld' and t[1] == a:
            return ('ld', b, t[2])
        return tuple(rename(x, a, b) for x in t)
    return t


def check_generators(rep, A):
    R = rep.rule('G-GEN-FORMULA', 'gf_gen_cauchy1_matrix / gf_gen_rs_matrix (store addresses as closed forms from LLVM scalar evolution, compared as polynomials): the whole k x m area is cleared, a[(k+1)*i] = 1 for i in [0,k) '
                 '(identity top block), and for i in [k,m), j in [0,k) the byte at a + k*i + j receives 1/(i xor j) (Cauchy) resp. the running product p with p0 = 1, p <- p*gen per column, gen0 = 1, gen <- gen*2 per row '
                 '(Vandermonde with generator 2, as documented in erasure_code.h)', floor=9, unit='clauses')
    for name in ('gf_gen_cauchy1_matrix', 'gf_gen_rs_matrix'):
        F = Fn(A, name, [('smax', '0', '%k', 1), ('smax', '%m', '%k', 0)])
        f = F.f
        where = 'erasure_code/ec_base.c:' + name
        k, m, a = pvar('%k'), pvar('%m'), '%a'
        # clear
        R.instance()
        ms = [i for i in f.all_insns() if i.op == 'call' and (i.callee or '').startswith('llvm.memset')]
        ok = len(ms) == 1 and F.addr(ms[0].args[0][1]) == (a, {}) and ms[0].args[1][1] == '0' and canon(F.poly(ms[0].args[2][1])) == canon(pmul(k, m))
        R.check(ok, where, 'the matrix is not cleared as memset(a, 0, k*m) before it is filled', key='G-GEN-FORMULA|%s|clear' % name, sample='%s: memset(a, 0, k*m)' % name)
        stores = [i for i in f.all_insns() if i.op == 'store']
        # identity
        R.instance()
        ident = [i for i in stores if i.ops[0] == '1']
        ok = False
        for i in ident:
            b, ix = F.addr(i.ops[1])
            L = F.loop_of(i.block)
            n1 = pvar('n%' + L) if L else None
            if b == a and L and canon(ix) == canon(pmul(padd(k, pconst(1)), n1)) and canon(F.count('%' + L) or {}) == canon(k):
                ok = True
        R.check(ok, where, 'no store of 1 at a[(k+1)*i] for i = 0..k-1: the top k x k block is not the identity', key='G-GEN-FORMULA|%s|identity' % name, sample='%s: a[(k+1)*i] = 1, i < k' % name)
        # coefficient store
        coef = [i for i in stores if i.ops[0] != '1']
        if len(coef) != 1:
            raise AnalysisBroken('%s: expected one coefficient store, found %d' % (name, len(coef)))
        st = coef[0]
        b, ix = F.addr(st.ops[1])
        inner = F.loop_of(st.block)
        import irrules
        loops = irrules.natural_loops(f)
        outer = [h for h, L in loops.items() if inner in L and h != inner]
        if not inner or len(outer) != 1:
            raise AnalysisBroken('%s: loop nest of the coefficient store not recognised' % name)
        outer = outer[0]
        ni, nj = pvar('n%' + outer), pvar('n%' + inner)
        row = padd(k, ni)          # i = k + n_outer
        # the pointer-walking form: p advances by the inner trip count per row
        if b is None:
            d = f.defs.get(st.ops[1])
            # address {p.0,+,1}<inner> with p.0 = phi [init, pre], [exit of the inner recurrence]
            s = F.S['vals'].get(st.ops[1], '')
            mm = re.match(r'^\{(%[\w.]+),\+,1\}(?:<[^>]*>)*<%' + re.escape(inner) + r'>$', s)
            if mm:
                p0 = f.defs.get(mm.group(1))
                if p0 is not None and p0.op == 'phi':
                    init = [v for v, pb in p0.extra['incoming'] if pb not in loops[outer]]
                    back = [v for v, pb in p0.extra['incoming'] if pb in loops[outer]]
                    if len(init) == 1 and len(back) == 1:
                        bi, ixi = F.addr(init[0])
                        ex = F.S['exits'].get(back[0]) or F.S['exits'].get(st.ops[1])
                        # step per outer iteration = exit value of the inner pointer - p.0
                        try:
                            exv = scev.parse(F.S['exits'][back[0]], F.assume()) if back[0] in F.S['exits'] else None
                        except AnalysisBroken:
                            exv = None
                        if exv is not None and bi == a:
                            step = padd(exv, pvar(mm.group(1)), -1)
                            b, ix = a, padd(padd(ixi, pmul(step, ni)), nj)
        R.instance()
        want = padd(pmul(k, row), nj)
        R.check(b == a and canon(ix) == canon(want), mod_where(F, st), '%s: the coefficient of row i = k + n_row, column j = n_col is stored at a + %s; the documented layout is a + k*i + j = a + %s' %
                (name, pfmt(ix) if b == a else 'an address not based on a', pfmt(want)), key='G-GEN-FORMULA|%s|addr' % name, sample='%s: address a + k*i + j' % name)
        R.instance()
        ci, cj = F.count('%' + outer), F.count('%' + inner)
        R.check(ci is not None and cj is not None and canon(ci) == canon(padd(m, k, -1)) and canon(cj) == canon(k), where, '%s: the fill loops run %s rows and %s columns, documented: m - k rows of k columns' %
                (name, pfmt(ci) if ci is not None else '?', pfmt(cj) if cj is not None else '?'), key='G-GEN-FORMULA|%s|ranges' % name, sample='%s: rows k..m-1, columns 0..k-1' % name)
        # value
        R.instance()
        if name == 'gf_gen_cauchy1_matrix':
            e = F.expr(st.ops[0], None)
            ok = False
            if e[0] == 'gf_inv':
                arg = e[1]
                d = f.defs.get(arg[1]) if arg[0] == 'ssa' else None
                # trunc(xor(i, j)) was collapsed by expr(): rebuild from the call's argument
                call = f.defs.get(re.sub(r'^.*$', st.ops[0], st.ops[0]))
                v = f.defs.get(st.ops[0])
                x = v.args[0][1] if v is not None and v.op == 'call' else None
                for _ in range(4):
                    dx = f.defs.get(x) if x else None
                    if dx is not None and dx.op in ('trunc', 'zext', 'sext'):
                        x = dx.ops[0]
                    else:
                        break
                dx = f.defs.get(x) if x else None
                if dx is not None and dx.op == 'xor':
                    ps = sorted([canon(F.poly(dx.ops[0])), canon(F.poly(dx.ops[1]))], key=str)
                    ok = ps == sorted([canon(row), canon(nj)], key=str)
            R.check(ok, mod_where(F, st), 'the value stored is not gf_inv(i xor j) with i the row and j the column index', key='G-GEN-FORMULA|cauchy|value', sample='cauchy: a[k*i+j] = gf_inv(i ^ j)')
        else:
            # p: phi [1, outer body], [gf_mul(p, gen), inner latch]; gen: phi [1, pre], [gf_mul(gen, 2), outer latch]
            v = st.ops[0]
            d = f.defs.get(v)
            ok = False
            why = 'the stored value is not a loop-carried product'
            if d is not None and d.op == 'phi' and F.loop_of(d.block) == inner:
                inc = dict((pb in loops[inner], val) for val, pb in d.extra['incoming'])
                nxt = f.defs.get(inc.get(True, ''))
                if inc.get(False) == '1' and nxt is not None and nxt.op == 'call' and base_name(nxt.callee) == 'gf_mul' and v in [x[1] for x in nxt.args]:
                    gen = [x[1] for x in nxt.args if x[1] != v]
                    g = f.defs.get(gen[0]) if gen else None
                    if g is not None and g.op == 'phi' and F.loop_of(g.block) == outer:
                        ginc = dict((pb in loops[outer], val) for val, pb in g.extra['incoming'])
                        gn = f.defs.get(ginc.get(True, ''))
                        if ginc.get(False) == '1' and gn is not None and gn.op == 'call' and base_name(gn.callee) == 'gf_mul' and sorted(x[1] for x in gn.args) == sorted([gen[0], '2']):
                            ok = True
                        elif ginc.get(False) == '1' and is_inline_mul2(f, ginc.get(True, ''), gen[0]):
                            ok = True
                        else:
                            why = 'the row generator is not gen0 = 1, gen <- 2*gen in GF(2^8)/0x11D (gf_mul(gen, 2) or the shift-and-reduce idiom with 0x1d)'
                    else:
                        why = 'the column multiplier is not carried by the row loop'
                else:
                    why = 'the running product is not p0 = 1, p <- gf_mul(p, gen)'
            R.check(ok, mod_where(F, st), 'gf_gen_rs_matrix: %s' % why, key='G-GEN-FORMULA|rs|value', sample='rs: p0 = 1, p <- p*gen; gen0 = 1, gen <- gen*2')


def is_inline_mul2(f, v, g):
    """v == (g << 1) ^ (g & 0x80 ? 0x1d : 0) on 8 bits, modulo the integer promotions"""
    def strip(x):
        d = f.defs.get(x)
        while d is not None and d.op in ('zext', 'sext', 'trunc', 'freeze'):
            x = d.ops[0]
            d = f.defs.get(x)
        return x
    d = f.defs.get(strip(v))
    if d is None or d.op != 'xor':
        return False
    parts = [f.defs.get(strip(o)) for o in d.ops]
    shl = [p for p in parts if p is not None and p.op == 'shl' and p.ops[1] == '1' and strip(p.ops[0]) == strip(g)]
    sel = [p for p in parts if p is not None and p.op == 'select']
    if len(shl) != 1 or len(sel) != 1:
        return False
    c = f.defs.get(sel[0].ops[0])
    vals = sorted(sel[0].ops[1:])
    if c is None or c.op != 'icmp' or vals != ['0', '29']:
        return False
    # the condition tests bit 7 of g: (g & 0x80) != 0 or g < 0 as a signed byte
    a = f.defs.get(strip(c.ops[0]))
    nonzero_gives = sel[0].ops[1] if c.extra['pred'] == 'ne' else sel[0].ops[2] if c.extra['pred'] == 'eq' else None
    if a is not None and a.op == 'and' and '128' in a.ops and strip([o for o in a.ops if o != '128'][0]) == strip(g) and c.ops[1] == '0':
        return nonzero_gives == '29'
    if c.extra['pred'] == 'slt' and strip(c.ops[0]) == strip(g) and c.ops[1] == '0':
        return sel[0].ops[1] == '29'
    return False


def mod_where(F, i):
    return F.mod.where(F.f, i)


def check_invert(rep, A):
    F = Fn(A, 'gf_invert_matrix', [('smax', '0', '%n', 1)])
    f = F.f
    import irrules
    loops = irrules.natural_loops(f)
    n = pvar('%n')
    IN, OUT = f.params[0][1], f.params[1][1]
    where = 'erasure_code/ec_base.c:gf_invert_matrix'
    R1 = rep.rule('R-INVERT-IDENT', 'gf_invert_matrix starts the result from the identity: out_mat[0 .. n*n) is cleared and out_mat[(n+1)*i] = 1 for i in [0,n)', floor=2, unit='clauses')
    stores = [i for i in f.all_insns() if i.op == 'store']
    R1.instance()
    ok = False
    for i in stores:
        b, ix = F.addr(i.ops[1])
        L = F.loop_of(i.block)
        if i.ops[0] == '0' and b == OUT and L and canon(ix) == canon(pvar('n%' + L)) and canon(F.count('%' + L) or {}) == canon(pmul(n, n)):
            ok = True
    R1.check(ok, where, 'out_mat is not cleared over all n*n entries before the elimination', key='R-INVERT-IDENT|clear', sample='out_mat[i] = 0, i < n*n')
    R1.instance()
    ok = False
    for i in stores:
        b, ix = F.addr(i.ops[1])
        L = F.loop_of(i.block)
        if i.ops[0] == '1' and b == OUT and L and canon(ix) == canon(pmul(padd(n, pconst(1)), pvar('n%' + L))) and canon(F.count('%' + L) or {}) == canon(n):
            ok = True
    R1.check(ok, where, 'out_mat does not get ones on its diagonal (i*(n+1), i < n)', key='R-INVERT-IDENT|diag', sample='out_mat[(n+1)*i] = 1, i < n')
    # ---- twin operations
    R2 = rep.rule('R-INVERT-TWIN', 'gf_invert_matrix: in every innermost loop of the elimination, the stores into in_mat and the stores into out_mat are the same elementary row operation - same element index (closed form) and the '
                  'same expression over the loop\'s own loads with in_mat and out_mat exchanged, the multiplier being the very same value computed outside the loop', floor=3, unit='row-operation loops')
    R3 = rep.rule('R-INVERT-STEP', 'gf_invert_matrix: the scaling multiplies row i by gf_inv(in_mat[i*(n+1)]) (one over the pivot); the elimination adds gf_mul(in_mat[j*n+i], row i) to row j, elementwise, for every j except j == i; '
                  'rows are swapped elementwise between i and the row the search found', floor=3, unit='row-operation loops')
    body_stores = {}
    outer = None
    for i in stores:
        if i.ops[0] in ('0', '1') and F.addr(i.ops[1])[0] == OUT and len([h for h, L in loops.items() if i.block in L]) == 1:
            continue
        L = F.loop_of(i.block)
        body_stores.setdefault(L, []).append(i)
    if len(body_stores) != 3:
        raise AnalysisBroken('gf_invert_matrix: expected three row-operation loops (swap, scale, eliminate), found %d' % len(body_stores))
    for L, sts in sorted(body_stores.items()):
        R2.instance()
        R3.instance()
        ops = {IN: set(), OUT: set()}
        for s in sts:
            b, ix = F.addr(s.ops[1])
            if b not in ops:
                R2.fail(mod_where(F, s), 'store to an address that is neither in in_mat nor in out_mat', key='R-INVERT-TWIN|%s|base' % L)
                continue
            ops[b].add((canon(ix), F.expr(s.ops[0], L)))
        twin = {(ix, rename(rename(rename(e, IN, '#'), OUT, IN), '#', OUT)) for ix, e in ops[IN]}
        R2.check(twin == ops[OUT] and ops[IN], mod_where(F, sts[0]), 'the operations on in_mat and on out_mat in the loop at %s differ: in_mat gets %s, out_mat gets %s - the two matrices no longer undergo the same row transformation, '
                 'so out_mat is not the inverse' % (L, sorted(show(x) for x in ops[IN]), sorted(show(x) for x in ops[OUT])), key='R-INVERT-TWIN|%s' % L, sample='loop %s: %d twin operations' % (L, len(ops[IN])))
        # what kind of operation
        outs = [h for h, LL in loops.items() if L in LL and h != L]
        top = max(outs, key=lambda h: len(loops[h])) if outs else None
        ni = pvar('n%' + top) if top else None
        nk = pvar('n%' + L)
        rowi = padd(pmul(n, ni), nk) if ni else None
        kinds = sorted(e[0] if isinstance(e, tuple) else '?' for _, e in ops[IN])
        good = False
        what = 'unrecognised row operation %s' % sorted(show(x) for x in ops[IN])
        if kinds == ['gf_mul']:
            (ix, e), = ops[IN]
            mult = [x for x in e[1:] if x[0] == 'ssa']
            tgt = [x for x in e[1:] if x[0] == 'ld']
            d = f.defs.get(mult[0][1]) if mult else None
            piv = None
            if d is not None and d.op == 'call' and base_name(d.callee) == 'gf_inv':
                x = d.args[0][1]
                dx = f.defs.get(x)
                while dx is not None and dx.op in ('zext', 'sext', 'trunc'):
                    x = dx.ops[0]
                    dx = f.defs.get(x)
                if dx is not None and dx.op == 'load':
                    piv = F.addr(dx.ops[0])
            good = ix == canon(rowi) and tgt and tgt[0] == ('ld', IN, ix) and piv is not None and piv[0] == IN and canon(piv[1]) == canon(pmul(padd(n, pconst(1)), ni))
            what = 'the scaling loop does not compute in_mat[i*n+j] = gf_mul(in_mat[i*n+j], gf_inv(in_mat[i*(n+1)]))'
        elif kinds == ['xor']:
            (ix, e), = ops[IN]
            mid = [h for h in outs if h != top]
            nj = pvar('n%' + mid[0]) if mid else None
            rowj = padd(pmul(n, nj), nk) if nj else None
            prod = [x for x in e[1:] if x[0] == 'gf_mul']
            tgt = [x for x in e[1:] if x[0] == 'ld']
            ok1 = rowj is not None and ix == canon(rowj) and tgt and tgt[0] == ('ld', IN, ix)
            ok2 = False
            if prod:
                src = [x for x in prod[0][1:] if x[0] == 'ld']
                mult = [x for x in prod[0][1:] if x[0] == 'ssa']
                dm = f.defs.get(mult[0][1]) if mult else None
                while dm is not None and dm.op in ('zext', 'sext', 'trunc'):
                    dm = f.defs.get(dm.ops[0])
                if src and src[0] == ('ld', IN, canon(rowi)) and dm is not None and dm.op == 'load':
                    mb, mix = F.addr(dm.ops[0])
                    ok2 = mb == IN and canon(mix) == canon(padd(pmul(n, nj), ni))
            # the j == i row is skipped
            skip = False
            if mid:
                for b in loops[mid[0]]:
                    t = f.blocks[b].insns[-1]
                    c = f.defs.get(t.extra.get('cond', '')) if t.op == 'br' else None
                    if c is not None and c.op == 'icmp' and c.extra['pred'] in ('eq', 'ne'):
                        pa, pb = canon(F.poly(c.ops[0])), canon(F.poly(c.ops[1]))
                        if {pa, pb} == {canon(nj), canon(ni)}:
                            tt, tf = t.extra['targets']
                            skip_tgt = tt if c.extra['pred'] == 'eq' else tf
                            skip = L not in _reach(f, skip_tgt, loops[mid[0]], stop=mid[0])
            good = ok1 and ok2 and skip
            what = 'the elimination loop does not compute row j ^= gf_mul(in_mat[j*n+i], row i) for every j != i (target %s, product %s, j == i skipped: %s)' % (ok1, ok2, skip)
        elif kinds == ['ld', 'ld']:
            # swap between row i and the row found by the search (index carried by the search loop's exit value)
            idxs = sorted(ix for ix, _ in ops[IN])
            exprs = {ix: e for ix, e in ops[IN]}
            a_, b_ = idxs
            good = exprs[a_] == ('ld', IN, b_) and exprs[b_] == ('ld', IN, a_) and canon(rowi) in (a_, b_)
            what = 'the swap loop does not exchange in_mat[i*n+k] with the element of the found row'
        R3.check(good, mod_where(F, sts[0]), what, key='R-INVERT-STEP|%s' % L, sample='loop %s: %s' % (L, kinds))
    # ---- singular
    R4 = rep.rule('R-INVERT-SINGULAR', 'gf_invert_matrix returns -1 exactly where the pivot search over the rows below i ran to n without finding a non-zero entry in column i (the search loop\'s only other exit depends on '
                  'in_mat[j*n+i]); every other return is 0', floor=1, unit='functions')
    R4.instance()
    ret = [i for i in f.all_insns() if i.op == 'ret'][0]
    d = f.defs.get(ret.ops[0])
    ok = False
    why = 'the return value is not a choice between -1 and 0'
    if d is not None and d.op == 'phi':
        inc = {v: pb for v, pb in d.extra['incoming']}
        if set(inc) == {'-1', '0'}:
            blk = inc['-1']
            preds = f.blocks[blk].preds
            why = 'the -1 return is not guarded by "search index == n"'
            if len(preds) == 1:
                t = f.blocks[preds[0]].insns[-1]
                c = f.defs.get(t.extra.get('cond', '')) if t.op == 'br' else None
                if c is not None and c.op == 'icmp' and c.extra['pred'] in ('eq', 'ne') and canon(F.poly(c.ops[1])) == canon(n):
                    tt, tf = t.extra['targets']
                    if (tt if c.extra['pred'] == 'eq' else tf) == blk:
                        # the compared value is the search loop's index; the loop's data exit reads in_mat[j*n+i]
                        P = irrules.prov(F.mod, f)
                        dex = irrules.data_exits(F.mod, f, lambda dep: dep[0] == 'mem')
                        ok = bool(dex)
                        why = 'the pivot search has no exit on a non-zero matrix entry'
                        # the search must look at every row below i: its counting exit compares the same index with n
                        if ok:
                            sloops = {F.loop_of(b) for b, tgt, tt_ in dex}
                            sloops.discard(None)
                            rng_ok = False
                            for h in sloops:
                                th = f.blocks[h].insns[-1]
                                ch = f.defs.get(th.extra.get('cond', '')) if th.op == 'br' else None
                                if ch is not None and ch.op == 'icmp' and ch.extra['pred'] in ('slt', 'ult') and canon(F.poly(ch.ops[1])) == canon(n):
                                    start = F.poly(ch.ops[0])
                                    # index = i + 1 + n_search
                                    outs = [o for o, L in loops.items() if h in L and o != h]
                                    if outs and canon(start) == canon(padd(padd(pvar('n%' + max(outs, key=lambda o: len(loops[o]))), pconst(1)), pvar('n%' + h))):
                                        rng_ok = True
                            if not rng_ok:
                                ok = False
                                why = 'the pivot search does not run over every row i+1 .. n-1 (its counting exit is not "row index < n"): a usable pivot in the last rows is never looked at, and the row it stops at is swapped in unchecked'
    R4.check(ok, mod_where(F, ret), why, key='R-INVERT-SINGULAR', sample='-1 iff search index == n')


def _reach(f, start, within, stop):
    seen, work = set(), [start]
    while work:
        b = work.pop()
        if b in seen or b not in within or b == stop:
            continue
        seen.add(b)
        t = f.blocks[b].insns[-1]
        work += list(t.extra.get('targets', [])) if t.op == 'br' else []
    return seen


def show(x):
    ix, e = x
    return '[%s] := %s' % (pfmt(dict(ix)), show_e(e))


def show_e(e):
    if not isinstance(e, tuple):
        return str(e)
    if e[0] == 'ld':
        return '%s[%s]' % (e[1], pfmt(dict(e[2])))
    if e[0] in ('ssa', 'c'):
        return str(e[1])
    return '%s(%s)' % (e[0], ', '.join(show_e(x) for x in e[1:]))


def main(tier):
    rep = Report('C09', tier, level='other')
    rep.undecided = UNDECIDED
    rep.explanation = ('Closed forms of every store address from LLVM\'s scalar-evolution analysis (opt-14, over the linked IR of the current tree), compared as polynomials in the arguments and one iteration variable per loop '
                       'with the documented matrix layout; value-expression trees of the stores in gf_invert_matrix compared between the two matrices. Width conversions are treated as identity: the index arithmetic is done in '
                       'int and assumed not to overflow (n, m <= 256 in every documented use).')
    rep.trusted = ['clang 14 IR, opt-14 scalar evolution', 'tools/scev.py parser (fails closed on unknown syntax)']
    A = scev.analysis('default')
    rep.attempt(check_generators, rep, A)
    rep.attempt(check_invert, rep, A)
    import c16
    rep.attempt(c16.check_tablefmt, rep)      # recovery encodes the survivors with tables from the dispatched builder
    return rep.finish()
