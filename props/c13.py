"""C13 - incremental parity update equals full encode.  Same structural split as C03 on the
update side: update wrappers (incl. vec_i passed through), mad kernels store only through
parity pointers and read the source only through src; gf_vect_mul kernels."""
from common import Report
import provenance, ecwrap, gftype
import c03

UNDECIDED = 'that overlapped tail bytes are accumulated exactly once (a value property of masks/blends); the GF arithmetic of the kernels'


def check_mul_guard(rep):
    R = rep.rule('R-MUL-LEN', 'gf_vect_mul_{sse,avx} reject a length that is not a multiple of 32 with a non-zero return before touching memory, like gf_vect_mul_base', floor=2, unit='kernels')
    import asmdb
    from asmflow import Flow
    import kernels
    res, _ = provenance.analyse('default')
    for sym in ('gf_vect_mul_sse', 'gf_vect_mul_avx'):
        info = res.get(sym)
        if info is None:
            from common import AnalysisBroken
            raise AnalysisBroken('%s not found' % sym)
        R.instance()
        u, f = info['unit'], info['func']
        # first memory access through SRC/DEST/TBL must be preceded (dominated in straight line from entry) by test len,31 ; jnz fail
        first_mem = min([a.insn.addr for a in info['accesses'] if a.addr[0] == 'P' and a.addr[1] in ('SRC', 'DEST', 'TBL')] or [None])
        guard = None
        a = f.entry
        from asmdb import REG64
        copies = {'rdi'}          # registers holding len (SysV arg 0) in the straight-line entry sequence
        pending = None            # a flag-setting "len & 31" whose flags are still live
        while a in f.aset and (first_mem is None or a < first_mem):
            i = u.insns[a]
            ops = i.ops
            r0 = REG64.get(ops[0])[0] if ops and ops[0] in REG64 else None
            if i.mn == 'mov' and len(ops) == 2 and r0 and ops[1] in REG64 and REG64[ops[1]][0] in copies:
                copies.add(r0)
            elif i.mn in ('test', 'and') and len(ops) == 2 and r0 in copies:
                try:
                    imm = int(ops[1], 0)
                except ValueError:
                    imm = None
                pending = i if imm == 31 else None
                if i.mn == 'and':
                    copies.discard(r0)
            elif i.mn in ('jne', 'jnz') and pending is not None:
                guard = (pending, i)
                break
            elif i.mn in ('jmp', 'ret'):
                break
            else:
                if provenance.writes_flags(i):
                    pending = None
                if r0 and r0 in copies and i.mn not in ('cmp', 'test', 'push'):
                    copies.discard(r0)
            a = i.end
        ok = False
        if guard:
            # the taken edge must reach ret with non-zero rax and no store
            t = guard[1].target
            seen = set()
            work = [t]
            ok = True
            stores = {x.insn.addr for x in info['accesses'] if x.kind in ('store', 'rmw') and not (x.addr[0] == 'P' and x.addr[1] == 'STACK')}
            while work:
                b = work.pop()
                if b in seen:
                    continue
                seen.add(b)
                if b in stores:
                    ok = False
                j = u.insns[b]
                if j.mn == 'ret':
                    v = info['flow'].IN[b]['rax']
                    if not (v[0] == 'AFF' and v[1] != 0):
                        ok = False
                    continue
                work += u.succ(f, b)
        R.check(ok, '%s:%s' % (u.name, sym), 'no "len & 31 != 0 -> fail" guard (test/and idiom) before the first memory access, or the fail exit does not return a non-zero constant',
                sample='%s: test len,31 -> return 1' % sym)


def main(tier):
    rep = Report('C13', tier, level='other')
    rep.undecided = UNDECIDED
    rep.explanation = ('Same machinery as C03 applied to the update path: AST lint of the six ec_encode_data_update_<isa> wrappers (stride, arms, ISA family, vec_i and k passed through unchanged, '
                       'hand-off length vs. kernel entry guards), pointer-provenance dataflow over all 35 gf_<n>vect_mad_<isa> kernels (stores and read-modify loads only through parity pointers, '
                       'source read-only) and the two gf_vect_mul kernels incl. their length-multiple guard. Accumulate-once on overlapped tails is not decided.')
    rep.trusted = ['nasm/objdump decoding', 'ASMFLOW transfer functions (fail-closed)', 'SysV argument roles from include/erasure_code.h / gf_vect_mul.h', 'clang AST']
    rep.attempt(ecwrap.check_wrappers, rep, 'update')
    rep.attempt(c03.check_kernel_stores, rep, 'mad', 'P-MAD-STORE', 35)
    rep.attempt(c03.check_kernel_stores, rep, 'mul', 'P-MUL-STORE', 2)
    rep.attempt(check_mul_guard, rep)
    rep.attempt(provenance.check_undef, rep, {'ec_mad', 'ec_mul'}, 'MAD', 37)
    rep.attempt(provenance.check_kwidth, rep, {'ec_mad', 'ec_mul'}, 'MAD', 37)
    rep.attempt(gftype.check, rep, {'ec_mad', 'ec_mul'}, 'MAD', 37)
    import bounds
    rep.attempt(bounds.check, rep, {'ec_mad', 'ec_mul'}, 'MAD', 37)
    import guardloop
    rep.attempt(guardloop.check, rep, 'MAD', r'^erasure_code/.*(mad|mul)', 8)
    import deadvdef
    rep.attempt(deadvdef.check, rep, 'MAD', r'^erasure_code/.*(mad|mul)', 1000)
    import gfrows
    rep.attempt(gfrows.check, rep, 35)
    import baseloops
    rep.attempt(baseloops.check, rep, 'UPD', ['ec_encode_data_update_base', 'gf_vect_mad_base', 'gf_vect_mul_base'], 4)
    import eclayout
    rep.attempt(eclayout.check, rep, 'UPD', ['ec_encode_data_update_base', 'gf_vect_mad_base'], 2, writer=False)
    import stridecover
    rep.attempt(stridecover.check, rep, 'MAD', {'ec_mad', 'ec_mul'}, 250)
    import gfhalf
    rep.attempt(gfhalf.check, rep, 'MAD', {'ec_mad'}, 'rcx', ('rdx',), 260)
    import tailguard, earlypass
    rep.attempt(tailguard.check, rep, 'MAD', {'ec_mad', 'ec_mul'}, 32, 5)
    rep.attempt(earlypass.check, rep, 'MAD', {'ec_mad', 'ec_mul'}, 2)
    import samecell
    rep.attempt(samecell.check, rep, 'MAD', {'ec_mad'}, ['SRC'], ['DESTARR[]', 'DEST'], 220, typed=True)
    rep.attempt(samecell.check, rep, 'MUL', {'ec_mul'}, ['SRC'], ['DEST'], 4, typed=True)
    import lanemacro
    rep.attempt(lanemacro.check, rep, 'MAD', {'ec_mad'}, 1100)
    import tailmask
    rep.attempt(tailmask.check, rep, 250)
    import c16
    rep.attempt(c16.check_tablefmt, rep, ('ec_encode_data_update', 'gf_vect_mad'))
    return rep.finish()
