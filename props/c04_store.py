"""P-CRC-STORE: checksum kernels are store-free (copy form stores only through dst)."""
import provenance


def check(rep, units):
    R = rep.rule('P-CRC-STORE', 'CRC/Adler kernels store nothing outside their stack frame and read only through the buffer argument and constant pools; crc16_t10dif_copy stores only through dst and reads only through src',
                 floor=34, unit='kernels')
    RD = rep.rule('L-DEADCMP-CRC', 'every flag-setting compare in the checksum kernels is consumed (length-class dispatch cannot be silently skipped)', floor=34, unit='kernels')
    res, _ = provenance.analyse('default')
    for sym, info in sorted(res.items()):
        fam = info['fam']['family']
        if fam not in ('crc', 'crc_copy', 'adler'):
            continue
        R.instance()
        RD.instance()
        u, f = info['unit'], info['func']
        if fam == 'crc_copy':
            provenance.check_access_sets(R, sym, info, {'STACK', 'DST'}, {'SRC', 'STACK', 'GLOBAL'}, allow_rmw={'STACK'}, key_prefix='P-CRC-STORE')
        else:
            provenance.check_access_sets(R, sym, info, {'STACK'}, {'BUF', 'STACK', 'GLOBAL'}, allow_rmw={'STACK'}, key_prefix='P-CRC-STORE')
        dead = provenance.dead_compares(u, f)
        RD.ok(provenance.count_compares(u, f) - len(dead))
        for i in dead:
            RD.fail('%s: %s' % (u.name, u.where(i, f)), 'result of this compare is never consumed', key='L-DEADCMP|%s|%#x' % (sym, i.addr - f.entry))
    provenance.check_undef(rep, {'crc', 'crc_copy', 'adler'}, 'CRC', 34)
    provenance.check_kwidth(rep, {'crc', 'crc_copy', 'adler'}, 'CRC', 34)
    R.samples.append('crc64_ecma_refl_by8: loads via BUF/constants only, stores only to its aligned stack frame')
