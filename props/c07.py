"""C07 - streaming results do not depend on how the caller slices buffers.  The behavioural statement quantifies over call histories and is
NOT decided.  What is decided are the structural clauses every resumption relies on: the counters a call hands back describe its buffers on
every path (so the next call starts where this one stopped), pieces of a header continue at the recorded offset, the TMP_* states mirror
their base states, a decoder that ran out of input leaves nothing half-parked, the header readers re-enter at the state they left, and
every state constant that any code stores is one a dispatcher handles (no call can park the machine in a state nobody serves)."""
import re
from common import Report, AnalysisBroken
import llir, irrules, mirror
import c19

UNDECIDED = ('that streaming compression / decompression yields the same bytes for every slicing of input and output (value-level bookkeeping of buffered input, history retention, temporary output staging), '
             'and that every call makes progress')


def check_state_handled(rep, mod):
    R = rep.rule('R-STATE-HANDLED', 'every constant stored into the state field of a context (deflate: internal_state.state, inflate: block_state) by any C function or asm kernel of the library is compared against / is a switch case '
                 'of that field somewhere in the library: no call can leave the machine in a state that no dispatcher serves', floor=20, unit='state constants')
    import asmdb, asmlin
    offz = c19.field_offsets('struct isal_zstream', ['internal_state.state'])['internal_state.state']
    offi = c19.field_offsets('struct inflate_state', ['block_state'])['block_state']
    for kind, ty, o, pat in (('deflate', 'struct.isal_zstream*', offz, r'^(isal_deflate_body|isal_deflate_finish|isal_deflate_icf_body_hash_hist|isal_deflate_icf_finish_hash_hist)_0\d$'),
                             ('inflate', 'struct.inflate_state*', offi, r'^decode_huffman_code_block_stateless_0\d$')):
        stored, tested = {}, set()
        for fn, f in mod.funcs.items():
            pidx = [n for n, (t, _) in enumerate(f.params) if ty in t]
            if not pidx:
                continue
            P = irrules.prov(mod, f)

            def consts(v, depth=0):
                if re.match(r'^-?\d+$', v):
                    return {int(v)}
                d = f.defs.get(irrules._strip(f, v))
                if d is None or depth > 6:
                    return None
                if d.op == 'select':
                    a, b = consts(d.ops[1], depth + 1), consts(d.ops[2], depth + 1)
                    return None if a is None or b is None else a | b
                if d.op == 'phi':
                    out = set()
                    for x, _ in d.extra['incoming']:
                        c = consts(x, depth + 1)
                        if c is None:
                            return None
                        out |= c
                    return out
                return None
            for i in f.all_insns():
                if i.op == 'store' and P.atoms(i.ops[1]) == {('param', pidx[0], o)}:
                    c = consts(i.ops[0])
                    for v in (c or ()):
                        stored.setdefault(v, mod.where(f, i))
                if i.op == 'icmp':
                    d = f.defs.get(irrules._strip(f, i.ops[0]))
                    if d is not None and d.op == 'load' and P.atoms(d.ops[0]) == {('param', pidx[0], o)} and re.match(r'^-?\d+$', i.ops[1]):
                        tested.add(int(i.ops[1]))
                        if i.extra['pred'] in ('ugt', 'uge', 'ult', 'ule', 'sgt', 'sge', 'slt', 'sle'):
                            tested |= set(range(0, 64))       # a range test serves every state on one of its sides
                if i.op == 'switch':
                    d = f.defs.get(irrules._strip(f, i.ops[0]))
                    if d is not None and d.op == 'load' and P.atoms(d.ops[0]) == {('param', pidx[0], o)}:
                        cs = i.extra['cases'].items() if isinstance(i.extra['cases'], dict) else i.extra['cases']
                        tested |= {int(k) for k, _ in cs}
        # asm kernels
        units = asmdb.units('default')
        key = asmlin.canon({'rdi@entry': 1, 1: o})
        for un, u in sorted(units.items()):
            for fn, fa in sorted(u.funcs.items()):
                if not re.match(pat, fn):
                    continue
                L = asmlin.Lin(u, fa)
                L.watch = {key}
                L.run()
                for i, v in L.watched.get(key, []):
                    cs = asmlin.const_set(v, {key})
                    for c in (cs or ()):
                        if c != 'old':
                            stored.setdefault(c, '%s: %s' % (un, u.where(i, fa)))
        if len(stored) < 8:
            raise AnalysisBroken('R-STATE-HANDLED: only %d %s state constants found' % (len(stored), kind))
        for v, where in sorted(stored.items()):
            R.instance()
            R.check(v in tested, where, '%s state %d is stored here but no code of the library ever tests the state field for it: a context left in this state is never served again' % (kind, v),
                    key='R-STATE-HANDLED|%s|%d' % (kind, v), sample='%s: %d state constants stored, all tested' % (kind, len(stored)) if v == min(stored) else None)


def check_tmp_twins(rep, mod):
    """every deflate state X has a twin ZSTATE_TMP_X that means "X, with bytes still parked in tmp_out_buff".  A condition that lists states by name and already
    names one (X, TMP_X) pair is about what X MEANS, so it has to name the twin of every other state it lists as well."""
    R = rep.rule('R-TMP-TWINS', 'every short-circuit chain of equality tests on internal_state.state (blocks that branch to one common target on state == constant, else fall to the next test) that contains some state '
                 'together with its ZSTATE_TMP_ twin contains the twin of every state it lists: a resume through the temporary output buffer is treated like the state it resumes', floor=1, unit='chains with a twin pair')
    off = c19.field_offsets('struct isal_zstream', ['internal_state.state'])['internal_state.state']
    soff = c19.field_offsets('struct isal_zstate', ['state'])['state']
    K, drop = mirror.c_values('default', ['igzip_lib.h'], [('TMP', 'ZSTATE_TMP_OFFSET'), ('END', 'ZSTATE_END')], 'c07_tmp')
    if drop:
        raise AnalysisBroken('ZSTATE_TMP_OFFSET not found')
    T, END = K['TMP'], K['END']
    nchains = 0
    for fn, f in sorted(mod.funcs.items()):
        pidx = [n for n, (t, _) in enumerate(f.params) if 'struct.isal_zstream*' in t or 'struct.isal_zstate*' in t]
        if not pidx:
            continue
        P = irrules.prov(mod, f)
        tests = {}
        for b in f.order:
            t = f.blocks[b].insns[-1]
            c = f.defs.get(t.extra.get('cond', '')) if t.op == 'br' and t.extra.get('cond') else None
            if c is None or c.op != 'icmp' or c.extra['pred'] not in ('eq', 'ne') or not re.match(r'^\d+$', c.ops[1]):
                continue
            d = f.defs.get(irrules._strip(f, c.ops[0]))
            if d is None or d.op != 'load':
                continue
            at = P.atoms(d.ops[0])
            if not any(a[0] == 'param' and a[1] == pidx[0] and a[2] in (off, soff) for a in at) or len(at) != 1:
                continue
            tt, tf = t.extra['targets']
            hit, miss = (tt, tf) if c.extra['pred'] == 'eq' else (tf, tt)
            tests[b] = (int(c.ops[1]), hit, miss, c)
        # chains: b -> miss -> miss ... with the same hit target
        starts = [b for b in tests if not any(tests[o][2] == b and tests[o][1] == tests[b][1] for o in tests)]
        for b in starts:
            chain, cur = [], b
            while cur in tests and tests[cur][1] == tests[b][1]:
                chain.append(tests[cur])
                cur = tests[cur][2]
            vals = {v for v, _, _, _ in chain}
            if len(vals) < 2:
                continue
            pairs = [v for v in vals if v <= END and v + T in vals]
            if not pairs:
                continue
            nchains += 1
            R.instance()
            missing = sorted([v + T for v in vals if v <= END and v + T not in vals] + [v - T for v in vals if v > END and v - T not in vals])
            R.check(not missing, mod.where(f, chain[0][3]), '%s: the condition lists states %s - it names the pair (%d, %d) but not the twin(s) %s: the same situation reached through the temporary output buffer is not recognised' %
                    (fn, sorted(vals), pairs[0], pairs[0] + T, missing), key='R-TMP-TWINS|%s|%s' % (fn, chain[0][3].line or 0), sample='%s: %s closed under the TMP twin map' % (fn, sorted(vals)))
    if nchains == 0:
        raise AnalysisBroken('R-TMP-TWINS: no condition naming a state together with its TMP twin was found')


def check_hist_keep(rep, mod):
    """How much already-compressed input isal_deflate keeps for the next call is decided by get_hist_size().  A later call may match new data against everything
    inside the window as long as has_hist says there is history, so less than the window (min(what was seen, IGZIP_HIST_SIZE)) may be kept only when the history has
    really been invalidated (has_hist == IGZIP_NO_HIST, which sync_flush sets when the FULL_FLUSH marker is written) or no input can follow (end_of_stream).  A flush
    REQUEST (stream->flush) is not such a fact: the caller may refill the input or change the mode before the flush has happened."""
    R = rep.rule('R-HIST-KEEP', 'get_hist_size (the amount of consumed input isal_deflate keeps in state->buffer for later matches): (a) every constant below IGZIP_HIST_SIZE that can reach the return value is selected only '
                 'on paths through a branch that established end_of_stream != 0 or has_hist == IGZIP_NO_HIST (with those branch edges removed the selecting block is unreachable); (b) no branch of the function depends '
                 'on stream->flush - a requested flush can be superseded by more input or a changed mode before it happens, only a completed one (has_hist) removes the need for history; (c) isal_deflate copies exactly '
                 'that many bytes ending at next_in into state->buffer', floor=3, unit='obligations (constant leaves, branches, copy site)')
    f = mod.funcs.get('get_hist_size')
    g = mod.funcs.get('isal_deflate')
    if f is None or g is None:
        raise AnalysisBroken('R-HIST-KEEP: get_hist_size / isal_deflate not found in the IR')
    zo = c19.field_offsets('struct isal_zstream', ['flush', 'end_of_stream', 'internal_state.has_hist', 'internal_state.buffer'])
    K, drop = mirror.c_values('default', ['igzip_lib.h'], [('HIST', 'IGZIP_HIST_SIZE'), ('NOHIST', 'IGZIP_NO_HIST')], 'c07_hist')
    if drop:
        raise AnalysisBroken('R-HIST-KEEP: IGZIP_HIST_SIZE / IGZIP_NO_HIST not found')
    P = irrules.prov(mod, f)
    sidx = [n for n, (t, _) in enumerate(f.params) if 'struct.isal_zstream*' in t]
    if not sidx:
        raise AnalysisBroken('R-HIST-KEEP: get_hist_size has no stream parameter')

    def field_of(v):
        """offset in isal_zstream of the field a value is loaded from (through casts), or None"""
        d = f.defs.get(irrules._strip(f, v))
        if d is None or d.op != 'load':
            return None
        at = P.atoms(d.ops[0])
        if len(at) == 1:
            a = next(iter(at))
            if a[0] == 'param' and a[1] == sidx[0]:
                return a[2]
        return None
    # justifying edges
    just = set()
    nbr = 0
    for b, t, c in irrules.cond_branches(mod, f):
        nbr += 1
        R.instance()
        dep = P.deps(t.extra['cond'])
        R.check(('mem', ('param', sidx[0], zo['flush'])) not in dep, mod.where(f, t), 'get_hist_size: this branch depends on stream->flush: how much history is kept follows the REQUESTED flush mode, but a requested '
                'full flush only happens once the pending block is written - if the caller refills the input or changes the mode first, has_hist stays set and new data is matched against history that was not kept '
                '(reads in front of state->buffer, stream that does not decode to the input)', key='R-HIST-KEEP|flush|%s' % b, sample='branch in %s does not depend on stream->flush' % b)
        if c is None or c.op != 'icmp' or not re.match(r'^\d+$', c.ops[1]):
            continue
        fo = field_of(c.ops[0])
        tt, tf = t.extra['targets']
        k, pred = int(c.ops[1]), c.extra['pred']
        if fo == zo['end_of_stream'] and k == 0 and pred in ('ne', 'eq'):
            just.add((b, tt if pred == 'ne' else tf))
        if fo == zo['internal_state.has_hist'] and k == K['NOHIST'] and pred in ('ne', 'eq'):
            just.add((b, tt if pred == 'eq' else tf))
    if nbr < 4:
        raise AnalysisBroken('R-HIST-KEEP: get_hist_size has only %d conditional branches' % nbr)
    # constant leaves of the return value
    rets = [i for i in f.all_insns() if i.op == 'ret']
    leaves = []

    def walk(v, sel, seen):
        if re.match(r'^-?\d+$', v):
            leaves.append((int(v), sel))
            return
        d = f.defs.get(v)
        if d is None or (v, sel) in seen:
            return
        seen.add((v, sel))
        if d.op == 'phi':
            for x, pb in d.extra['incoming']:
                walk(x, pb, seen)
        elif d.op == 'select':
            walk(d.ops[1], d.block, seen)
            walk(d.ops[2], d.block, seen)
    for r in rets:
        if r.ops:
            walk(r.ops[-1].split()[-1], r.block, set())
    if not leaves:
        raise AnalysisBroken('R-HIST-KEEP: no constant reaches the return value of get_hist_size (the window cap IGZIP_HIST_SIZE was expected)')
    for k, blk in leaves:
        R.instance()
        if k >= K['HIST']:
            R.ok(1, sample='constant %d (window cap) selected in %s' % (k, blk))
            continue
        # reachable from entry without crossing a justifying edge?
        seen, work = set(), [f.entry()]
        while work:
            b = work.pop()
            if b in seen:
                continue
            seen.add(b)
            for s_ in f.blocks[b].succs:
                if (b, s_) not in just:
                    work.append(s_)
        ins = f.blocks[blk].insns[-1]
        R.check(blk not in seen, mod.where(f, ins), 'get_hist_size can return %d (less than the window) from block %s on a path that established neither end_of_stream nor has_hist == IGZIP_NO_HIST: the next call may still '
                'match against history that is not kept' % (k, blk), key='R-HIST-KEEP|const|%d|%s' % (k, blk), sample='constant %d selected in %s only behind end_of_stream != 0 / has_hist == IGZIP_NO_HIST' % (k, blk))
    # (c) the copy site in isal_deflate: memmove(state->buffer, next_in - h, h) with h a result of get_hist_size
    Pg = irrules.prov(mod, g)
    gi = [n for n, (t, _) in enumerate(g.params) if 'struct.isal_zstream*' in t][0]
    sites = 0
    for i in g.all_insns():
        if i.op != 'call' or not re.match(r'^(llvm\.)?mem(move|cpy)', i.callee or ''):
            continue
        if Pg.atoms(i.ops[0]) != {('param', gi, zo['internal_state.buffer'])}:
            continue
        ln = i.ops[2]
        d = g.defs.get(irrules._strip(g, i.ops[1]))
        if d is None or d.op != 'getelementptr':
            continue
        base, hops = g.defs.get(irrules._strip(g, d.ops[0])), 1
        while base is not None and base.op == 'getelementptr' and hops < 6:
            base, hops = g.defs.get(irrules._strip(g, base.ops[0])), hops + 1
        if base is None or base.op != 'load' or Pg.atoms(base.ops[0]) != {('param', gi, 0)}:
            continue              # not a copy out of the caller's input (e.g. the shift-down of the buffer itself)
        sites += 1
        R.instance()

        def direct(v, seen):
            v = irrules._strip(g, v)
            d_ = g.defs.get(v)
            if d_ is None or v in seen:
                return d_ is not None
            seen.add(v)
            if d_.op == 'call':
                return d_.callee == 'get_hist_size'
            if d_.op == 'phi':
                return all(direct(x, seen) for x, _ in d_.extra['incoming'])
            return False
        idx = d.extra.get('idx', [])
        iv = idx[-1].split()[-1] if idx else None
        neg = g.defs.get(iv) if iv else None
        lnroot = irrules._strip(g, ln)
        ok = hops == 1 and direct(ln, set()) and neg is not None and neg.op == 'sub' and neg.ops[0] == '0' and irrules._strip(g, neg.ops[1]) == lnroot
        R.check(ok, mod.where(g, i), 'isal_deflate: the history copied into state->buffer is not the hist_size bytes that end at next_in', key='R-HIST-KEEP|copy',
                sample='memmove(state->buffer, next_in - hist_size, hist_size) with hist_size = get_hist_size(...)')
    if sites == 0:
        raise AnalysisBroken('R-HIST-KEEP: no copy from the caller\'s input to the start of state->buffer found in isal_deflate')


USER_PARAMS = ['level', 'level_buf', 'level_buf_size', 'hufftables', 'gzip_flag', 'hist_bits', 'flush', 'end_of_stream']
# one confirmed exception: set_dist_mask replaces the hist_bits requests that mean "default" (0, or anything above ISAL_DEF_MAX_HIST_BITS) by the constant ISAL_DEF_MAX_HIST_BITS, the
# window they are served with anyway; the store is idempotent and changes nothing for this or a later stream
PARAM_KEEP_EXCEPT = {('hist_bits', 'set_dist_mask')}


def check_param_keep(rep, mod):
    """The settings of the stream that the caller chooses (wrapper, level, flush type, tables ...) belong to the caller: isal_deflate_reset keeps them for the next stream, and
    a streaming call is repeated with them.  A function below isal_deflate that changes one has to put it back, or hand the obligation to its caller; isal_deflate itself must
    not leave one changed.  (isal_deflate deliberately lowers flush / end_of_stream while it works from its internal buffer, and restores them from copies taken on entry.)"""
    R = rep.rule('R-PARAM-KEEP', 'isal_deflate: for every caller-chosen setting of the stream (%s): whenever a store, or a call of a function that may leave the setting changed, modifies it, the same function later '
                 'stores back a value it loaded from the setting before the modification (save / restore); "may leave it changed" is computed bottom-up over the call graph' % ', '.join(USER_PARAMS), floor=8,
                 unit='settings')
    S = c19.summaries(mod)
    offs = c19.field_offsets('struct isal_zstream', USER_PARAMS)
    top = mod.funcs.get('isal_deflate')
    if top is None:
        raise AnalysisBroken('isal_deflate not found')
    # functions reachable from isal_deflate
    reach, work = set(), ['isal_deflate']
    while work:
        n = work.pop()
        if n in reach or n not in mod.funcs:
            continue
        reach.add(n)
        work += [i.callee for i in mod.funcs[n].all_insns() if i.op == 'call' and i.callee in mod.funcs]
    for name in USER_PARAMS:
        off = offs[name]
        R.instance()
        leaves = {}          # function -> witness insn (it may return with the setting changed)
        changed = True
        rounds = 0
        while changed and rounds < 20:
            changed = False
            rounds += 1
            for n in sorted(reach):
                if n in leaves:
                    continue
                f = mod.funcs[n]
                pidx = [k for k, (t, _) in enumerate(f.params) if 'struct.isal_zstream*' in t]
                if not pidx:
                    continue
                P = irrules.prov(mod, f)
                fld = ('param', pidx[0], off)
                clob = []
                for i in f.all_insns():
                    if i.op == 'store' and P.atoms(i.ops[1]) == {fld}:
                        if (name, n) in PARAM_KEEP_EXCEPT and re.match(r'^\d+$', i.ops[0]):
                            continue
                        clob.append(i)
                    elif i.op == 'call' and i.callee in leaves and i.ops:
                        # the callee gets this function's stream
                        for k, (t, _) in enumerate(mod.funcs[i.callee].params):
                            if 'struct.isal_zstream*' in t and k < len(i.ops) and P.atoms(i.ops[k]) == {('param', pidx[0], 0)}:
                                clob.append(i)
                if not clob:
                    continue

                def saved_copy(v, before, depth=0):
                    d = f.defs.get(v)
                    if d is None or depth > 6:
                        return False
                    if d.op in ('zext', 'sext', 'trunc', 'bitcast'):
                        return saved_copy(d.ops[0], before, depth + 1)
                    if d.op == 'phi':
                        return all(saved_copy(x, before, depth + 1) for x, _ in d.extra['incoming'])
                    return d.op == 'load' and P.atoms(d.ops[0]) == {fld} and (f.dominates(d.block, before.block) and (d.block != before.block or f.blocks[d.block].insns.index(d) < f.blocks[before.block].insns.index(before)))
                for cl in clob:
                    if cl.op == 'store' and saved_copy(cl.ops[0], cl):
                        continue          # this store IS a restore
                    after = f.reachable_avoiding(cl.block, set())
                    restored = False
                    for i in f.all_insns():
                        if i.op == 'store' and i is not cl and P.atoms(i.ops[1]) == {fld} and saved_copy(i.ops[0], cl):
                            if (i.block == cl.block and f.blocks[i.block].insns.index(i) > f.blocks[cl.block].insns.index(cl)) or (i.block != cl.block and i.block in after):
                                restored = True
                    if not restored:
                        leaves[n] = cl
                        changed = True
                        break
        w = leaves.get('isal_deflate')
        chain = ''
        if w is not None:
            x, hops = w, []
            while x is not None and x.op == 'call' and len(hops) < 6:
                hops.append(x.callee)
                x = leaves.get(x.callee)
            chain = ' -> '.join(hops)
        R.check(w is None, mod.where(top, w) if w is not None else mod.where(top, None), 'isal_deflate can return with the caller\'s setting %s changed%s and nothing puts the value back: the next stream after '
                'isal_deflate_reset(), or the next call, runs with a setting the caller did not choose' % (name, (' (through ' + chain + ')') if chain else ''), key='R-PARAM-KEEP|%s' % name,
                sample='%s: %s' % (name, 'never modified below isal_deflate' if not leaves else 'modified below isal_deflate and restored (%s)' % ', '.join(sorted(leaves))))


def main(tier):
    rep = Report('C07', tier, level='other')
    rep.undecided = UNDECIDED
    rep.explanation = ('A collection of the structural clauses that resumption across calls rests on, each decided for every input at once by the engines built for other properties: path-sensitive linear-form dataflow '
                       '(counter balance in 85 portable functions and 12 asm kernels, piecewise header writers), reaching definitions per exit code (asm decoders), switch-region analysis (header readers), '
                       'constant mirrors (TMP states) and a stored-vs-tested census of the state constants.  The history-dependent behaviour itself is not decided.')
    rep.trusted = ['clang IR + sroa', 'nasm/objdump decoding', 'tools/acct.py, tools/asmlin.py (fail closed)']
    mod = llir.library('default')
    import acct, asmlin, c01, c02
    offz = c19.field_offsets('struct isal_zstream', ['next_in', 'avail_in', 'total_in', 'next_out', 'avail_out', 'total_out'])
    offi = c19.field_offsets('struct inflate_state', ['next_in', 'avail_in', 'next_out', 'avail_out', 'total_out'])
    rep.attempt(acct.check, rep, 'z', 150, offz, offi, mod)
    rep.attempt(acct.check, rep, 'i', 50, offz, offi, mod)
    rep.attempt(asmlin.check, rep, 'DEFLATE', 40, offz, r'^(isal_deflate_body|isal_deflate_finish|isal_deflate_icf_body_hash_hist|isal_deflate_icf_finish_hash_hist)_0\d$')
    rep.attempt(asmlin.check, rep, 'INFLATE', 6, offi, r'^decode_huffman_code_block_stateless_0\d$')
    offc = c19.field_offsets('struct isal_zstream', ['next_in', 'avail_in', 'total_in', 'next_out', 'avail_out', 'total_out', 'internal_state.count'])
    offc['count'] = offc.pop('internal_state.count')
    rep.attempt(acct.check_count_resume, rep, mod, offc, 10)
    rep.attempt(c01.check_tmp_states, rep, 'default')
    import c06 as _c06
    rep.attempt(_c06.check_spec_advance, rep)       # error exits of the asm decoders report only bytes that were written
    rep.attempt(c02.check_rollback, rep)
    import rollbackpair
    rep.attempt(rollbackpair.check, rep, mod, c19.field_offsets('struct inflate_state', rollbackpair.IN_FIELDS + rollbackpair.OUT_FIELDS))
    rep.attempt(c19.check_resume, rep, mod)
    rep.attempt(check_state_handled, rep, mod)
    rep.attempt(check_tmp_twins, rep, mod)
    rep.attempt(check_hist_keep, rep, mod)
    rep.attempt(check_param_keep, rep, mod)
    import c11
    rep.attempt(c11.check_adler_bam1, rep, mod)        # the zlib checksum carried from call to call
    rep.attempt(c19.check_hdr_persist, rep, mod)      # a wrapper header cut by a call boundary is parsed like the same header in one piece
    import c05
    rep.attempt(c05.check_c_loads, rep)      # chunks are separate memory regions: nothing behind a chunk may be read (M-ENDDIST-C, M-COMPARE-BOUND)
    return rep.finish()
