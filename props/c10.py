"""C10 - compression honours the output-space contract and always terminates.  Decided
(structural): invalid flush / level / level-buffer are rejected on every path before any
output-side effect; the level switch is exhaustive with per-level minimum; ISAL_DEF_LVLn_MIN
>= what the level structures need (3 configurations); stored-block and wrapper constants."""
import re
from common import Report, AnalysisBroken
import llir, irrules, mirror, cbuild
import c19

UNDECIDED = 'never writing past avail_out, exact accounting of total_in/total_out, the stored-block bound behaviour at (bound, bound-1), termination of streaming compression'
CONFIGS = ['default', 'hist8k', 'longhuff']


def output_effect(atoms, zs):
    """does a written atom set touch the caller-visible output: bytes behind next_out or the output counters"""
    hits = []
    for a in atoms:
        if a[0] == 'ld' and a[1][0] == 'param' and a[1][1] == 0 and a[1][2] == zs['next_out']:
            hits.append('store through next_out')
        elif a[0] == 'param' and a[1] == 0 and a[2] in (zs['next_out'], zs['avail_out'], zs['total_out']):
            hits.append('update of stream->%s' % [k for k, v in zs.items() if v == a[2]][0])
        elif a[0] == 'param' and a[1] == 0 and a[2] is None:
            hits.append('write to an unknown offset of the stream structure')
        elif a == llir.UNK:
            hits.append('write of unknown provenance')
    return hits


def nonzero_edge(f, blk, val):
    """is block `blk` dominated by the edge on which `val != 0` holds?  ("if (ret) return ret;" and nested forms)"""
    for b in f.order:
        t = f.blocks[b].insns[-1] if f.blocks[b].insns else None
        if t is None or t.op != 'br' or not t.extra.get('cond'):
            continue
        c = f.defs.get(t.extra['cond'])
        if c is None or c.op != 'icmp' or c.ops[0] != val or c.ops[1] != '0':
            continue
        tt, tf = t.extra['targets']
        nz = tt if c.extra['pred'] == 'ne' else tf if c.extra['pred'] == 'eq' else None
        if nz is None or f.blocks[nz].preds != [b]:
            continue
        if f.dominates(nz, blk):
            return True
    return False


def check_reject_first(rep, mod, S):
    R = rep.rule('R-REJECT-FIRST', 'INVALID_FLUSH and the level / level-buffer errors are returned on paths that contain no store through next_out and no update of next_out/avail_out/total_out (callees included)',
                 floor=2, unit='entry points')
    zs = c19.field_offsets('struct isal_zstream', ['next_out', 'avail_out', 'total_out'])
    codes, _ = mirror.c_values('default', ['igzip_lib.h'], [(n, n) for n in ('INVALID_FLUSH', 'ISAL_INVALID_LEVEL', 'ISAL_INVALID_LEVEL_BUF')], 'c10_codes')
    errvals = set(codes.values())
    for fn in ('isal_deflate', 'isal_deflate_stateless'):
        f = mod.funcs.get(fn)
        if f is None:
            raise AnalysisBroken(fn + ' not found')
        R.instance()
        P = irrules.prov(mod, f)
        # error return edges: incoming edges of the return phi with an error constant or the result of check_level_req
        err_edges = []
        for i in f.all_insns():
            if i.op != 'ret' or not i.ops:
                continue
            v = i.ops[0]
            d = f.defs.get(v)
            if d is not None and d.op == 'phi':
                for val, pb in d.extra['incoming']:
                    if re.match(r'^-?\d+$', val):
                        if int(val) in errvals:
                            err_edges.append((pb, int(val)))
                    else:
                        dv = f.defs.get(val)
                        while dv is not None and dv.op in ('zext', 'sext', 'trunc', 'bitcast'):
                            dv = f.defs.get(dv.ops[0])
                        if dv is not None and dv.op == 'call' and dv.callee == 'check_level_req' and nonzero_edge(f, pb, val):
                            err_edges.append((pb, 'check_level_req()'))
        kinds = {e[1] for e in err_edges}
        if codes['INVALID_FLUSH'] not in kinds or 'check_level_req()' not in kinds:
            R.fail(mod.where(f, None), 'expected an INVALID_FLUSH return and a return of check_level_req()\'s result; found %s' % sorted(map(str, kinds)), key='R-REJECT-FIRST|%s|shape' % fn)
            continue
        eff = irrules.effects(mod, f, S)
        # predecessors relation for backward reachability
        for eb, code in err_edges:
            back = set()
            work = [eb]
            while work:
                b = work.pop()
                if b in back:
                    continue
                back.add(b)
                work += f.blocks[b].preds
            bad = []
            for i, atoms in eff:
                if i.block in back:
                    h = output_effect(atoms, zs)
                    if h:
                        bad.append((i, h[0]))
            if bad:
                for i, h in bad[:3]:
                    R.fail(mod.where(f, i), '%s on a path that ends in the error return %s' % (h, code), key='R-REJECT-FIRST|%s|%s' % (fn, code))
            else:
                R.ok(1, sample='%s: return %s reached through %d blocks with no output-side effect' % (fn, code, len(back)))


def check_level_switch(rep, mod):
    R = rep.rule('R-LEVEL-SWITCH', 'check_level_req: level 0 passes; NULL level_buf is rejected; the switch has arms exactly {1,2,3}, arm n compares level_buf_size with ISAL_DEF_LVLn_MIN; default rejects', floor=1, unit='functions')
    f = mod.funcs.get('check_level_req')
    if f is None:
        raise AnalysisBroken('check_level_req not found')
    R.instance()
    P = irrules.prov(mod, f)
    zs = c19.field_offsets('struct isal_zstream', ['level', 'level_buf', 'level_buf_size'])
    mins, _ = mirror.c_values('default', ['igzip_lib.h'], [('L%d' % n, 'ISAL_DEF_LVL%d_MIN' % n) for n in (1, 2, 3)] +
                              [('OK', 'COMP_OK'), ('LVL', 'ISAL_INVALID_LEVEL'), ('BUF', 'ISAL_INVALID_LEVEL_BUF')], 'c10_lvl')
    rs = irrules.ret_set(mod, 'check_level_req')
    R.check(rs <= {mins['OK'], mins['LVL'], mins['BUF']} and mins['OK'] in rs and mins['LVL'] in rs and mins['BUF'] in rs, 'igzip/igzip.c:check_level_req',
            'return set %s is not {COMP_OK, ISAL_INVALID_LEVEL, ISAL_INVALID_LEVEL_BUF}' % sorted(map(str, rs)), sample='returns %s' % sorted(rs))
    sw = [i for i in f.all_insns() if i.op == 'switch']
    if len(sw) != 1:
        raise AnalysisBroken('check_level_req: expected exactly one switch, found %d' % len(sw))
    sw = sw[0]
    R.check(('mem', ('param', 0, zs['level'])) in P.deps(sw.ops[0]), mod.where(f, sw), 'the switch is not on stream->level')
    cases = dict(sw.extra['cases'])
    R.check(set(cases) == {1, 2, 3}, mod.where(f, sw), 'switch arms are %s, expected exactly {1, 2, 3}' % sorted(cases), sample='arms %s' % sorted(cases))
    rv = irrules.returns_via(f, sw.extra['default'])
    R.check(rv and 0 not in rv and 'var' not in rv, mod.where(f, sw), 'default arm can return %s (must reject unknown levels)' % sorted(map(str, rv)), key='R-LEVEL-SWITCH|default')
    for n, lab in sorted(cases.items()):
        blk = f.blocks[lab]
        t = blk.insns[-1]
        c = f.defs.get(t.extra.get('cond')) if t.op == 'br' else None
        ok = False
        msg = 'arm %d does not compare level_buf_size with a constant' % n
        if c is not None and c.op == 'icmp':
            deps = P.deps(c.ops[0])
            const = c.ops[1]
            if ('mem', ('param', 0, zs['level_buf_size'])) in deps and re.match(r'^\d+$', const):
                want = mins['L%d' % n]
                pred = c.extra['pred']
                if pred == 'ult' and int(const) == want:
                    fail = t.extra['targets'][0]
                    frv = irrules.returns_via(f, fail)
                    ok = bool(frv) and 0 not in frv and 'var' not in frv
                    msg = 'arm %d: the too-small edge can return %s' % (n, sorted(map(str, frv)))
                else:
                    msg = 'arm %d compares level_buf_size %s %s, expected "< ISAL_DEF_LVL%d_MIN" (= %d)' % (n, pred, const, n, want)
        R.check(ok, mod.where(f, t), msg, key='R-LEVEL-SWITCH|arm%d' % n, sample='arm %d: level_buf_size < %d rejected' % (n, mins['L%d' % n]) if n == 3 else None)
    # level 0 and NULL buffer tests dominate the switch
    pre = []
    for b, br, c in irrules.cond_branches(mod, f):
        if c is not None and c.op == 'icmp' and f.dominates(b, sw.block):
            pre.append((b, br, c))
    seen_level0 = any(('mem', ('param', 0, zs['level'])) in P.deps(c.ops[0]) and c.ops[1] == '0' and c.extra['pred'] == 'eq' and irrules.returns_via(f, br.extra['targets'][0]) == {0} for b, br, c in pre)
    seen_null = any(('mem', ('param', 0, zs['level_buf'])) in P.deps(c.ops[0]) and c.ops[1] == 'null' and c.extra['pred'] == 'eq' and
                    irrules.returns_via(f, br.extra['targets'][0]) == {mins['BUF']} for b, br, c in pre)
    R.check(seen_level0, mod.where(f, None), 'no "level == 0 -> COMP_OK" test before the switch', key='R-LEVEL-SWITCH|level0')
    R.check(seen_null, mod.where(f, None), 'no "level_buf == NULL -> ISAL_INVALID_LEVEL_BUF" test before the switch', key='R-LEVEL-SWITCH|null')


def check_level_min(rep, config):
    R = rep.rule('T-LEVEL-MIN[%s]' % config, 'ISAL_DEF_LVLn_MIN >= size of the level-n structures + one token, so that icf_buf_avail_out = level_buf_size - level_struct_size - sizeof(struct deflate_icf) cannot underflow', floor=3, unit='levels')
    mod = llir.library(config)
    f = mod.funcs.get('init_lvlX_buf')
    if f is None:
        raise AnalysisBroken('init_lvlX_buf not found')
    sw = [i for i in f.all_insns() if i.op == 'switch']
    if len(sw) != 1:
        raise AnalysisBroken('init_lvlX_buf: expected one switch')
    cases = dict(sw[0].extra['cases'])
    need = {}
    for n in (1, 2, 3):
        lab = cases.get(n, sw[0].extra['default'])
        calls = [i for i in f.blocks[lab].insns if i.op == 'call' and i.callee in mod.funcs]
        if len(calls) != 1:
            raise AnalysisBroken('init_lvlX_buf: arm for level %d does not call exactly one initialiser' % n)
        rs = irrules.ret_set(mod, calls[0].callee)
        if len(rs) != 1 or not all(isinstance(x, int) for x in rs):
            raise AnalysisBroken('%s does not return a single constant size (%s)' % (calls[0].callee, rs))
        need[n] = (list(rs)[0], calls[0].callee)
    v, drop = mirror.c_values(config, ['igzip_lib.h', 'igzip_level_buf_structs.h'], [('L%d' % n, 'ISAL_DEF_LVL%d_MIN' % n) for n in (1, 2, 3)] +
                              [('tok', 'sizeof(struct deflate_icf)'), ('lvl1fallback', 'sizeof(((struct isal_zstate*)0)->buffer) + sizeof(((struct isal_zstate*)0)->head)')], 'c10_min')
    for n in (1, 2, 3):
        R.instance()
        sz, fn = need[n]
        R.check(v['L%d' % n] >= sz + v['tok'], 'include/igzip_lib.h:ISAL_DEF_LVL%d_MIN [%s]' % (n, config),
                'is %d but level %d needs %d bytes of structures (%s) + %d for one token' % (v['L%d' % n], n, sz, fn, v['tok']), key='T-LEVEL-MIN|%s|%d' % (config, n),
                sample='[%s] LVL%d_MIN=%d >= %d+%d' % (config, n, v['L%d' % n], sz, v['tok']))
    R.instance()
    R.check(v['lvl1fallback'] >= v['L1'], 'igzip/igzip.c:isal_deflate_stateless [%s]' % config, 'the internal level-1 fallback buffer (%d bytes) is smaller than ISAL_DEF_LVL1_MIN (%d)' % (v['lvl1fallback'], v['L1']),
            key='T-LEVEL-MIN|%s|fallback' % config, sample='[%s] stateless level-1 fallback buffer %d >= %d' % (config, v['lvl1fallback'], v['L1']))


def check_out_guard(rep):
    import provenance, outguard, kernels
    R = rep.rule('M-OUT-GUARD', 'asm Huffman encoders (encode_deflate_icf_<isa>): every store through the output pointer is preceded on every path, with no redefinition of the pointer in between, by a compare against a '
                 'bound register that equals BitBuf2.m_out_end + c for a bounded set of constants c (the offset does not accumulate around any loop), and max(c) + displacement + store width <= the reserve set_buf() '
                 'keeps behind m_out_end (for stores with a data-dependent non-negative index: with index 0, a necessary condition)', floor=2, unit='kernels')
    res, _ = provenance.analyse('default')
    o = kernels.offsets()['deflate']
    mg = outguard.margin()
    n = 0
    for sym, info in sorted(res.items()):
        if info['fam']['family'] != 'igzip_encode_df':
            continue
        n += 1
        R.instance()
        u, f = info['unit'], info['func']
        r = outguard.analyse(u, f, info['flow'], info['accesses'], o['_m_out_buf'], o['_m_out_end'])
        if not r['stores'] or not r['nguards']:
            raise AnalysisBroken('%s: no output stores / bound compares recognised (%d/%d)' % (sym, len(r['stores']), r['nguards']))
        for i, reg, disp, width, g, indexed in r['stores']:
            where = '%s: %s' % (u.name, u.where(i, f))
            key = 'M-OUT-GUARD|%s|%#x' % (sym, i.addr - f.entry)
            if isinstance(g, str):
                R.fail(where, 'store of %d bytes through the output pointer %s: %s' % (width, reg, g), key=key)
                continue
            bad = None
            for (greg, slack, cmpi) in g:
                if slack == outguard.TOP:
                    bad = 'the bound checked by "%s" (%s) is not m_out_end plus a bounded constant: its offset changes from one loop iteration to the next, so the check stops limiting the output pointer' % (cmpi.text, u.where(cmpi, f))
                elif max(slack) + disp + width > mg:
                    bad = 'the check "%s" (%s) admits pointer <= m_out_end%+d; a %d-byte store at displacement %d may then end %d bytes past the %d-byte reserve behind m_out_end' % (
                        cmpi.text, u.where(cmpi, f), max(slack), width, disp, max(slack) + disp + width - mg, mg)
            R.check(bad is None, where, bad or '', key=key,
                    sample='%s: %d-byte store%s guarded by pointer <= m_out_end%+d (reserve %d)' % (sym, width, ' (indexed)' if indexed else '', max(max(s) for _, s, _ in g), mg) if bad is None and (width >= 16 or indexed) else None)
        for i in r['undecided']:
            R.notes.append('%s: store without a base register not decided: %s' % (sym, i.text))
    if n == 0:
        raise AnalysisBroken('no encode_deflate_icf kernels found')
    # level-0 bodies: bit buffer inside the stream, bound compared as a memory operand
    import mirror
    R0 = rep.rule('M-OUT-GUARD-L0', 'level-0 asm bodies (isal_deflate_body_<isa>, isal_deflate_finish_01): every store through the output pointer is preceded on every path, with no advance of the pointer in between, '
                  'by "cmp pointer, [stream->internal_state.bitbuf.m_out_end]" whose pass edge leads to it; displacement + width <= the reserve the kernel itself subtracts when it sets m_out_end (SLOP), which equals set_buf()\'s', floor=4, unit='kernels')
    av, drop = mirror.asm_values('default', ['options.asm', 'lz0a_const.asm', 'data_struct2.asm', 'bitbuf2.asm'], ['SLOP'], 'c10_slop')
    slop = av.get('SLOP')
    for sym, info in sorted(res.items()):
        if info['fam']['family'] != 'igzip_deflate' or 'icf' in sym:
            continue
        R0.instance()
        u, f = info['unit'], info['func']
        stores, ng = outguard.analyse_stream(u, f, info['flow'], info['accesses'], o['_internal_state_bitbuf_m_out_end'])
        if not stores or not ng:
            raise AnalysisBroken('%s: no output stores / m_out_end comparisons recognised (%d/%d)' % (sym, len(stores), ng))
        R0.check(slop == mg, '%s:%s' % (u.name, sym), 'asm SLOP is %s, set_buf() reserves %d bytes behind m_out_end' % (slop, mg), key='M-OUT-GUARD-L0|%s|slop' % sym)
        for i, reg, disp, width, g in stores:
            ok = not isinstance(g, str) and disp + width <= mg
            R0.check(ok, '%s: %s' % (u.name, u.where(i, f)), 'store of %d bytes at displacement %d through the output pointer: %s' % (width, disp, g if isinstance(g, str) else 'exceeds the %d-byte reserve' % mg),
                     key='M-OUT-GUARD-L0|%s|%#x' % (sym, i.addr - f.entry), sample='%s: %d-byte store after cmp with m_out_end (%d guard edges)' % (sym, width, g) if not isinstance(g, str) and sym.endswith('_04') else None)


def check_stored_bound(rep, mod):
    """isal_deflate_stateless falls back to stored blocks when the output space is at least `stored_len` and reports overflow below it; for every
    wrapper the bound has to include exactly the header and trailer that wrapper emits.  With avail_in fixed to 0 and gzip_flag to each of its five
    values the bound is a compile-time constant: constant propagation through the function (CONSTINTERP) yields it."""
    import constinterp, mirror
    R = rep.rule('T-STORED-WRAP', 'isal_deflate_stateless: for each of the five wrapper modes, the constant the output space is compared with for an empty input (constant propagation with gzip_flag fixed, avail_in = 0) '
                 'equals one stored-block header (5) + the RFC 1952 / RFC 1950 header size of that mode (10 / 2 / none) + its trailer size (8 / 4 / none)', floor=5, unit='wrapper modes')
    f = mod.funcs.get('isal_deflate_stateless')
    if f is None:
        raise AnalysisBroken('isal_deflate_stateless not found')
    P = irrules.prov(mod, f)
    off = c19.field_offsets('struct isal_zstream', ['gzip_flag', 'avail_in', 'avail_out'])
    exp = {'IGZIP_DEFLATE': 5, 'IGZIP_GZIP': 5 + 10 + 8, 'IGZIP_GZIP_NO_HDR': 5 + 8, 'IGZIP_ZLIB': 5 + 2 + 4, 'IGZIP_ZLIB_NO_HDR': 5 + 4}
    vals, drop = mirror.c_values('default', ['igzip_lib.h'], [(n, n) for n in exp], 'c10_flags')
    if drop:
        raise AnalysisBroken('wrapper flags %s not found' % drop)
    for n, want in sorted(exp.items()):
        R.instance()
        seen = {}

        def hook(i, flag=vals[n]):
            at = P.atoms(i.ops[0])
            if at == {('param', 0, off['gzip_flag'])}:
                return flag
            if at == {('param', 0, off['avail_in'])}:
                return 0
            return None

        def obs(i, env, ip):
            if i.op == 'icmp' and i.extra['pred'] in ('uge', 'ult', 'ugt', 'ule'):
                a, b = ip.val(i.ops[0], env), ip.val(i.ops[1], env)
                if b != constinterp.TOP and a == constinterp.TOP and ('mem', ('param', 0, off['avail_out'])) in P.deps(i.ops[0]):
                    seen.setdefault(b, i)
        constinterp.Interp(mod, f, obs, load_hook=hook).run()
        if not seen:
            raise AnalysisBroken('isal_deflate_stateless [%s]: no comparison of the output space with a constant found' % n)
        R.check(set(seen) == {want}, mod.where(f, list(seen.values())[0]), 'mode %s: the output space is compared with %s for an empty input; one stored-block header plus this mode\'s header and trailer need %d bytes - '
                'with a smaller bound the call succeeds without room for the trailer, with a larger one it refuses a buffer that is big enough' % (n, sorted(seen), want), key='T-STORED-WRAP|%s' % n,
                sample='%s: bound %d' % (n, want))


def check_stored_blocks(rep, mod):
    """the same bound as a function of the input size: a stored block carries at most 65535 bytes (RFC 1951 3.2.4: LEN is 16 bits) behind a 5-byte
    header, so n input bytes need n + 5 * max(1, ceil(n / 65535)) bytes.  The bound is evaluated by constant propagation at the sizes where the block
    count steps (k * 65535 - 1, k * 65535, k * 65535 + 1) and at the ends of the 32-bit range."""
    import constinterp, mirror
    R = rep.rule('T-STORED-BLOCKS', 'isal_deflate_stateless, raw deflate: for each input size at which the number of stored blocks steps (0, 1, k*65535-1, k*65535, k*65535+1 for k = 1, 2, 3, 257, and the '
                 'largest sizes whose bound still fits 32 bits) the constant the output space is compared with (constant propagation with avail_in fixed) equals n + 5 * max(1, ceil(n / 65535)): one 5-byte header '
                 'per started stored block of at most 65535 bytes (RFC 1951 3.2.4)', floor=14, unit='input sizes')
    f = mod.funcs.get('isal_deflate_stateless')
    if f is None:
        raise AnalysisBroken('isal_deflate_stateless not found')
    P = irrules.prov(mod, f)
    off = c19.field_offsets('struct isal_zstream', ['gzip_flag', 'avail_in', 'avail_out'])
    vals, drop = mirror.c_values('default', ['igzip_lib.h'], [('IGZIP_DEFLATE', 'IGZIP_DEFLATE')], 'c10_flag0')
    if drop:
        raise AnalysisBroken('IGZIP_DEFLATE not found')
    MAXB, HDR = 65535, 5
    sizes = [0, 1]
    for k in (1, 2, 3, 257):
        sizes += [k * MAXB - 1, k * MAXB, k * MAXB + 1]
    top = (1 << 32) - 1
    kmax = top // (MAXB + HDR)              # the largest whole number of full blocks whose bound fits 32 bits
    sizes += [kmax * MAXB - 1, kmax * MAXB]
    for n in sizes:
        want = n + HDR * max(1, -(-n // MAXB))
        if want > top:
            continue
        R.instance()
        seen = {}

        def hook(i, n=n):
            at = P.atoms(i.ops[0])
            if at == {('param', 0, off['gzip_flag'])}:
                return vals['IGZIP_DEFLATE']
            if at == {('param', 0, off['avail_in'])}:
                return n
            return None

        def obs(i, env, ip):
            if i.op == 'icmp' and i.extra['pred'] in ('uge', 'ult', 'ugt', 'ule'):
                a, b = ip.val(i.ops[0], env), ip.val(i.ops[1], env)
                if b != constinterp.TOP and a == constinterp.TOP and ('mem', ('param', 0, off['avail_out'])) in P.deps(i.ops[0]):
                    seen.setdefault(b, i)
        constinterp.Interp(mod, f, obs, load_hook=hook).run()
        if not seen:
            raise AnalysisBroken('isal_deflate_stateless [avail_in = %d]: no comparison of the output space with a constant found' % n)
        R.check(set(seen) == {want}, mod.where(f, list(seen.values())[0]), 'avail_in = %d: the output space is compared with %s; %d stored block(s) of at most 65535 bytes with a 5-byte header each need %d bytes - with a '
                'larger bound a buffer that holds the stored form is refused with STATELESS_OVERFLOW, with a smaller one the stored fallback runs out of space' % (n, sorted(seen), max(1, -(-n // MAXB)), want),
                key='T-STORED-BLOCKS|%d' % n, sample='n = %d: bound %d' % (n, want))


def check_stored_blocks_icf(rep, mod):
    """create_icf_block_hdr (levels 1-3) decides between a compressed and a stored block with the same block-count formula, plus the bytes that the
    pending bits and the 3-bit stored header occupy ((m_bit_count + 2) / 8)."""
    import constinterp
    R = rep.rule('T-STORED-BLOCKS-ICF', 'create_icf_block_hdr: with the block size (block_end - block_next) and the number of pending bits fixed, the constant that the compressed size and the available output are compared '
                 'with (constant propagation) equals n + 5 * max(1, ceil(n / 65535)) + (bits + 2) / 8, at the sizes where the stored-block count steps and for 0, 5, 6 and 7 pending bits', floor=20, unit='size x pending-bits pairs')
    f = mod.funcs.get('create_icf_block_hdr')
    if f is None:
        raise AnalysisBroken('create_icf_block_hdr not found')
    P = irrules.prov(mod, f)
    zs = c19.field_offsets('struct isal_zstream', ['internal_state'])['internal_state']
    st = c19.field_offsets('struct isal_zstate', ['block_end', 'block_next', 'bitbuf'])
    mbc = zs + st['bitbuf'] + c19.field_offsets('struct BitBuf2', ['m_bit_count'])['m_bit_count']
    be, bn = ('mem', ('param', 0, zs + st['block_end'])), ('mem', ('param', 0, zs + st['block_next']))
    pv = [i for i in f.all_insns() if i.op == 'sub' and P.deps(i.ops[0]) == {be} and P.deps(i.ops[1]) == {bn}]
    if len(pv) != 1:
        raise AnalysisBroken('create_icf_block_hdr: expected one block_end - block_next, found %d' % len(pv))
    MAXB, HDR = 65535, 5

    def run(n, b):
        seen = {}

        def lh(i):
            return b if P.atoms(i.ops[0]) == {('param', 0, mbc)} else None

        def obs(i, env, ip):
            if i.op == 'icmp' and i.extra['pred'] in ('uge', 'ult', 'ugt', 'ule'):
                a, c = ip.val(i.ops[0], env), ip.val(i.ops[1], env)
                if (a == constinterp.TOP) != (c == constinterp.TOP):
                    seen[i.dst] = (c if a == constinterp.TOP else a, i)
        constinterp.Interp(mod, f, obs, load_hook=lh, value_hook=lambda i: n if i is pv[0] else None).run()
        return seen
    base, other = run(0, 0), run(3 * MAXB + 7, 0)
    sites = sorted(d for d in base if d in other and base[d][0] != other[d][0])     # the comparisons whose constant depends on the block size
    if not sites:
        raise AnalysisBroken('create_icf_block_hdr: no comparison with a constant that depends on the block size found')
    sizes = [0, 1, MAXB - 1, MAXB, MAXB + 1, 2 * MAXB, 2 * MAXB + 1, 257 * MAXB]
    for n in sizes:
        for b in (0, 5, 6, 7):
            R.instance()
            want = n + HDR * max(1, -(-n // MAXB)) + (b + 2) // 8
            seen = run(n, b)
            got = sorted(set(seen[d][0] for d in sites if d in seen))
            if not got:
                raise AnalysisBroken('create_icf_block_hdr [n = %d, bits = %d]: the size comparisons were not reached' % (n, b))
            R.check(got == [want], mod.where(f, seen[[d for d in sites if d in seen][0]][1]), 'block of %d bytes with %d pending bits: the stored size used in the fit test is %s; %d stored block(s) with a 5-byte header each '
                    'plus the byte(s) taken by the pending bits and the 3-bit header need %d - a larger value stores nothing where a stored block fits and is smaller, a smaller value writes a stored block into '
                    'less space than it needs' % (n, b, got, max(1, -(-n // MAXB)), want), key='T-STORED-BLOCKS-ICF|%d|%d' % (n, b), sample='n = %d, bits = %d: %d' % (n, b, want))


def check_isfull_c(rep, mod):
    """portable encoders: the 64-bit bit buffer is flushed by write_bits() / flush_bits() with an 8-byte store at m_out_buf; set_buf() keeps 8 bytes in
    reserve behind m_out_end, enough for exactly one such store after is_full() said no."""
    R = rep.rule('R-ISFULL-C', 'portable match finders and the portable ICF encoder: every call that flushes the bit buffer to the output (write_bits, flush_bits) is preceded on every path by the "not full" edge of an '
                 'is_full() test with no other flushing call in between (one 8-byte store per test); write_bits_unsafe only accumulates', floor=3, unit='functions')
    flushers = {'write_bits', 'flush_bits', 'write_bits_flush', 'flush'}
    for fn in ('isal_deflate_body_base', 'isal_deflate_finish_base', 'encode_deflate_icf_base'):
        f = mod.funcs.get(fn)
        if f is None:
            raise AnalysisBroken(fn + ' not found')
        R.instance()
        sites = [i for i in f.all_insns() if i.op == 'call' and base_name(i.callee) in flushers]
        tests = [i for i in f.all_insns() if i.op == 'call' and base_name(i.callee) == 'is_full']
        if not sites or not tests:
            raise AnalysisBroken('%s: expected flushing calls and is_full tests (found %d/%d)' % (fn, len(sites), len(tests)))
        # pass edges: (block, successor) where the branch condition derives from an is_full result and the successor is the "== 0" side
        passedge = set()

        def notfull_when(v, depth=0):
            """True / False: the i1 value v being that constant implies is_full() returned 0; None: no such implication"""
            d = f.defs.get(v)
            if d is None or depth > 6:
                return None
            if d.op == 'icmp' and d.ops[1] == '0' and d.extra['pred'] in ('ne', 'eq'):
                src = f.defs.get(irrules._strip(f, d.ops[0]))
                if src is not None and src.op == 'call' and base_name(src.callee) == 'is_full':
                    return d.extra['pred'] == 'eq'        # (is_full == 0) is true  <=> not full
                return None
            if d.op == 'xor' and 'true' in d.ops:
                other = [o for o in d.ops if o != 'true'][0]
                r = notfull_when(other, depth + 1)
                return None if r is None else (not r)
            if d.op in ('zext', 'trunc', 'freeze'):
                return notfull_when(d.ops[0], depth + 1)
            if d.op == 'phi':
                # short-circuit &&: every other incoming value is the constant false, so "true" can only come from the one computed operand
                nonconst = [v2 for v2, _ in d.extra['incoming'] if v2 not in ('true', 'false')]
                consts = {v2 for v2, _ in d.extra['incoming'] if v2 in ('true', 'false')}
                if len(nonconst) == 1 and consts <= {'false'}:
                    r = notfull_when(nonconst[0], depth + 1)
                    return True if r is True else None
                return None
            return None
        for b in f.order:
            t = f.blocks[b].insns[-1]
            if t.op != 'br' or not t.extra.get('cond'):
                continue
            r = notfull_when(t.extra['cond'])
            if r is None:
                continue
            tt, tf = t.extra['targets']
            passedge.add((b, tt if r else tf))
        for s_ in sites:
            problem = None
            seen = set()
            work = [(s_.block, s_.idx)]
            while work and problem is None:
                b, upto = work.pop()
                hit = None
                for j in reversed(f.blocks[b].insns[:upto]):
                    if j.op == 'call' and base_name(j.callee) in flushers:
                        hit = j
                        break
                if hit is not None:
                    problem = 'another flush (%s at %s) reaches it without an is_full() test in between' % (base_name(hit.callee), mod.where(f, hit))
                    break
                if not f.blocks[b].preds:
                    problem = 'it is reachable from the function entry without an is_full() test'
                    break
                for p_ in f.blocks[b].preds:
                    if (p_, b) in passedge or (p_, b) in seen:
                        continue
                    seen.add((p_, b))
                    work.append((p_, len(f.blocks[p_].insns)))
            R.check(problem is None, mod.where(f, s_), '%s: %s flushes the bit buffer to the output, but %s: the 8-byte store can land beyond the reserve behind m_out_end' % (fn, base_name(s_.callee), problem),
                    key='R-ISFULL-C|%s|%d' % (fn, sites.index(s_)), sample='%s: %d flushes, each after its own is_full() test' % (fn, len(sites)))


def base_name(n):
    return re.sub(r'\.\d+$', '', n)


def check_icf_full_state(rep, mod):
    """the level 1-3 bodies turn input into ICF tokens in a buffer of the level buffer; when that buffer is full the only way forward is ZSTATE_CREATE_HDR (encode and drain the tokens)"""
    R = rep.rule('R-ICF-FULL-STATE', 'in the portable ICF bodies (isal_deflate_icf_body_hash_hist_base, isal_deflate_icf_finish_hash_hist_base, isal_deflate_icf_finish_hash_map_base) every edge taken when the token cursor '
                 'has reached the end of the token buffer (next_out >= end_out) leads to a return only through a store of ZSTATE_CREATE_HDR to the state: a call that stops because no token fits hands over to the '
                 'state that empties the buffer, otherwise every later call comes back here with nothing done', floor=4, unit='token-buffer-full edges')
    Kc, drop = mirror.c_values('default', ['igzip_lib.h'], [('CH', 'ZSTATE_CREATE_HDR')], 'c10_ch')
    if drop:
        raise AnalysisBroken('ZSTATE_CREATE_HDR not found')
    off = c19.field_offsets('struct isal_zstream', ['internal_state.state'])['internal_state.state']
    for fn in ('isal_deflate_icf_body_hash_hist_base', 'isal_deflate_icf_finish_hash_hist_base', 'isal_deflate_icf_finish_hash_map_base'):
        f = mod.funcs.get(fn)
        if f is None:
            raise AnalysisBroken('%s not found' % fn)
        P = irrules.prov(mod, f)
        sets = {i.block for i in f.all_insns() if i.op == 'store' and re.match(r'^\d+$', i.ops[0]) and int(i.ops[0]) == Kc['CH'] and any(a[0] == 'param' and a[1] == 0 and a[2] == off for a in P.atoms(i.ops[1]))}
        if not sets:
            raise AnalysisBroken('%s never stores ZSTATE_CREATE_HDR' % fn)
        succ = {b: list(f.blocks[b].insns[-1].extra.get('targets') or []) for b in f.order}
        for b in f.order:
            br = f.blocks[b].insns[-1]
            c0 = f.defs.get(br.extra.get('cond', '')) if br.op == 'br' and br.extra.get('cond') else None
            if c0 is None:
                continue
            # a short-circuit condition (a && b) arrives as a phi of i1: each comparison that feeds it decides the branch on the path it comes from
            cmps = [c0] if c0.op == 'icmp' else [f.defs.get(v) for v, _ in c0.extra['incoming']] if c0.op == 'phi' else []
            for c in cmps:
                if c is None or c.op != 'icmp' or not (c.ty or '').endswith('*') or (c.ty or '') == 'i8*':
                    continue
                tt, tf = br.extra['targets']
                full = {'uge': tt, 'ugt': tt, 'ult': tf, 'ule': tf}.get(c.extra['pred'])
                if full is None:
                    continue
                R.instance()
                seen, work, esc = set(), [full], None
                while work and esc is None:
                    x = work.pop()
                    if x in seen or x in sets:
                        continue
                    seen.add(x)
                    if f.blocks[x].insns[-1].op == 'ret':
                        esc = x
                    work += succ.get(x, [])
                R.check(esc is None, mod.where(f, c), '%s: when the token buffer is full (this comparison) the function can return without storing ZSTATE_CREATE_HDR (through %s): the state machine stays in a state whose only '
                        'action is to call this function again with a full token buffer' % (fn, sorted(seen)[:5]), key='R-ICF-FULL-STATE|%s|%s' % (fn, b), sample='%s: full -> ZSTATE_CREATE_HDR' % fn)



def check_out8_guard_c(rep, mod):
    """The bit buffer writes whole 64-bit words at its cursor: write_bits / write_bits_flush / flush store 8 bytes whatever the number of bits.  A streaming routine that points
    the bit buffer at the caller's next_out may therefore only write when at least 8 bytes of output are left - not when the handful of bytes it logically produces would fit."""
    R = rep.rule('R-OUT8-GUARD-C', 'streaming C routines that point the bit buffer at next_out (sync_flush, write_header, write_type0_header, flush_write_buffer, write_trailer): every call of write_bits / '
                 'write_bits_flush / flush is unreachable once the edges that establish avail_out >= 8 (avail_out compared with a constant: >= c with c >= 8, > c with c >= 7, or the continuing edge of '
                 '< c / <= c) are removed from the flow graph: the unconditional 8-byte store of the bit buffer stays inside the output space', floor=5, unit='functions')
    ao = c19.field_offsets('struct isal_zstream', ['avail_out'])['avail_out']
    for fn in ('sync_flush', 'write_header', 'write_type0_header', 'flush_write_buffer', 'write_trailer'):
        f = mod.funcs.get(fn)
        if f is None:
            raise AnalysisBroken('%s not found' % fn)
        R.instance()
        P = irrules.prov(mod, f)
        calls = [i for i in f.all_insns() if i.op == 'call' and i.callee in ('write_bits', 'write_bits_flush', 'flush', 'write_bits_unsafe')]
        if not calls:
            raise AnalysisBroken('%s: no bit-buffer write found' % fn)
        safe = set()
        for b, t, c in irrules.cond_branches(mod, f):
            if c is None or c.op != 'icmp':
                continue
            for x, y, flip in ((c.ops[0], c.ops[1], False), (c.ops[1], c.ops[0], True)):
                d = f.defs.get(irrules._strip(f, x))
                if d is None or d.op != 'load' or P.atoms(d.ops[0]) != {('param', 0, ao)} or not re.match(r'^\d+$', y):
                    continue
                k, pred = int(y), c.extra['pred']
                if flip:
                    pred = {'ult': 'ugt', 'ule': 'uge', 'ugt': 'ult', 'uge': 'ule'}.get(pred, pred)
                tt, tf = t.extra['targets']
                if (pred == 'uge' and k >= 8) or (pred == 'ugt' and k >= 7):
                    safe.add((b, tt))
                if (pred == 'ult' and k >= 8) or (pred == 'ule' and k >= 7):
                    safe.add((b, tf))
        seen, work = set(), [f.entry()]
        while work:
            b = work.pop()
            if b in seen:
                continue
            seen.add(b)
            work += [s_ for s_ in f.blocks[b].succs if (b, s_) not in safe]
        bad = [c for c in calls if c.block in seen]
        R.check(not bad, mod.where(f, bad[0]) if bad else mod.where(f, None), '%s calls %s on a path that never established avail_out >= 8: the bit buffer stores a 64-bit word at next_out, so up to 7 bytes '
                'behind the caller\'s output space are overwritten' % (fn, bad[0].callee if bad else ''), key='R-OUT8-GUARD-C|%s' % fn, sample='%s: %d bit-buffer write(s) behind avail_out >= 8' % (fn, len(calls)))


def check_eos_truth(rep, mod):
    """end_of_stream is documented as "non-zero if this is the last input buffer": every place that consults it has to test it against zero.  A comparison with 1 treats the
    value 2 as "not the end": the level-0 finish emits a sync flush instead of the trailer and the stream never reaches the end state."""
    import asmdb, c19
    from asmdb import is_mem, parse_mem
    R = rep.rule('L-EOS-TRUTH', 'every comparison of stream->end_of_stream with a constant, in the C code (icmp on a value loaded from the field) and in the asm deflate kernels (cmp [reg + _end_of_stream], imm), '
                 'compares with 0: the field is documented as non-zero = last buffer', floor=20, unit='tests of end_of_stream')
    eo = c19.field_offsets('struct isal_zstream', ['end_of_stream'])['end_of_stream']
    n = 0
    for fn, f in sorted(mod.funcs.items()):
        pidx = [k for k, (t, _) in enumerate(f.params) if 'struct.isal_zstream*' in t]
        if not pidx:
            continue
        P = irrules.prov(mod, f)
        for i in f.all_insns():
            if i.op != 'icmp':
                continue
            for a, b in ((i.ops[0], i.ops[1]), (i.ops[1], i.ops[0])):
                d = f.defs.get(irrules._strip(f, a))
                if d is None or d.op != 'load' or P.atoms(d.ops[0]) != {('param', pidx[0], eo)} or not re.match(r'^-?\d+$', b):
                    continue
                n += 1
                R.instance()
                R.check(int(b) == 0, mod.where(f, i), '%s compares end_of_stream with %s: a caller that marks the last buffer with another non-zero value is not recognised here (the trailer is never written / the '
                        'end state never reached)' % (fn, b), key='L-EOS-TRUTH|%s|%s' % (fn, i.line or i.block), sample='%s: end_of_stream tested against 0' % fn)
    units = asmdb.units('default')
    for un, u in sorted(units.items()):
        for fn, f in sorted(u.funcs.items()):
            if not re.match(r'^isal_deflate_(body|finish|icf_body_hash_hist|icf_finish_hash_hist)_0\d$', fn):
                continue
            for a in f.addrs:
                i = u.insns[a]
                if i.mn != 'cmp' or len(i.ops) != 2 or not is_mem(i.ops[0]) or not re.match(r'^(0x[0-9a-f]+|\d+)$', i.ops[1]):
                    continue
                pm = parse_mem(i.ops[0])
                if not pm or pm['index'] or pm['disp'] != eo or pm['base'] in ('rsp', 'rbp'):
                    continue
                n += 1
                R.instance()
                R.check(int(i.ops[1], 0) == 0, '%s: %s' % (un, u.where(i, f)), '%s compares end_of_stream with %s' % (fn, i.ops[1]), key='L-EOS-TRUTH|%s|%x' % (fn, a - f.addrs[0]),
                        sample='%s: cmp [stream + _end_of_stream], 0' % fn)
    if n == 0:
        raise AnalysisBroken('L-EOS-TRUTH: no test of end_of_stream found')


def main(tier):
    rep = Report('C10', tier, level='other')
    rep.undecided = UNDECIDED
    rep.explanation = ('Dataflow over the linked LLVM IR: every path that ends in an INVALID_FLUSH / invalid-level / invalid-level-buffer return of isal_deflate and isal_deflate_stateless is shown to contain '
                       'no write through next_out and no update of the output counters, using interprocedural write summaries (C callees and asm kernels); the level validation switch is checked arm by arm '
                       'against the ISAL_DEF_LVLn_MIN constants, and those constants against the sizes the level structures actually need, in all three window configurations. Byte counts, the stored-block '
                       'bound and termination are run-time quantities and are not decided.')
    rep.trusted = ['clang IR + sroa', 'tools/llir.py provenance and write summaries (unknown provenance counts as an output effect)', 'asm write summaries from ASMFLOW']
    mod = llir.library('default')
    S = c19.summaries(mod)
    rep.attempt(check_reject_first, rep, mod, S)
    rep.attempt(check_level_switch, rep, mod)
    for c in CONFIGS:
        check_level_min(rep, c)
    import c01
    for c in CONFIGS:
        c01.check_wrapper_consts(rep, c)
    rep.attempt(check_out_guard, rep)
    rep.attempt(check_isfull_c, rep, mod)
    rep.attempt(check_stored_bound, rep, mod)
    rep.attempt(check_stored_blocks, rep, mod)
    rep.attempt(check_stored_blocks_icf, rep, mod)
    import acct
    rep.attempt(acct.check, rep, 'z', 150, c19.field_offsets('struct isal_zstream', ['next_in', 'avail_in', 'total_in', 'next_out', 'avail_out', 'total_out']), c19.field_offsets('struct inflate_state', ['next_in', 'avail_in', 'next_out', 'avail_out', 'total_out']), mod)
    rep.attempt(acct.check_direct_out, rep, mod, c19.field_offsets('struct isal_zstream', ['next_in', 'avail_in', 'total_in', 'next_out', 'avail_out', 'total_out']), 3)
    import asmlin
    rep.attempt(asmlin.check, rep, 'DEFLATE', 60, c19.field_offsets('struct isal_zstream', ['next_in', 'avail_in', 'total_in', 'next_out', 'avail_out', 'total_out']), r'^(isal_deflate_body|isal_deflate_finish|isal_deflate_icf_body_hash_hist|isal_deflate_icf_finish_hash_hist)_0\d$', icf=dict(level_buf=c19.field_offsets('struct isal_zstream', ['level_buf'])['level_buf'],
                          **c19.field_offsets('struct level_buf', ['icf_buf_next', 'icf_buf_avail_out'], headers=('igzip_level_buf_structs.h',))))
    import progress
    rep.attempt(progress.check, rep, mod, 20)
    rep.attempt(check_icf_full_state, rep, mod)
    rep.attempt(check_eos_truth, rep, mod)
    rep.attempt(check_out8_guard_c, rep, mod)
    import siblings
    _names = ['total_in_start', 'block_next', 'block_end', 'dist_mask', 'hash_mask', 'state', 'bitbuf', 'crc', 'has_wrap_hdr', 'has_eob_hdr', 'has_eob', 'has_hist', 'has_level_buf_init', 'count', 'tmp_out_buff',
              'tmp_out_start', 'tmp_out_end', 'b_bytes_valid', 'b_bytes_processed', 'buffer', 'head']
    _user = ['next_in', 'avail_in', 'total_in', 'next_out', 'avail_out', 'total_out', 'hufftables', 'level', 'level_buf_size', 'level_buf', 'end_of_stream', 'flush', 'gzip_flag', 'hist_bits']
    _off = c19.field_offsets('struct isal_zstream', ['internal_state.' + n for n in _names] + _user)
    rep.attempt(siblings.check, rep, 'DEFLATE', mod, {'isal_deflate_body_base': r'^isal_deflate_body_0\d$', 'isal_deflate_finish_base': r'^isal_deflate_finish_0\d$',
                                          'isal_deflate_icf_body_hash_hist_base': r'^isal_deflate_icf_body_hash_hist_0\d$', 'isal_deflate_icf_finish_hash_hist_base': r'^isal_deflate_icf_finish_hash_hist_0\d$'}, sorted([(n.replace('internal_state.', ''), o, 0) for n, o in _off.items()], key=lambda x: x[1]), {'has_eob': 'cleared on entry by the asm bodies; no code of the library ever reads the field (write-only bookkeeping)'}, 8)
    Kst, _dr = mirror.c_values('default', ['igzip_lib.h'], [('ZSTATE_BODY', 'ZSTATE_BODY')], 'c10_zstate')
    rep.attempt(asmlin.check_state_siblings, rep, 'DEFLATE', mod, {'isal_deflate_body_base': r'^isal_deflate_body_0\d$', 'isal_deflate_finish_base': r'^isal_deflate_finish_0\d$',
                                                       'isal_deflate_icf_body_hash_hist_base': r'^isal_deflate_icf_body_hash_hist_0\d$', 'isal_deflate_icf_finish_hash_hist_base': r'^isal_deflate_icf_finish_hash_hist_0\d$'}, c19.field_offsets('struct isal_zstream', ['internal_state.state'])['internal_state.state'], {'isal_deflate_body_base': {Kst['ZSTATE_BODY']}, 'isal_deflate_icf_body_hash_hist_base': {Kst['ZSTATE_BODY']}}, 8)
    return rep.finish()
