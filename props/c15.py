"""C15 - results depend only on arguments: reentrant, thread-safe, deterministic.
Decided: no library code (C: every function of the linked LLVM module; asm: every reachable
instruction) writes library-owned global data except the one-time dispatch-slot stores; those
stores are single, aligned, 8-byte, to their own slot, value determined by CPUID/XGETBV only,
resolvers preserve all registers; no non-reentrant libc callee; init/reset assign every
persistent scalar field that is read."""
import re, collections
from common import Report, AnalysisBroken
import llir, irrules, asmdb, facts, provenance, cbuild
from provenance import base_tag
from asmflow import tag_name

UNDECIDED = ('independence from prior CONTENTS of level_buf, the internal buffer/hash arrays and the output buffer (array contents; would need an initialised-before-read proof over index ranges); '
             'that results are equal across threads is argued only through the absence of shared mutable state')
ALLOWED_EXT = {'memcpy', 'memmove', 'memset', 'memcmp', 'strnlen', 'wmemset', '__assert_fail', '__stack_chk_fail', '__memcpy_chk', '__memset_chk', '__memmove_chk'}
# the only functions that may write a struct isal_hufftables (through their parameter)
HUFF_CREATORS = {'isal_create_hufftables', 'isal_create_hufftables_subset', 'create_code_tables', 'create_packed_len_table', 'create_packed_dist_table'}


def addr_chain_types(mod, f, v, depth=0, seen=None):
    """types of all LOADED pointers on the def chain of address v (to detect writes through escaped table pointers)"""
    seen = seen if seen is not None else set()
    out = []
    if v in seen or depth > 40:
        return out
    seen.add(v)
    i = f.defs.get(v)
    if i is None:
        return out
    if i.op == 'load':
        out.append((i.ty, i))
        return out
    if i.op in ('getelementptr', 'bitcast', 'phi', 'select', 'add', 'sub', 'inttoptr', 'ptrtoint'):
        for o in (i.ops if i.op != 'select' else i.ops[1:]):
            out += addr_chain_types(mod, f, o, depth + 1, seen)
    return out


def check_c(rep, mod):
    R = rep.rule('G-NOWRITE-C', 'no store / memcpy / memset destination in any C function of the library is (derived from the address of) a library-owned global variable', floor=250, unit='functions')
    RE = rep.rule('G-FIELD-RO', 'globals whose address escapes into caller state (built-in Huffman tables via stream->hufftables) are never written through the escaped pointer: no write address derives from a loaded struct isal_hufftables*', floor=2, unit='escaping globals')
    RC = rep.rule('G-CALLEES', 'library code calls no external function besides a fixed set of reentrant libc helpers; no inline asm, no TLS', floor=1, unit='call sites')
    defs = {g for g, t in mod.globals.items() if not t.startswith('external')}
    nsites = 0
    escaping = collections.defaultdict(list)
    for n, f in sorted(mod.funcs.items()):
        R.instance()
        P = irrules.prov(mod, f)
        for i, atoms, kind in irrules.write_sites(mod, f):
            nsites += 1
            bad = [a for a in atoms if irrules.base_root(a)[0] == 'global']
            R.check(not bad, mod.where(f, i), '%s writes library-owned global %s' % (kind, sorted({irrules.base_root(a)[1] for a in bad})), key='G-NOWRITE-C|%s|%s' % (n, ','.join(sorted({irrules.base_root(a)[1] for a in bad}))),
                    sample='%s: %s -> %s' % (n, kind, sorted(map(str, atoms))[:2]) if n == 'isal_deflate_init' and nsites % 7 == 0 else None)
            # write through a loaded isal_hufftables pointer?
            if n not in HUFF_CREATORS:
                addrv = i.ops[1] if i.op == 'store' else i.args[0][1]
                for ty, li in addr_chain_types(mod, f, addrv):
                    if 'struct.isal_hufftables' in ty:
                        RE.fail(mod.where(f, i), 'write through a struct isal_hufftables* loaded from memory (the caller\'s stream->hufftables may point at the shared built-in tables)', key='G-FIELD-RO|%s' % n)
        # address-taken globals stored into memory or passed on
        for i in f.all_insns():
            vals = []
            if i.op == 'store':
                vals = [i.ops[0]]
            elif i.op == 'ret' and i.ops:
                vals = [i.ops[0]]
            for v in vals:
                for a in P.atoms(v):
                    if a[0] == 'global' and a[1] in defs and not a[1].startswith('.str') and a[1] in mod.globals and not mod.globals[a[1]].startswith(('external',)):
                        if not re.search(r'\bconstant\b', mod.globals[a[1]]) or True:
                            escaping[a[1]].append((n, i))
        for i in f.all_insns():
            if i.op == 'call':
                c = i.callee
                if c == '#asm':
                    RC.fail(mod.where(f, i), 'inline assembly in library C code', key='G-CALLEES|%s|asm' % n)
                elif c.startswith('%'):
                    RC.fail(mod.where(f, i), 'indirect call in library C code (callee cannot be resolved)', key='G-CALLEES|%s|indirect' % n)
                elif c in mod.funcs or c.startswith('llvm.'):
                    RC.ok()
                elif c in ALLOWED_EXT:
                    RC.instance()
                    RC.ok(1, sample='%s calls %s' % (n, c) if c == 'strnlen' else None)
                else:
                    # must be an asm symbol of the library: checked against ASMDB by the caller
                    RC.notes.append(c) if c not in RC.notes else None
    data_globals = {g for g in escaping if g in defs}
    for g in sorted(data_globals):
        RE.instance()
        sites = escaping[g]
        RE.ok(1, sample='%s escapes at %s' % (g, sorted({s[0] for s in sites})))
    rep.analysed['c_functions'] = len(mod.funcs)
    rep.analysed['c_write_sites'] = nsites
    rep.analysed['library_globals'] = len(defs)
    rep.analysed['escaping_globals'] = sorted(data_globals)
    tls = [g for g, t in mod.globals.items() if 'thread_local' in t]
    RC.check(not tls, 'linked module', 'thread-local globals: %s' % tls)
    return RC


def check_asm(rep, RC, mod):
    RA = rep.rule('G-NOWRITE-ASM', 'no instruction of any asm kernel stores to a RIP-relative/absolute address or through a pointer derived from a global symbol, and none uses fs:/gs: (TLS)', floor=130, unit='kernels')
    RD = rep.rule('G-DISPATCH', 'each resolver performs exactly one store: 8 bytes, to its own 8-byte-aligned slot in .data, of a library function address determined by CPUID/XGETBV only; every GPR is restored; mbinit falls through into the interface stub',
                  floor=42, unit='entry points')
    res, nofam = provenance.analyse('default')
    units = asmdb.units('default')
    for sym, info in sorted(res.items()):
        RA.instance()
        u, f = info['unit'], info['func']
        bad = 0
        for a in info['accesses']:
            bt = base_tag(a.addr)
            if a.kind in ('store', 'rmw') and bt in ('GLOBAL', 'TLS', 'BAD', 'TOP'):
                RA.fail('%s: %s' % (u.name, u.where(a.insn, f)), '%s through %s' % (a.kind, tag_name(a.addr)), key='G-NOWRITE-ASM|%s|%s' % (sym, tag_name(a.addr)))
                bad += 1
            elif bt == 'TLS':
                RA.fail('%s: %s' % (u.name, u.where(a.insn, f)), 'thread-local access', key='G-NOWRITE-ASM|%s|tls' % sym)
                bad += 1
        if not bad:
            RA.ok(len([a for a in info['accesses'] if a.kind in ('store', 'rmw')]) or 1)
    for un, fn in nofam:
        RA.fail('%s:%s' % (un, fn), 'asm function of no known family: its stores are not analysed', key='G-NOWRITE-ASM|%s|nofam' % fn)
    asm_syms = set()
    for un, u in units.items():
        asm_syms |= set(u.funcs)
    for c in list(RC.notes):
        if c not in asm_syms:
            RC.fail('linked module', 'C code calls %s which is defined neither by the library nor in the allowed libc set' % c, key='G-CALLEES|%s' % c)
    RC.notes[:] = ['%d distinct asm symbols called from C' % len(RC.notes)]
    n_ep = 0
    secalign = {}
    slots = []
    for un, u in sorted(units.items()):
        for ep in facts.find_entry_points(u):
            RD.instance()
            n_ep += 1
            W = '%s:%s' % (un, ep['name'])
            y = ep['slot_sym']
            sec = u.elf.section(ep['slot_sec'])
            RD.check(ep['slot_sec'] == '.data' and y.value % 8 == 0, W, 'slot %s at %s+%#x is not at an 8-byte multiple inside .data' % (ep['slot'], ep['slot_sec'], y.value),
                     key='G-DISPATCH|%s|align' % ep['name'])
            secalign[ep['slot']] = sec['align']
            slots.append(ep['slot'])
            RD.check(ep['falls_into'] == ep['entry'], W, 'mbinit does not fall through into the interface stub', key='G-DISPATCH|%s|fall' % ep['name'])
            paths = facts.resolver_paths(u, ep['resolver'])
            for p in paths:
                ok = p.nstores == 1 and p.stored and p.stored[0] == 'SYM' and p.slot and p.slot[1] == ep['slot'] and p.slot[2] == 0
                st = p.store_insn
                ok8 = st is not None and 'QWORD PTR' in st.text
                RD.check(ok and ok8 and not p.problems, W, 'path does not end in one 8-byte store of a symbol address to %s (stores=%d, value=%s, problems=%s)' % (ep['slot'], p.nstores, p.stored, p.problems[:1]),
                         key='G-DISPATCH|%s|store' % ep['name'])
                RD.check(p.preserved, W, 'resolver does not restore every general-purpose register (first call would reach the selected function with changed arguments): %s' %
                         sorted(r for r in p.final if r != 'rsp' and p.final[r] != ('ORIG', r)), key='G-DISPATCH|%s|regs' % ep['name'],
                         sample='%s: %d paths, all registers restored' % (ep['name'], len(paths)) if ep['name'] == 'ec_encode_data' else None)
    # final placement: link the shared object from the objects of the current tree (layout only, nothing runs) and
    # require every slot to be 8-byte aligned there, so that the single 8-byte store is atomic for racing first calls
    import os
    from elf import Elf
    d = cbuild.workdir()
    so = os.path.join(d, 'libisal-layout.so')
    from common import run
    objs = [u.obj for u in units.values()] + list(cbuild.objs('default').values())
    run(['clang', '-shared', '-nostdlib', '-o', so] + objs)
    img = Elf(so)
    for sname in slots:
        y = img.syms.get(sname)
        if y is None:
            raise AnalysisBroken('slot %s not found in the linked image' % sname)
        RD.check(y.value % 8 == 0, 'linked libisal.so:%s' % sname, 'dispatch slot lands at %#x (not 8-byte aligned): the pointer store is not guaranteed atomic' % y.value, key='G-DISPATCH|%s|linked-align' % sname,
                 sample='%s at %#x in the linked image' % (sname, y.value) if sname == 'crc32_iscsi_dispatched' else None)
    RD.notes.append('object-level .data section alignment of the multibinary units is %s; 8-byte alignment of the slots is a property of the link layout (checked on the shared object linked from the current tree), not guaranteed by an align directive' % sorted(set(secalign.values())))
    rep.analysed['asm_kernels'] = len(res)
    rep.analysed['dispatch_entry_points'] = n_ep


INFLATE_USER = {'next_in': 'input cursor, set by the caller', 'avail_in': 'input size, set by the caller', 'next_out': 'output cursor, set by the caller',
                'avail_out': 'output size, set by the caller', 'crc_flag': 'wrapper selection, set by the caller'}
# one named field per entry with the reason the read cannot influence behaviour
INFLATE_BENIGN = {'isal_inflate_stateless': {'count': 'isal_read_gzip_header copies state->count into a local before its switch; with block_state == ISAL_BLOCK_NEW_HDR (stored by isal_inflate_stateless just before) '
                                                      'the first arm overwrites the local before any use'}}


def check_upward_exposed(rep, mod):
    """I-INIT: what can the behaviour of an entry point depend on?  FIELDINIT computes the bytes of the context an entry point
    (with everything it calls, asm kernels and every dispatchable sibling included) may read before writing them."""
    import fieldinit
    R = rep.rule('I-INIT', 'inflate contexts: (a) isal_inflate_stateless, which is specified to need no initialisation call, reads before writing only the caller-set fields next_in/avail_in/next_out/avail_out/crc_flag; '
                 '(b) every field isal_inflate may read before writing is assigned on every path by isal_inflate_init, and by isal_inflate_reset except the caller-set fields and hist_bits. '
                 'Definite-assignment dataflow over bytes of struct inflate_state through the call graph; for the dispatched block decoder the union of reads / intersection of writes over the C and both asm implementations; '
                 'accesses at non-constant offsets (Huffman lookup arrays, history buffer) are outside the analysis', floor=3, unit='(entry point, initialiser) pairs')
    A = fieldinit.Analysis(mod)
    notes = fieldinit.dispatch_ext(mod, A)
    if 'decode_huffman_code_block_stateless' not in A.ext:
        raise AnalysisBroken('I-INIT: no summary for the dispatched block decoder (%s)' % notes)
    F = fieldinit.struct_fields('inflate_state')
    if len(F) < 25:
        raise AnalysisBroken('I-INIT: only %d fields of struct inflate_state recognised' % len(F))

    def fields_in(lo, hi):
        return [(n, o, sz) for n, o, sz in F if o < hi and lo < o + sz]
    for fn in ('isal_inflate_stateless', 'isal_inflate', 'isal_inflate_init', 'isal_inflate_reset'):
        if fn not in mod.funcs:
            raise AnalysisBroken(fn + ' not found')
    # (a)
    R.instance()
    UE, _, site = A.summary('isal_inflate_stateless')
    nfield = 0
    for lo, hi in UE.get(0, ()):
        for n, o, sz in fields_in(lo, hi):
            nfield += 1
            ok = n in INFLATE_USER or n in INFLATE_BENIGN['isal_inflate_stateless']
            R.check(ok, site.get((0, lo), 'igzip/igzip_inflate.c:isal_inflate_stateless'), 'isal_inflate_stateless may read state->%s before anything has written it (first read: %s): its result then depends on what a previous use left in the '
                    'context, which the caller is not required to initialise' % (n, site.get((0, lo), '?')), key='I-INIT|stateless|%s' % n,
                    sample='isal_inflate_stateless reads only caller-set fields before writing' if n == 'crc_flag' else None)
    if nfield < 5:
        raise AnalysisBroken('I-INIT: isal_inflate_stateless exposes only %d fields; next_in/avail_in/next_out/avail_out/crc_flag expected' % nfield)
    # (b)
    UE, _, site = A.summary('isal_inflate')
    if sum(hi - lo for lo, hi in UE.get(0, ())) < 60:
        raise AnalysisBroken('I-INIT: isal_inflate exposes implausibly few context bytes')
    for init, allowed in (('isal_inflate_init', set()), ('isal_inflate_reset', set(INFLATE_USER) | {'hist_bits'})):
        R.instance()
        _, MW, _ = A.summary(init)
        miss = []
        for lo, hi in UE.get(0, ()):
            for a, b in fieldinit.iv_minus(lo, hi, MW.get(0, ())):
                for n, o, sz in fields_in(a, b):
                    if n not in allowed:
                        miss.append((n, site.get((0, lo), '?')))
        for n, w in miss:
            R.fail('igzip/igzip_inflate.c:%s' % init, 'isal_inflate may read state->%s before writing it (%s) but %s does not assign it on every path: a re-initialised context does not behave like a fresh one' % (n, w, init),
                   key='I-INIT|%s|%s' % (init, n))
        if not miss:
            R.ok(len(fields_in(0, 1 << 30)), sample='%s assigns every field isal_inflate can read first%s' % (init, ' (except caller-set fields)' if allowed else ''))
    for nt in notes + A.notes:
        R.notes.append(nt)


def check_scratch_clear(rep, mod):
    """isal_update_histogram documents hash_table as temporary space: the result must not depend on what it held.  Every
    implementation has to overwrite the whole array before the first lookup."""
    import asmconst, mirror, fieldinit
    from asmdb import REG64
    R = rep.rule('I-SCRATCH-CLEAR', 'isal_update_histogram (C and both asm implementations): the bytes stored by the constant-trip-count initialisation loop (constant propagation through the loop, ASMCONST) '
                 '/ by the memset (definite-assignment summary) cover all of histogram->hash_table, and no path from the entry reaches a read of hash_table without running the initialisation', floor=3, unit='implementations')
    v, drop = mirror.c_values('default', ['igzip_lib.h'], [('off', 'offsetof(struct isal_huff_histogram, hash_table)'), ('size', 'sizeof(((struct isal_huff_histogram *) 0)->hash_table)')], 'c15_hist')
    if drop:
        raise AnalysisBroken('struct isal_huff_histogram.hash_table not found')
    lo, hi = v['off'], v['off'] + v['size']
    res, _ = provenance.analyse('default')
    n = 0
    for sym, info in sorted(res.items()):
        if info['fam']['family'] != 'igzip_histogram':
            continue
        n += 1
        R.instance()
        u, f, fl = info['unit'], info['func'], info['flow']
        best = None
        for a in f.addrs:
            i = u.insns[a]
            if i.mn == 'mov' and len(i.ops) == 2 and asmconst.IMM.match(i.ops[1]) and i.ops[0] in REG64:
                acc, end, steps = asmconst.walk(u, f, fl, a)
                st = [(x[3], x[4]) for x in acc if x[1] == 'store' and x[2] == 'HIST' and x[3] < hi and x[4] > lo]
                if st and (best is None or len(st) > len(best[1])):
                    best = (i, st, end)
        if best is None:
            R.fail('%s:%s' % (u.name, sym), 'no constant-count loop storing into histogram->hash_table found', key='I-SCRATCH-CLEAR|%s|loop' % sym)
            continue
        i0, st, end = best
        ok, gap = asmconst.covered(st, lo, hi)
        R.check(ok, '%s: %s' % (u.name, u.where(i0, f)), 'the initialisation loop starting here stores %d blocks but leaves hash_table bytes from offset %s (entry %s of %d) unwritten: the histogram then depends on what the scratch area held before the call'
                % (len(st), gap - lo if gap is not None else '?', (gap - lo) // 2 if gap is not None else '?', v['size'] // 2), key='I-SCRATCH-CLEAR|%s|cover' % sym,
                sample='%s: %d stores cover hash_table[0..%d)' % (sym, len(st), v['size'] // 2))
        # reads of hash_table (HIST accesses at a data-dependent offset or inside the array) only after the loop
        reads = {x.insn.addr for x in info['accesses'] if x.kind in ('load', 'rmw') and provenance.base_tag(x.addr) == 'HIST' and (x.addr[2] is None or (x.addr[2][1] == 0 and lo <= x.addr[2][0] < hi))}
        loop_insns = set()
        a = i0.addr
        seen = set()
        work = [f.entry]
        early = None
        while work:
            x = work.pop()
            if x in seen or x == i0.addr:
                continue
            seen.add(x)
            if x in reads:
                early = x
                break
            work += u.succ(f, x)
        R.check(early is None and bool(reads), '%s: %s' % (u.name, u.where(u.insns[early], f) if early else sym), 'hash_table is read on a path that does not run the initialisation loop' if early else 'no read of hash_table recognised',
                key='I-SCRATCH-CLEAR|%s|order' % sym, sample='%s: %d hash_table reads, all after the clear' % (sym, len(reads)))
    if n < 2:
        raise AnalysisBroken('expected two asm histogram kernels, found %d' % n)
    # portable C
    R.instance()
    A = fieldinit.Analysis(mod)
    if 'isal_update_histogram_base' not in mod.funcs:
        raise AnalysisBroken('isal_update_histogram_base not found')
    _, MW, _ = A.summary('isal_update_histogram_base')
    # the early return for length <= 0 writes nothing: take the must-write set of the paths that reach the scan loop = writes dominating the first hash_table read
    f = mod.funcs['isal_update_histogram_base']
    P = irrules.prov(mod, f)
    ms = [i for i in f.all_insns() if i.op == 'call' and i.callee.startswith('llvm.memset') and any(a[0] == 'param' and a[1] == 2 and a[2] == lo for a in P.atoms(i.args[0][1]))]
    okc = bool(ms) and re.match(r'^\d+$', ms[0].args[2][1]) and int(ms[0].args[2][1]) >= v['size']
    rd = [i for i in f.all_insns() if i.op == 'load' and any(a[0] == 'param' and a[1] == 2 and a[2] is None for a in P.atoms(i.ops[0]))]
    dom = bool(ms) and all(f.dominates(ms[0].block, i.block) for i in rd)
    R.check(okc and dom and rd, mod.where(f, ms[0]) if ms else 'igzip/huff_codes.c:isal_update_histogram_base', 'the portable implementation must memset all %d bytes of hash_table before any lookup (memset found: %s, covers: %s, dominates %d reads: %s)'
            % (v['size'], bool(ms), okc, len(rd), dom), key='I-SCRATCH-CLEAR|base', sample='isal_update_histogram_base: memset of %d bytes dominates %d table reads' % (v['size'], len(rd)))


def check_init(rep, mod):
    """I-INIT / I-RESET on the three context structures"""
    R = rep.rule('I-RESET', 'isal_deflate_reset / isal_inflate_reset assign every field that the matching init assigns, except the documented user-set fields', floor=2, unit='context types')
    import mirror

    def stored_offsets(fname, pidx=0):
        """byte offsets (relative to parameter pidx) assigned by fname or the functions it calls with that parameter"""
        seen = set()
        out = set()

        def go(fn, k, base):
            if (fn, k, base) in seen or fn not in mod.funcs:
                return
            seen.add((fn, k, base))
            f = mod.funcs[fn]
            P = irrules.prov(mod, f)
            for i, atoms, kind in irrules.write_sites(mod, f):
                for a in atoms:
                    if a[0] == 'param' and a[1] == k and a[2] is not None:
                        size = 1
                        if kind == 'store':
                            size = mod.types.size_align(i.ty)[0]
                        for b in range(size):
                            out.add(base + a[2] + b)
            for i in f.all_insns():
                if i.op == 'call' and i.callee in mod.funcs:
                    for j, (_, v) in enumerate(i.args):
                        for a in P.atoms(v):
                            if a[0] == 'param' and a[1] == k and a[2] is not None:
                                go(i.callee, j, base + a[2])
        go(fname, pidx, 0)
        return out
    specs = [
        ('deflate', 'struct isal_zstream', 'isal_deflate_init', 'isal_deflate_reset',
         ['hufftables', 'level', 'level_buf', 'level_buf_size', 'end_of_stream', 'flush', 'gzip_flag', 'hist_bits', 'next_in', 'avail_in', 'next_out', 'avail_out']),
        ('inflate', 'struct inflate_state', 'isal_inflate_init', 'isal_inflate_reset',
         ['next_in', 'avail_in', 'next_out', 'avail_out', 'crc_flag', 'hist_bits']),
    ]
    for tag, sty, init, reset, userfields in specs:
        R.instance()
        if init not in mod.funcs or reset not in mod.funcs:
            raise AnalysisBroken('%s / %s not found' % (init, reset))
        a_init = stored_offsets(init)
        a_reset = stored_offsets(reset)
        ex = [(fld, 'offsetof(%s, %s)' % (sty, fld)) for fld in userfields] + [(fld + '#sz', 'sizeof(((%s*)0)->%s)' % (sty, fld)) for fld in userfields]
        v, drop = mirror.c_values('default', ['igzip_lib.h'], ex, 'init_' + tag)
        user = set()
        for fld in userfields:
            if fld in v:
                user |= set(range(v[fld], v[fld] + v[fld + '#sz']))
        missing = sorted(a_init - a_reset - user)
        # report as ranges
        rng = []
        for b in missing:
            if rng and b == rng[-1][1]:
                rng[-1][1] = b + 1
            else:
                rng.append([b, b + 1])
        R.check(not missing, '%s vs %s' % (reset, init), 'bytes of %s assigned by %s but not by %s and not documented user fields: %s' % (sty, init, reset, rng[:6]),
                key='I-RESET|%s' % tag, sample='%s: init assigns %d bytes, reset %d bytes, user-set %d' % (tag, len(a_init), len(a_reset), len(user)))
        extra = sorted((a_reset - a_init))
        R.notes.append('%s: bytes assigned by reset only: %d' % (tag, len(extra)))


DEFLATE_USER = ('next_in', 'avail_in', 'total_in', 'next_out', 'avail_out', 'total_out', 'hufftables', 'level', 'level_buf_size', 'level_buf', 'end_of_stream', 'flush', 'gzip_flag', 'hist_bits')
# internal_state bytes isal_deflate_stateless may read before writing them: each confirmed by reading, one reason per entry
DEFLATE_STATELESS_CARRIED = {
    'hash_mask': 'set_hash_mask() assigns it for every level check_level_req() accepts; the analysis does not correlate the two switches on level',
    'bitbuf': 'create_icf_block_hdr saves the whole BitBuf2 with memcpy before set_buf() fills its pointers; the saved bytes are only ever copied back (bytes 12..39: padding and the three buffer pointers)',
    'has_wrap_hdr': 'cross-call state by design: whether the gzip/zlib header of a multi-call stream was already written; isal_deflate_stateless_init clears it',
    'has_hist': 'cross-call state by design (reset_match_history after a FULL_FLUSH call); with a garbage value the first-position lookup is still bounded by the match finders\' start guard (C17 R-DISTGUARD-*)',
    'count': 'read only while state is ZSTATE_NEW_HDR / ZSTATE_HDR inside isal_deflate_pass; the level-0 one-shot path stores ZSTATE_BODY before calling it',
}
BITBUF_CARRIED = (12, 40)       # bytes of BitBuf2 covered by the entry above


def check_upward_exposed_deflate(rep, mod):
    import fieldinit, c19
    R = rep.rule('I-INIT-DEFLATE', 'isal_deflate_stateless is specified to start every call from its own per-call reset: the bytes of the context it (with everything it calls, asm kernels included) may read before '
                 'writing them are the caller-set fields and a frozen list of five internal fields, each with the reason it is harmless or deliberate cross-call state; any other internal field that becomes '
                 'readable before it is written (a per-call reset dropped or moved into the init function) makes the output depend on what the previous call left behind', floor=19, unit='exposed fields')
    A = fieldinit.Analysis(mod)
    fieldinit.dispatch_ext(mod, A)
    names = ['total_in_start', 'block_next', 'block_end', 'dist_mask', 'hash_mask', 'state', 'bitbuf', 'crc', 'has_wrap_hdr', 'has_eob_hdr', 'has_eob', 'has_hist', 'has_level_buf_init', 'count',
             'tmp_out_buff', 'tmp_out_start', 'tmp_out_end', 'b_bytes_valid', 'b_bytes_processed', 'buffer', 'head']
    off = c19.field_offsets('struct isal_zstream', ['internal_state.' + n for n in names] + list(DEFLATE_USER))
    order = sorted(off.items(), key=lambda kv: kv[1])
    ends = {n: (order[k + 1][1] if k + 1 < len(order) else 1 << 30) for k, (n, o) in enumerate(order)}

    def fields_in(lo, hi):
        return [(n, max(lo, o), min(hi, ends[n])) for n, o in order if o < hi and lo < ends[n]]
    if 'isal_deflate_stateless' not in mod.funcs:
        raise AnalysisBroken('isal_deflate_stateless not found')
    UE, _, site = A.summary('isal_deflate_stateless')
    seen = set()
    for lo, hi in UE.get(0, ()):
        for n, a, b in fields_in(lo, hi):
            short = n.replace('internal_state.', '')
            if (short, a, b) in seen:
                continue
            seen.add((short, a, b))
            R.instance()
            where = site.get((0, lo), 'igzip/igzip.c:isal_deflate_stateless')
            if not n.startswith('internal_state.'):
                R.check(short in DEFLATE_USER, where, 'isal_deflate_stateless reads stream->%s before writing it and it is not a documented caller-set field' % short, key='I-INIT-DEFLATE|%s' % short,
                        sample='caller-set: %s' % short if short == 'gzip_flag' else None)
                continue
            ok = short in DEFLATE_STATELESS_CARRIED
            if ok and short == 'bitbuf':
                ok = a - off[n] >= BITBUF_CARRIED[0] and b - off[n] <= BITBUF_CARRIED[1]
            R.check(ok, where, 'isal_deflate_stateless may read internal_state.%s (bytes %d..%d of it) before anything in the call has written it (first read: %s): the result of a one-shot call then depends on what a '
                    'previous call left in the context' % (short, a - off[n], b - off[n], where), key='I-INIT-DEFLATE|%s' % short,
                    sample='%s: %s' % (short, DEFLATE_STATELESS_CARRIED.get(short, ''))[:160] if ok else None)
    if not any(x[0] in DEFLATE_USER for x in seen):
        raise AnalysisBroken('I-INIT-DEFLATE: no caller-set field exposed; analysis lost the context parameter')
    for k, v in DEFLATE_STATELESS_CARRIED.items():
        R.notes.append('%s: %s' % (k, v))


def check_hash_input(rep):
    """The match finders hash four bytes of INPUT (crc32 of a data word) to pick a hash bucket.  A hash taken of a value that is derived from an argument register - the stream
    pointer, say - makes the bucket, and with it now and then the compressed bytes, a function of where the caller's objects live: output that differs from run to run under ASLR."""
    from asmdb import REG64, is_mem, parse_mem
    R = rep.rule('V-HASH-INPUT', 'asm deflate bodies and dictionary hashers (isal_deflate_body_0x, isal_deflate_icf_body_hash_hist_0x, isal_deflate_finish_0x, isal_deflate_icf_finish_hash_hist_0x, '
                 'isal_deflate_hash_crc_01, gen_icf_map_lh1_0x): may-taint dataflow from the argument registers (the values the caller passed: pointers) through mov / lea / arithmetic / shifts; a register '
                 'written by a load from memory or from untainted sources is clean; no crc32 (the hash of the match finders) takes a tainted register as its data operand: hash buckets depend on input bytes only',
                 floor=8, unit='kernels')
    units = asmdb.units('default')
    ARGS = ['rdi', 'rsi', 'rdx', 'rcx', 'r8', 'r9']
    n = 0
    for un, u in sorted(units.items()):
        for fn, f in sorted(u.funcs.items()):
            if not re.match(r'^(isal_deflate_(body|finish|icf_body_hash_hist|icf_finish_hash_hist)_0\d|isal_deflate_hash_crc_01|gen_icf_map_lh1_0\d)$', fn):
                continue
            if not any(u.insns[a].mn == 'crc32' for a in f.addrs):
                continue
            n += 1
            R.instance()
            # which argument registers carry pointers / counts: all of them are caller values; a count hashed is just as wrong
            IN = {f.addrs[0]: frozenset(ARGS)}
            work = [f.addrs[0]]
            bad = None
            while work:
                a = work.pop()
                t = set(IN[a])
                i = u.insns[a]
                ops = i.ops
                mn = i.mn
                if mn == 'crc32' and len(ops) == 2 and not is_mem(ops[1]) and ops[1] in REG64 and REG64[ops[1]][0] in t and bad is None:
                    bad = i
                if ops and ops[0] in REG64 and mn not in ('cmp', 'test', 'push', 'crc32', 'bt'):
                    dst = REG64[ops[0]][0]
                    srcs = set()
                    memsrc = False
                    for o in ops[1:]:
                        if is_mem(o):
                            if mn == 'lea':
                                pm = parse_mem(o)
                                srcs |= {REG64[x][0] for x in (pm['base'], pm['index']) if x and x in REG64}
                            else:
                                memsrc = True
                        elif o in REG64:
                            srcs.add(REG64[o][0])
                    reads_dst = mn not in ('mov', 'movzx', 'movsx', 'movsxd', 'lea', 'pop', 'movd', 'movq', 'pextrd', 'pextrq', 'pextrw', 'pextrb', 'vmovd', 'vmovq', 'vpextrd', 'vpextrq', 'bsf', 'bsr', 'tzcnt', 'lzcnt',
                                            'popcnt', 'shlx', 'shrx', 'sarx', 'bzhi', 'andn', 'rorx', 'pmovmskb', 'vpmovmskb', 'kmovq', 'kmovd', 'setne', 'sete') and not mn.startswith('set') and not mn.startswith('cmov')
                    if mn in ('xor', 'sub') and len(ops) == 2 and ops[0] == ops[1]:
                        t.discard(dst)
                    elif mn.startswith('cmov'):
                        if srcs & t:
                            t.add(dst)
                    else:
                        tainted = bool(srcs & t) or (reads_dst and dst in t)
                        if mn == 'mov' and memsrc:
                            tainted = False
                        if mn == 'pop':
                            tainted = False
                        if tainted:
                            t.add(dst)
                        else:
                            t.discard(dst)
                if mn == 'crc32' and ops and ops[0] in REG64:
                    # result of hashing: clean iff operand clean (the destination is zeroed before in the hash macro; keep it simple)
                    pass
                for s_ in u.succ(f, a):
                    if s_ not in f.aset:
                        continue
                    nt = frozenset(t) if s_ not in IN else IN[s_] | frozenset(t)
                    if s_ not in IN or nt != IN[s_]:
                        IN[s_] = nt
                        work.append(s_)
            R.check(bad is None, '%s: %s' % (un, u.where(bad, f)) if bad is not None else un, '%s hashes a register that still carries a value derived from an argument register (a pointer of the caller, not input data): the '
                    'bucket chosen - and occasionally the compressed output - depends on the address of the caller\'s object, i.e. changes from run to run' % fn, key='V-HASH-INPUT|%s' % fn,
                    sample='%s: every crc32 data operand comes from loaded input' % fn)
    if n == 0:
        raise AnalysisBroken('V-HASH-INPUT: no kernel with a crc32 hash found')


def main(tier):
    rep = Report('C15', tier, level='proof')
    rep.undecided = UNDECIDED
    rep.explanation = ('Whole-program write-effect analysis. C side: every store / memcpy / memset destination of every function of the linked LLVM module is traced to its provenance roots '
                       '(parameter, local, loaded pointer, global): none may be a library-owned global, and no write may go through a loaded isal_hufftables pointer (the only globals whose '
                       'address escapes). Asm side: the pointer-provenance dataflow over every kernel shows no store through a global/RIP-relative/TLS address; the dispatch resolvers are '
                       'interpreted path by path: one aligned 8-byte store of a CPUID-determined function address into their own slot, all registers restored. External callees are a fixed '
                       'reentrant set. The obligation set is finite and enumerated completely.')
    rep.trusted = ['clang 14 IR + opt sroa', 'tools/llir.py provenance (unknown provenance is reported, not assumed local)', 'nasm/objdump decoding', 'ASMFLOW / FACTS interpreters']
    mod = llir.library('default')
    RC = check_c(rep, mod)
    rep.attempt(check_asm, rep, RC, mod)
    rep.attempt(check_init, rep, mod)
    rep.attempt(check_upward_exposed, rep, mod)
    rep.attempt(check_upward_exposed_deflate, rep, mod)
    rep.attempt(check_scratch_clear, rep, mod)
    import c17
    rep.attempt(c17.check_hash_clear, rep, mod)
    import recordfull
    rep.attempt(recordfull.check, rep, mod)
    rep.attempt(c17.check_hashmask_field, rep, mod)      # stale buckets above a shrunken mask make the output depend on the context's previous contents
    import c05
    rep.attempt(c05.check_hashfill_bound, rep, mod)      # a word hashed past the dictionary contains whatever the buffer held before
    rep.attempt(provenance.check_undef, rep, None, 'ALL', 130)
    rep.attempt(check_hash_input, rep)
    import copypair
    rep.attempt(copypair.check, rep, 46)                 # a destination byte of the copying CRC kernels that is not stored at its own offset keeps what the buffer held before
    return rep.finish()
