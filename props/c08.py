"""C08 - RAID parity generation exact, checks sound and complete.  Decided (structural):
parity stores go only to array[vects-1] ([vects-2],[vects-1] for P+Q), check functions store
nothing; entry guards enforce the documented minimum vects / length multiple before any memory
access and return non-zero; every check-compare is consumed; polynomial constant 0x1d."""
import re, struct
from common import Report, AnalysisBroken, read_repo
import provenance, cbuild
from provenance import base_tag, elem_index
from asmflow import tag_name
from irtext import IRModule

UNDECIDED = 'the portable C kernels\' parity arithmetic beyond their SWAR constants; that the buffers do not alias (contract)'
STORE_IDX = {'raid_xor_gen': {(-8, 8)}, 'raid_pq_gen': {(-16, 8), (-8, 8)}, 'raid_xor_check': set(), 'raid_pq_check': set()}


def documented_limits():
    """{function: (min vects, len multiple or None)} from the doxygen comments of include/raid.h"""
    txt = read_repo('include/raid.h')
    out = {}
    for m in re.finditer(r'/\*\*(.*?)\*/\s*int\s+(\w+)\(int vects, int len, void \*\*array\);', txt, re.S):
        doc, fn = m.group(1), m.group(2)
        mv = re.search(r'@param\s+vects.*?Must be > (\d+)', doc, re.S)
        ml = re.search(r'@param\s+len[^@]*?Must be (\d+)B aligned', doc, re.S)
        out[fn] = (int(mv.group(1)) + 1 if mv else None, int(ml.group(1)) if ml else None)
    return out


def main(tier):
    rep = Report('C08', tier, level='other')
    rep.undecided = UNDECIDED
    rep.explanation = ('Pointer-provenance dataflow with an affine index domain over all nine RAID asm kernels: every store address is attributed to the element of the pointer array '
                       'it was loaded from, as an affine function of vects; entry guards are extracted from the assembled code and compared with the limits documented in raid.h; '
                       'flag liveness shows every parity compare feeds a branch. Necessary conditions for every input; the parity arithmetic is not decided.')
    rep.trusted = ['nasm/objdump decoding', 'ASMFLOW transfer functions (fail-closed)', 'SysV argument roles (vects, len, array) from include/raid.h']
    R = rep.rule('P-RAID-STORE', 'gen kernels store only through array[vects-1] (xor) / array[vects-2], array[vects-1] (P+Q); check kernels store nothing; data is read only through pointers loaded from array', floor=9, unit='kernels')
    RE = rep.rule('R-RAID-ENTRY', 'before any access through the array argument, vects below the documented minimum (and for P+Q a length that is not the documented multiple) reaches a return with a non-zero constant; success exits return 0', floor=9, unit='kernels')
    RD = rep.rule('L-DEADCMP-RAID', 'every flag-setting compare in the RAID kernels is consumed before the flags are redefined', floor=9, unit='kernels')
    RP = rep.rule('T-RAID-POLY', 'the GF(2^8) reduction constant of every P+Q implementation is 0x1d (low byte of 0x11D)', floor=5, unit='implementations')
    res, _ = provenance.analyse('default')
    docs = documented_limits()
    for sym, info in sorted(res.items()):
        fam = info['fam']['family']
        if not fam.startswith('raid_'):
            continue
        R.instance()
        RE.instance()
        RD.instance()
        u, f = info['unit'], info['func']
        allowed_idx = STORE_IDX[fam]
        for a in info['accesses']:
            bt = base_tag(a.addr)
            where = '%s: %s' % (u.name, u.where(a.insn, f))
            key = 'P-RAID-STORE|%s|%s|%s' % (sym, a.kind, tag_name(a.addr))
            if a.kind in ('store', 'rmw'):
                if bt == 'STACK':
                    R.ok()
                elif bt == 'ARRAY[]':
                    idx = elem_index(a.addr)
                    R.check(idx in allowed_idx, where, 'store through array element at byte index %s; this kernel may only write %s' %
                            ('unknown' if idx is None else '%d%+d*vects' % idx, sorted('%d+%d*vects' % x for x in allowed_idx) or 'nothing'), key=key,
                            sample='%s stores via array[vects%+d]' % (sym, idx[0] // 8) if idx and sym.endswith('_sse') else None)
                else:
                    R.fail(where, 'store through %s' % tag_name(a.addr), key=key)
            else:
                R.check(bt in ('ARRAY', 'ARRAY[]', 'STACK', 'GLOBAL'), where, 'load through %s' % tag_name(a.addr), key=key)
        # entry guards
        g = provenance.fail_guards(sym, 'rdi')
        base = re.sub(r'_(sse|avx|avx2|avx512)$', '', sym)
        dmin, dmult = docs.get(sym, docs.get(base, (None, None)))
        if dmin is None:
            raise AnalysisBroken('include/raid.h documents no minimum vects for %s' % base)
        RE.check(g['min'] == dmin, '%s:%s' % (u.name, sym), 'kernel rejects vects < %d, documentation of %s requires vects >= %d' % (g['min'], base, dmin),
                 key='R-RAID-ENTRY|%s|min' % sym, sample='%s: %s' % (sym, g['guards'][0]) if g['guards'] else None)
        vg = [x for x in g['guards'] if x.startswith('N <')]
        # the vects guard must dominate every access through argument-derived pointers
        if vg:
            m = re.search(r'\+(0x[0-9a-f]+) ', vg[0])
            gaddr = f.entry + int(m.group(1), 16) if m else None
            RE.check(gaddr is not None and provenance.guard_dominates_accesses(g, gaddr), '%s:%s' % (u.name, sym), 'an access through the array argument is reachable without passing the vects guard', key='R-RAID-ENTRY|%s|dom' % sym)
        ok_ret = g['ret_values'] <= {0, 1} or (None not in g['ret_values'] and 0 in g['ret_values'])
        RE.check(0 in g['ret_values'] and None not in g['ret_values'] and any(v for v in g['ret_values'] if v), '%s:%s' % (u.name, sym),
                 'return values are not {0, non-zero constant}: %s' % sorted(map(str, g['ret_values'])), key='R-RAID-ENTRY|%s|ret' % sym)
        if fam in ('raid_pq_gen', 'raid_pq_check'):
            gl = provenance.fail_guards(sym, 'rsi')
            want = dmult or (32 if fam == 'raid_pq_gen' else 16)
            masks = [m for m, a in gl['masks']]
            RE.check((want - 1) in masks, '%s:%s' % (u.name, sym), 'no guard rejects a length that is not a multiple of %d (masks tested: %s)' % (want, [hex(m) for m in masks]),
                     key='R-RAID-ENTRY|%s|lenmult' % sym, sample='%s: len & %#x -> fail' % (sym, want - 1))
            for m, a in gl['masks']:
                if m == want - 1:
                    RE.check(provenance.guard_dominates_accesses(gl, a), '%s:%s' % (u.name, sym), 'a memory access is reachable without passing the length-multiple guard', key='R-RAID-ENTRY|%s|lendom' % sym)
        dead = provenance.dead_compares(u, f)
        RD.ok(provenance.count_compares(u, f) - len(dead))
        for i in dead:
            RD.fail('%s: %s' % (u.name, u.where(i, f)), 'result of this compare is never consumed (a parity mismatch would go unnoticed)', key='L-DEADCMP|%s|%#x' % (sym, i.addr - f.entry))
        if fam in ('raid_pq_gen', 'raid_pq_check'):
            y = u.elf.syms.get('poly')
            if y is None:
                # avx512 variant builds the constant in registers
                RP.notes.append('%s: no poly table (constant materialised in registers)' % sym)
            else:
                RP.instance()
                b = u.elf.sym_extent('poly')
                RP.check(len(b) >= 16 and set(b[:16]) == {0x1d}, '%s:poly' % u.name, 'reduction constant bytes %s, expected 0x1d replicated' % b[:16].hex(), sample='%s poly = 1d x16' % sym if sym == 'pq_gen_sse' else None)
    rep.attempt(provenance.check_undef, rep, {'raid_xor_gen', 'raid_pq_gen', 'raid_xor_check', 'raid_pq_check'}, 'RAID', 9)
    rep.attempt(provenance.check_kwidth, rep, {'raid_xor_gen', 'raid_pq_gen', 'raid_xor_check', 'raid_pq_check'}, 'RAID', 9)
    # portable C: the SWAR constants of pq_gen_base / pq_check_base, evaluated by the compiler
    import mirror
    v, drop = mirror.c_values('default', [__import__('common').REPO + '/raid/raid_base.c'], [('gf8poly', 'gf8poly'), ('bit7', 'bit7'), ('notbit0', 'notbit0'), ('w', 'sizeof(unsigned long)')], 'raidpoly')
    if drop:
        raise AnalysisBroken('raid_base.c: macros %s not found' % drop)
    RP.instance()
    w = v['w']
    rep_byte = lambda b: int.from_bytes(bytes([b]) * w, 'little')
    RP.check((v['gf8poly'] & (2 ** (8 * w) - 1)) == rep_byte(0x1d) and (v['bit7'] & (2 ** (8 * w) - 1)) == rep_byte(0x80) and (v['notbit0'] & (2 ** (8 * w) - 1)) == rep_byte(0xfe),
             'raid/raid_base.c:gf8poly/bit7/notbit0', 'SWAR constants are %#x/%#x/%#x, expected 0x1d/0x80/0xfe replicated over %d bytes' % (v['gf8poly'], v['bit7'], v['notbit0'], w),
             sample='gf8poly = 0x1d x%d' % w)
    rep.attempt(check_base_exits, rep)
    import bounds
    rep.attempt(bounds.check_src_cover, rep, 22)
    rep.attempt(bounds.check, rep, {'raid_pq_gen', 'raid_pq_check'}, 'RAID', 5)
    import guardloop
    rep.attempt(guardloop.check, rep, 'RAID', r'^raid/', 5)
    import deadvdef
    rep.attempt(deadvdef.check, rep, 'RAID', r'^raid/', 190)
    import lensiblings
    rep.attempt(lensiblings.check, rep)
    import horner
    rep.attempt(horner.check, rep, 68)
    import raidlayout
    rep.attempt(raidlayout.check, rep, 4)
    import baseloops
    rep.attempt(baseloops.check, rep, 'RAID', ['xor_gen_base', 'pq_gen_base'], 4)
    import stridecover
    rep.attempt(stridecover.check, rep, 'RAID', {'raid_xor_gen', 'raid_pq_gen', 'raid_xor_check', 'raid_pq_check'}, 80)
    import tailguard, earlypass
    rep.attempt(tailguard.check, rep, 'PQ', {'raid_pq_gen', 'raid_pq_check'}, 8, None)
    rep.attempt(earlypass.check, rep, 'RAID', {'raid_xor_gen', 'raid_pq_gen', 'raid_xor_check', 'raid_pq_check'}, 9)
    import samecell
    rep.attempt(samecell.check, rep, 'RAID', {'raid_pq_gen', 'raid_xor_gen'}, ['ARRAY[]'], ['ARRAY[]'], 40, acc_tags=[])
    return rep.finish()


def check_base_exits(rep):
    """portable check functions: path-sensitive evaluation of the value returned after a mismatch was seen"""
    import llir, irrules
    R = rep.rule('R-CHECK-NONZERO', 'portable xor_check_base / pq_check_base: every loop exit taken on a condition that depends on the array data (a parity mismatch) leads only to returns whose value is non-zero on that path '
                 '(a non-zero constant, a value OR-ed with a non-zero constant, or a value compared > 0 on the path); phis resolved per incoming edge, branches on path-known values followed on the consistent edge only',
                 floor=3, unit='mismatch exits')
    mod = llir.library('default')
    want = {'xor_check_base': 1, 'pq_check_base': 2}
    for fn, n in sorted(want.items()):
        f = mod.funcs.get(fn)
        if f is None:
            raise AnalysisBroken(fn + ' not found in the linked IR')
        exits = irrules.data_exits(mod, f, lambda d: d[0] == 'mem' and d[1][0] == 'ld')
        if len(exits) < n:
            raise AnalysisBroken('%s: expected at least %d data-dependent loop exits (parity comparisons), found %d' % (fn, n, len(exits)))
        for e in exits:
            R.instance()
            for cls, path in irrules.nonzero_on_paths(mod, f, e):
                ok = cls[0] == 'nonzero' or (cls[0] == 'const' and cls[1] != 0)
                R.check(ok, mod.where(f, e[2]), '%s: after the mismatch exit %s -> %s the path %s returns %s, which is not provably non-zero: an inconsistent array can be reported as consistent'
                        % (fn, e[0], e[1], ' -> '.join(path), 'the constant 0' if cls == ('const', 0) else cls[1]), key='R-CHECK-NONZERO|%s|%s|%s' % (fn, e[1], path[-2] if len(path) > 1 else path[-1]),
                        sample='%s: mismatch exit %s returns %s' % (fn, e[1], cls[1] if cls[0] == 'nonzero' else cls[1]))
