"""R-DISTGUARD-ASM: taint dataflow over the asm match finders.  A value derived from a 16-bit
hash-table entry (a candidate distance) carries the id of the loading instruction until it is
AND-ed with a value loaded from the dist_mask field, or compared with such a value and the
in-range edge is taken.  Using an unguarded candidate in a memory address (the match-compare
load, the dist_table lookup) is a violation."""
import re, os
from common import AnalysisBroken
import asmdb, kernels, provenance
from asmdb import REG64, parse_mem, is_mem, VREG

N = ('N', frozenset())
MASK = ('MASK', frozenset())
BELOW = set('jb jbe jnae jna jc'.split())
ABOVE = set('jae ja jnb jnbe jnc'.split())
VECTOR_KERNELS = ['gen_icf_map_lh1_04', 'gen_icf_map_lh1_06']
SCALAR_KERNELS = ['isal_deflate_body_01', 'isal_deflate_body_02', 'isal_deflate_body_04', 'isal_deflate_finish_01',
                  'isal_deflate_icf_body_hash_hist_01', 'isal_deflate_icf_body_hash_hist_02', 'isal_deflate_icf_body_hash_hist_04',
                  'isal_deflate_icf_finish_hash_hist_01']


def vname(o):
    if not o:
        return None
    m = VREG.match(re.sub(r'\{[^}]*\}', '', o).strip())
    if not m:
        return None
    return 'v' + re.sub(r'^[xyz]mm', '', re.sub(r'\{[^}]*\}', '', o).strip())


def HD(ids):
    return ('HD', frozenset(ids))


def jn(a, b):
    if a == b:
        return a
    if a is None:
        return b
    if b is None:
        return a
    if a[0] == 'HD' or b[0] == 'HD':
        return HD((a[1] if a[0] == 'HD' else frozenset()) | (b[1] if b[0] == 'HD' else frozenset()))
    if a[0] == 'MASK' and b[0] == 'MASK':
        return MASK
    return N


def analyse(u, f, mask_disp):
    insns = u.insns
    IN = {f.entry: ({}, frozenset(), None)}
    work = [f.entry]
    viol = {}
    nsrc = set()
    nmask = set()
    nguard = set()
    nsink = 0
    it = 0

    def rd(regs, op):
        g = REG64.get(op)
        return regs.get(g[0], N) if g else N
    while work:
        a = work.pop()
        it += 1
        if it > 600000:
            raise AnalysisBroken('%s:%s: taint analysis did not converge' % (u.name, f.name))
        regs, guarded, flags = IN[a]
        regs = dict(regs)
        i = insns[a]
        mn = i.mn
        ops = i.ops
        for k, o in enumerate(ops):
            if is_mem(o) and mn != 'lea' and not mn.startswith('prefetch'):
                m = parse_mem(o)
                for r in (m['base'], m['index']):
                    if r in REG64:
                        v = regs.get(REG64[r][0], N)
                        if v[0] == 'HD':
                            bad = [x for x in v[1] if x not in guarded]
                            if bad:
                                viol[a] = (i, tuple(sorted(bad)))
        newflags = flags
        # ---- vector instructions (AVX2 / AVX-512 match finders): candidates gathered from the hash table, masks broadcast from dist_mask
        vops = [vname(o) for o in ops]
        if any(v is not None for v in vops) and not (mn in ('vmovd', 'vmovq', 'movd', 'movq') and ops and ops[0] in REG64):
            for k, o in enumerate(ops):
                if is_mem(o):
                    m = parse_mem(o)
                    ix = vname(m['index']) if m['index'] else None
                    if ix is not None:
                        v = regs.get(ix, N)
                        if v[0] == 'HD':
                            bad = [x for x in v[1] if x not in guarded]
                            if bad and not (mn.startswith('vpgatherdd') and m['scale'] == 2):
                                viol[a] = (i, tuple(sorted(bad)))
                                nsink += 1
            d = vops[0]
            srcs = ops[1:]
            memsrc_ = [o for o in srcs if is_mem(o)]

            def vty(o):
                if is_mem(o):
                    m = parse_mem(o)
                    if m['disp'] == mask_disp and not m['index'] and m['base'] in REG64 and m['size'] == 4:
                        nmask.add(a)
                        return MASK
                    s_ = ('slot', m['disp']) if m['base'] == 'rsp' and not m['index'] else None
                    return regs.get(s_, N) if s_ else N
                if o in REG64:
                    return regs.get(REG64[o][0], N)
                vn = vname(o)
                return regs.get(vn, N) if vn else N
            if d is not None:
                if mn.startswith(('vpgatherdd', 'vpgatherqd')) and memsrc_ and parse_mem(memsrc_[0])['scale'] == 2:
                    regs[d] = HD([a])
                    nsrc.add(a)
                elif mn.startswith(('vpbroadcast', 'vmovd', 'vmovq', 'vmovdq', 'vmova', 'vmovu', 'movdq', 'vextract', 'vinsert', 'vperm', 'vpshuf', 'vshuf', 'valign', 'vpalign')) and srcs:
                    ts = [vty(o) for o in srcs if not re.match(r'^(0x[0-9a-f]+|\d+)$', o)]
                    t = N
                    for x in ts:
                        t = x if t == N else (jn(t, x) if x != N else t)
                    regs[d] = t
                elif mn in ('vpand', 'vpandd', 'vpandq', 'pand') and len(srcs) >= 1:
                    ts = [vty(o) for o in (srcs if len(srcs) == 2 else [ops[0]] + srcs)]
                    kinds = {t[0] for t in ts}
                    if 'HD' in kinds and 'MASK' in kinds:
                        regs[d] = N
                        nguard.add(a)
                    elif 'HD' in kinds:
                        regs[d] = jn(*[t if t[0] == 'HD' else HD([]) for t in ts]) if len(ts) == 2 else ts[0]
                    elif kinds == {'MASK'}:
                        regs[d] = MASK
                    else:
                        regs[d] = N
                else:
                    ts = [vty(o) for o in srcs if not re.match(r'^(0x[0-9a-f]+|\d+)$', o)]
                    hd = [t for t in ts if t[0] == 'HD']
                    if hd:
                        t = hd[0]
                        for x in hd[1:]:
                            t = jn(t, x)
                        regs[d] = t
                    else:
                        regs[d] = N
            elif ops and is_mem(ops[0]) and len(ops) > 1:
                m = parse_mem(ops[0])
                if m['base'] == 'rsp' and not m['index']:
                    regs[('slot', m['disp'])] = N
            succs = [(n_, frozenset()) for n_ in u.succ(f, a)]
            for n, extra in succs:
                ns = (regs, guarded | extra, flags)
                if n not in IN:
                    IN[n] = ns
                    work.append(n)
                else:
                    oregs, og, ofl = IN[n]
                    nr = {k: jn(oregs.get(k, N), regs.get(k, N)) for k in set(oregs) | set(regs)}
                    ng = og & (guarded | extra)
                    nf = ofl if ofl == flags else None
                    if nr != oregs or ng != og or nf != ofl:
                        IN[n] = (nr, ng, nf)
                        work.append(n)
            continue
        dst = REG64.get(ops[0]) if ops else None
        memsrc = len(ops) > 1 and is_mem(ops[1])

        def slot(o):
            m = parse_mem(o)
            return ('slot', m['disp']) if m['base'] == 'rsp' and not m['index'] else None

        def is_hash_load(o):
            m = parse_mem(o)
            return m['size'] == 2 and m['index'] is not None and m['scale'] == 2
        if mn == 'cmp':
            A = rd(regs, ops[0]) if ops[0] in REG64 else N
            B = rd(regs, ops[1]) if ops[1] in REG64 else N
            for idx, o in enumerate(ops):
                if is_mem(o):
                    s_ = slot(o)
                    v = regs.get(s_, N) if s_ else N
                    pm = parse_mem(o)
                    if pm['disp'] == mask_disp and not pm['index'] and pm['base'] in REG64 and pm['size'] == 4:
                        v = MASK
                    if idx == 0:
                        A = v
                    else:
                        B = v
            if A[0] == 'HD' and B[0] == 'MASK':
                newflags = ('HD<MASK', A[1])
                nguard.add(a)
            elif A[0] == 'MASK' and B[0] == 'HD':
                newflags = ('MASK<HD', B[1])
                nguard.add(a)
            else:
                newflags = None
        elif mn == 'test':
            newflags = None
        elif mn in ('vmovd', 'vmovq', 'movd', 'movq') and dst and len(ops) == 2:
            vn = vname(ops[1])
            regs[dst[0]] = regs.get(vn, N) if vn else N
        elif mn in ('mov', 'movzx', 'movsx', 'movsxd'):
            if dst:
                if memsrc:
                    m = parse_mem(ops[1])
                    if m['disp'] == mask_disp and not m['index'] and m['base'] in REG64 and m['size'] == 4:
                        regs[dst[0]] = MASK
                        nmask.add(a)
                    elif slot(ops[1]):
                        regs[dst[0]] = regs.get(slot(ops[1]), N)
                    elif is_hash_load(ops[1]):
                        regs[dst[0]] = HD([a])
                        nsrc.add(a)
                    else:
                        regs[dst[0]] = N
                elif ops[1] in REG64:
                    v = rd(regs, ops[1])
                    if dst[1] == 16 and mn == 'mov':
                        old = regs.get(dst[0], N)
                        regs[dst[0]] = jn(old, v) if (v[0] == 'HD' or old[0] == 'HD') else N
                    else:
                        regs[dst[0]] = v
                else:
                    regs[dst[0]] = N
            elif ops and is_mem(ops[0]):
                s_ = slot(ops[0])
                if s_ and len(ops) > 1 and ops[1] in REG64:
                    regs[s_] = rd(regs, ops[1])
                elif s_:
                    regs[s_] = N
        elif mn in ('sub', 'add', 'xor', 'or', 'adc', 'sbb') and dst:
            A = regs.get(dst[0], N)
            if memsrc:
                if is_hash_load(ops[1]):
                    B = HD([a])
                    nsrc.add(a)
                elif slot(ops[1]):
                    B = regs.get(slot(ops[1]), N)
                else:
                    B = N
            else:
                B = rd(regs, ops[1]) if ops[1] in REG64 else N
            if mn in ('xor', 'sub') and ops[0] == ops[1]:
                regs[dst[0]] = N
            elif A[0] == 'HD' or B[0] == 'HD':
                regs[dst[0]] = jn(A if A[0] == 'HD' else HD([]), B if B[0] == 'HD' else HD([]))
            else:
                regs[dst[0]] = N
            newflags = None
        elif mn == 'and' and dst:
            A = regs.get(dst[0], N)
            if memsrc:
                pm = parse_mem(ops[1])
                if slot(ops[1]):
                    B = regs.get(slot(ops[1]), N)
                elif pm['disp'] == mask_disp and not pm['index'] and pm['base'] in REG64 and pm['size'] == 4:
                    B = MASK
                else:
                    B = N
            else:
                B = rd(regs, ops[1]) if ops[1] in REG64 else N
            if (A[0] == 'HD' and B[0] == 'MASK') or (A[0] == 'MASK' and B[0] == 'HD'):
                regs[dst[0]] = N
                nguard.add(a)
            elif A[0] == 'HD' and not (len(ops) > 1 and re.match(r'^0x[0-9a-f]+$|^\d+$', ops[1])):
                regs[dst[0]] = A
            elif A[0] == 'HD':
                regs[dst[0]] = A      # masking with a constant is not the window guard
            else:
                regs[dst[0]] = N
            newflags = None
        elif mn in ('neg', 'dec', 'inc', 'not', 'shl', 'shr', 'sar', 'bswap', 'rol', 'ror') and dst:
            newflags = None
        elif mn == 'lea' and dst:
            m = parse_mem(ops[1])
            v = N
            for r in (m['base'], m['index']):
                if r in REG64 and regs.get(REG64[r][0], N)[0] == 'HD':
                    v = jn(v if v[0] == 'HD' else HD([]), regs[REG64[r][0]])
            regs[dst[0]] = v
        elif mn.startswith('cmov') and dst:
            regs[dst[0]] = jn(regs.get(dst[0], N), rd(regs, ops[1]) if ops[1] in REG64 else N)
        elif mn in ('push', 'pop', 'call', 'ret', 'jmp', 'nop', 'endbr64') or mn.startswith('j') or mn.startswith('prefetch'):
            if mn == 'pop' and dst:
                regs[dst[0]] = N
        elif dst and mn not in ('cmp', 'test'):
            regs[dst[0]] = N
            newflags = None
        succs = []
        if mn == 'ret':
            succs = []
        elif mn == 'jmp':
            succs = [(t, frozenset()) for t in u.succ(f, a)]
        elif mn.startswith('j'):
            tk = frozenset()
            ft = frozenset()
            if flags and flags[0] == 'HD<MASK':
                if mn in BELOW:
                    tk = flags[1]
                if mn in ABOVE:
                    ft = flags[1]
            if flags and flags[0] == 'MASK<HD':
                if mn in ABOVE:
                    tk = flags[1]
                if mn in BELOW:
                    ft = flags[1]
            if i.target in f.aset:
                succs.append((i.target, tk))
            if i.end in f.aset:
                succs.append((i.end, ft))
        else:
            if i.end in f.aset:
                succs.append((i.end, frozenset()))
        for n, extra in succs:
            ns = (regs, guarded | extra, newflags)
            if n not in IN:
                IN[n] = ns
                work.append(n)
            else:
                oregs, og, ofl = IN[n]
                keys = set(oregs) | set(regs)
                nr = {}
                for k in keys:
                    nr[k] = jn(oregs.get(k, N), regs.get(k, N))
                ng = og & (guarded | extra)
                nf = ofl if ofl == newflags else None
                if nr != oregs or ng != og or nf != ofl:
                    IN[n] = (nr, ng, nf)
                    work.append(n)
    return dict(sources=nsrc, masks=nmask, guards=nguard, violations=viol)


def check(rep):
    R = rep.rule('R-DISTGUARD-ASM', 'asm match finders (8 scalar kernels, 2 vector kernels with gathers): every value derived from a 16-bit hash-table entry is AND-ed with, or compared against (in-range edge), a value loaded from the dist_mask field before it is used in a memory address', floor=10, unit='kernels')
    res, _ = provenance.analyse('default')
    off = kernels.offsets()['deflate']['_internal_state_dist_mask']
    for sym in SCALAR_KERNELS + VECTOR_KERNELS:
        info = res.get(sym)
        if info is None:
            if os.environ.get('VERIF_SUBRUN') in ('asfeat4', 'asfeat6') and sym.endswith('_06'):
                continue          # the AVX-512 kernels are not assembled at this assembler feature level
            raise AnalysisBroken('asm match finder %s not found' % sym)
        R.instance()
        u, f = info['unit'], info['func']
        r = analyse(u, f, off)
        if not r['sources'] or not r['masks'] or not r['guards']:
            raise AnalysisBroken('%s: expected hash-table loads, dist_mask loads and mask operations (found %d/%d/%d): idiom not recognised' % (sym, len(r['sources']), len(r['masks']), len(r['guards'])))
        if not r['violations']:
            R.ok(len(r['sources']), sample='%s: %d hash loads, %d dist_mask loads, %d mask/compare guards, 0 unguarded uses' % (sym, len(r['sources']), len(r['masks']), len(r['guards'])))
        for a, (i, ids) in sorted(r['violations'].items()):
            R.fail('%s: %s' % (u.name, u.where(i, f)), 'address uses a hash-derived distance (loaded at %s) that was not bounded by dist_mask on this path' % ', '.join('%s+%#x' % (sym, x - f.entry) for x in ids),
                   key='R-DISTGUARD-ASM|%s|%#x' % (sym, a - f.entry))
