"""C12 - GF(2^8) scalar arithmetic and multiplication tables are a correct field.
Decided: all constant tables (exhaustive) and the table expansion gf_vect_mul_init for
all c at once (GF(2)-linear abstract interpretation), both preprocessor branches."""
import re
import struct, os
from common import Report, AnalysisBroken, run, REPO
import cbuild, srcset, gf2, gf2lin
from elf import Elf

UNDECIDED = ('control flow of gf_mul/gf_inv beyond the index bound (zero test, operand order); '
             'use of the tables by the assembly kernels (see C03/C13)')


def _tables(rep, config):
    objs = cbuild.objs(config, ['erasure_code/ec_base.c', 'erasure_code/ec_highlevel_func.c'])
    eb = Elf(objs['erasure_code/ec_base.c'])
    eh = Elf(objs['erasure_code/ec_highlevel_func.c'])
    mul = [[gf2.gfmul(a, b) for b in range(256)] for a in range(256)]
    R = rep.rule('T-GF[%s]' % config, 'every cell of the GF(2^8) constant tables equals the field defined by 0x11D', floor=2, unit='tables')
    if config == 'default':
        gff = eb.symbytes('gff_base')
        glog = eb.symbytes('gflog_base')
        if gff is None or glog is None:
            raise AnalysisBroken('gff_base/gflog_base not found in ec_base.o [default]')
        R.instance(2)
        if len(gff) < 255 or len(glog) < 256:
            raise AnalysisBroken('gff_base/gflog_base shorter than 255/256 entries')
        p = 1
        for i in range(len(gff)):  # includes the wrap entry gff[255] = 2^255 = 1 that log(1)=255 relies on
            R.check(gff[i] == p, 'erasure_code/ec_base.h:gff_base[%d]' % i, 'antilog entry %#x, field says 2^%d = %#x' % (gff[i], i, p),
                    sample='gff_base[%d]=%#x == 2^%d' % (i, p, i))
            p = gf2.gfmul(p, 2)
        for a in range(1, 256):
            ok = glog[a] < len(gff) and gff[glog[a]] == a
            R.check(ok, 'erasure_code/ec_base.h:gflog_base[%d]' % a, 'log entry %d does not invert the antilog table' % glog[a])
        # interval rule on the two indexed reads of gf_mul / gf_inv
        G = rep.rule('G-GFMUL-IDX', 'index ranges of gf_mul/gf_inv reads derived from table extrema stay inside gff_base', floor=1, unit='index expressions')
        G.instance(2)
        lo, hi = min(glog[1:]), max(glog[1:])
        # i = log a + log b in [2lo, 2hi]; i > 254 ? i-255 : i
        s_hi = 2 * hi
        idx_hi = max(min(s_hi, 254), s_hi - 255)
        G.check(0 <= 2 * lo and idx_hi < len(gff), 'erasure_code/ec_base.c:gf_mul', 'index upper bound %d >= sizeof gff_base %d' % (idx_hi, len(gff)),
                sample='gflog in [%d,%d] => gf_mul index in [0,%d] < %d' % (lo, hi, idx_hi, len(gff)))
        G.check(0 <= 255 - hi and 255 - lo < len(gff), 'erasure_code/ec_base.c:gf_inv', 'index 255-log out of [0,%d)' % len(gff),
                sample='gf_inv index in [%d,%d]' % (255 - hi, 255 - lo))
    elif config == 'gflarge':
        mt = eb.symbytes('gf_mul_table_base')
        it = eb.symbytes('gf_inv_table_base')
        if mt is None or it is None:
            raise AnalysisBroken('gf_mul_table_base/gf_inv_table_base not found in ec_base.o [gflarge]')
        R.instance(2)
        if len(mt) < 65536 or len(it) < 256:
            raise AnalysisBroken('large tables shorter than expected')
        bad = 0
        for b in range(256):
            row = mul[b]
            for a in range(256):
                if mt[b * 256 + a] != row[a]:
                    R.fail('erasure_code/ec_base.h:gf_mul_table_base[%d*256+%d]' % (b, a), 'cell %#x, field product %#x' % (mt[b * 256 + a], row[a]))
                    bad += 1
        R.ok(65536 - bad, sample='gf_mul_table_base[0x53*256+0xca]=%#x' % mt[0x53 * 256 + 0xca])
        R.check(it[0] == 0, 'erasure_code/ec_base.h:gf_inv_table_base[0]', 'inverse of 0 documented as 0')
        for a in range(1, 256):
            R.check(mul[a][it[a]] == 1, 'erasure_code/ec_base.h:gf_inv_table_base[%d]' % a, 'a*inv(a) = %#x != 1' % mul[a][it[a]])
    # GFNI affine matrices (same in both configs, but re-read from each build)
    gt = eh.symbytes('gf_table_gfni')
    if gt is None:
        raise AnalysisBroken('gf_table_gfni not found in ec_highlevel_func.o')
    Rg = rep.rule('T-GFNI[%s]' % config, 'gf_table_gfni[c] is the 8x8 bit matrix of y -> c*y in vgf2p8affineqb operand order', floor=1, unit='tables')
    Rg.instance(1)
    vals = struct.unpack('<256Q', gt[:2048])
    for c in range(256):
        # SDM: dst.bit[i] = parity(A.byte[7-i] AND x) ; we need bit i of c*x = XOR_j x_j * bit_i(c*2^j)
        exp = 0
        for i in range(8):
            rowmask = 0
            for j in range(8):
                if (mul[c][1 << j] >> i) & 1:
                    rowmask |= 1 << j
            exp |= rowmask << (8 * (7 - i))
        Rg.check(vals[c] == exp, 'erasure_code/ec_base.h:gf_table_gfni[%d]' % c, 'matrix %#018x, field says %#018x' % (vals[c], exp),
                 sample='gf_table_gfni[%d]=%#018x' % (c, exp) if c in (2, 0x1d) else None)


def _gfmul_eval(rep, config):
    """The tables being right does not make gf_mul / gf_inv right: the functions index them, special-case zero, and may take short cuts.  Both are pure functions of two
    (one) bytes, so the compiled IR is interpreted for EVERY operand pair, with the table reads answered from the tables of the same build."""
    import llir, constinterp, cbuild
    mod = llir.library(config)
    eb = Elf(cbuild.objs(config, ['erasure_code/ec_base.c'])['erasure_code/ec_base.c'])
    R = rep.rule('T-GFMUL-EVAL[%s]' % config, 'gf_mul(a, b) and gf_inv(a) as compiled in this configuration, interpreted (constant interpretation of the IR, loads from the constant tables answered from the object '
                 'file) for all 65536 / 256 operand values: gf_mul equals the carry-less product reduced by 0x11D, gf_inv(0) = 0 and a * gf_inv(a) = 1', floor=2, unit='functions')
    tabs = {}
    for name in ('gff_base', 'gflog_base', 'gf_mul_table_base', 'gf_inv_table_base'):
        b = eb.symbytes(name)
        if b is not None:
            tabs['@' + name] = b
    for fn, nargs in (('gf_mul', 2), ('gf_inv', 1)):
        f = mod.funcs.get(fn)
        if f is None:
            raise AnalysisBroken('%s not found [%s]' % (fn, config))
        R.instance()
        names = [n for _, n in f.params]
        res = {}
        cur = {}

        class IP(constinterp.Interp):
            def exec(self, i, env):
                if i.op == 'getelementptr' and i.ops and i.ops[0] in tabs:
                    idx = [x.split()[-1] for x in i.extra.get('idx', [])]
                    v = self.val(idx[-1], env)
                    env[i.dst] = ('tab', i.ops[0], v)
                    return
                if i.op == 'load' and isinstance(env.get(i.ops[0]), tuple):
                    _, t, k = env[i.ops[0]]
                    if k == constinterp.TOP or not (0 <= k < len(tabs[t])):
                        res['oob'] = (t, k)
                        env[i.dst] = constinterp.TOP
                    else:
                        env[i.dst] = tabs[t][k]
                    return
                return super().exec(i, env)

        def obs(i, env, ip):
            if i.op == 'ret':
                res['r'] = ip.val(i.ops[-1].split()[-1], env)
        bad = None
        rng = [(a, b) for a in range(256) for b in range(256)] if nargs == 2 else [(a,) for a in range(256)]
        for args in rng:
            res.clear()
            IP(mod, f, obs, params=dict(zip(names, args))).run()
            r = res.get('r')
            if 'oob' in res or r in (None, constinterp.TOP):
                bad = (args, 'not evaluable' if 'oob' not in res else 'table index %s out of range' % (res['oob'],))
                break
            r &= 0xff
            if nargs == 2:
                want = gf2.gfmul(args[0], args[1])
                if r != want:
                    bad = (args, 'returns %#04x, the field product is %#04x' % (r, want))
                    break
            else:
                a = args[0]
                if (a == 0 and r != 0) or (a != 0 and gf2.gfmul(a, r) != 1):
                    bad = (args, 'returns %#04x: a * inv(a) = %#04x' % (r, gf2.gfmul(a, r)))
                    break
        R.check(bad is None, mod.where(f, None), '%s%s %s in the %s build: scalar field arithmetic (matrix generation, inversion, table expansion) is wrong for this operand although every table cell is right'
                % ((fn, bad[0], bad[1], config) if bad else (fn, '', '', config)), key='T-GFMUL-EVAL|%s|%s' % (config, fn), sample='%s [%s]: all %d operand values' % (fn, config, len(rng)))


def _gfinit(rep, branch):
    """gf_vect_mul_init: 32 linear maps c -> tbl[j] against the field"""
    R = rep.rule('L-GFINIT[%s]' % branch, 'gf_vect_mul_init writes tbl[j]=c*j (j<16), tbl[16+j]=c*16j for all c (GF(2)-linear abstract interpretation)', floor=1, unit='functions')
    extra = []
    tag = ''
    if branch == 'bytewise':
        # select the #else (32-bit / big-endian) branch of the function, never compiled on this host
        extra = ['-U__BYTE_ORDER__', '-D__BYTE_ORDER__=__ORDER_BIG_ENDIAN__']
        tag = '-be'
    ss = srcset.get()
    d = cbuild.workdir()
    out = os.path.join(d, 'ec_base-gfinit%s.ll' % tag)
    run(['clang'] + ss.c_flags() + ['-w', '-O1', '-S', '-emit-llvm', '-fno-vectorize', '-fno-slp-vectorize'] + extra + ['-o', out, os.path.join(REPO, 'erasure_code/ec_base.c')])
    fn = gf2lin.extract_function(open(out).read(), 'gf_vect_mul_init')
    if fn is None:
        raise AnalysisBroken('gf_vect_mul_init not found in IR of ec_base.c')
    R.instance(1)
    mem, L = gf2lin.interpret(fn[0], fn[1], {0: 8})
    nstores = len({(k[0], k[1]) for k in mem})
    R.notes.append('%d distinct bytes stored; branch=%s' % (nstores, branch))
    for j in range(32):
        k = j if j < 16 else 16 * (j - 16)
        for b in range(8):
            # expected form: XOR over input bits i with bit b of (2^i * k)
            exp = 0
            for i in range(8):
                if (gf2.gfmul(1 << i, k) >> b) & 1:
                    exp |= 1 << i
            got = mem.get((1, j, b), 'unwritten')
            where = 'erasure_code/ec_base.c:gf_vect_mul_init tbl[%d] bit %d (%s branch)' % (j, b, branch)
            if got == 'unwritten':
                R.fail(where, 'table byte never written', key='L-GFINIT|%s|tbl[%d]' % (branch, j))
            elif got is None:
                R.fail(where, 'value is not provably GF(2)-linear in c (abstract value TOP)', key='L-GFINIT|%s|tbl[%d]' % (branch, j))
            else:
                R.check(got == exp, where, 'linear form over c bits is %#x, field multiplication by %#x needs %#x' % (got, k, exp),
                        key='L-GFINIT|%s|tbl[%d]' % (branch, j),
                        sample='tbl[%d] bit %d = parity(c & %#x)' % (j, b, exp) if (j, b) in ((3, 0), (20, 7)) else None)
    extra_bytes = sorted({k[1] for k in mem if k[0] == 1 and not 0 <= k[1] < 32} | {k[1] for k in mem if k[0] != 1})
    R.check(not extra_bytes, 'erasure_code/ec_base.c:gf_vect_mul_init', 'stores outside tbl[0..31]: offsets %s' % extra_bytes[:8])


def _table_writers(rep):
    """W-TBL-EVERY: the coefficient-table builders write one table per coefficient, whatever the coefficient is (0 included: a
    skipped slot keeps what the caller's buffer held before)."""
    import llir, irrules
    R = rep.rule('W-TBL-EVERY', 'ec_init_tables_base / ec_init_tables_gfni: in the innermost coefficient loop the table write (gf_vect_mul_init call / 8-byte store through the g_tbls cursor) '
                 'is executed on every iteration - its block dominates every latch of the loop - and the cursor advances by exactly one table per iteration', floor=2, unit='builders')
    mod = llir.library('default')
    for fn, stride in (('ec_init_tables_base', 32), ('ec_init_tables_gfni', 8)):
        f = mod.funcs.get(fn)
        if f is None:
            raise AnalysisBroken(fn + ' not found')
        R.instance()
        P = irrules.prov(mod, f)
        writers = []
        for i in f.all_insns():
            if i.op == 'store' and any(a[0] == 'param' and a[1] == 3 for a in P.atoms(i.ops[1])):
                writers.append(i)
            if i.op == 'call' and re.sub(r'\.\d+$', '', i.callee) == 'gf_vect_mul_init' and any(a[0] == 'param' and a[1] == 3 for a in P.atoms(i.args[1][1])):
                writers.append(i)
        if not writers:
            raise AnalysisBroken('%s: no write through g_tbls found' % fn)
        loops = irrules.natural_loops(f)
        for w in writers:
            inl = [(h, body) for h, body in loops.items() if w.block in body]
            if not inl:
                raise AnalysisBroken('%s: table write is not inside a loop' % fn)
            h, body = min(inl, key=lambda hb: len(hb[1]))
            latches = [p_ for p_ in f.blocks[h].preds if p_ in body]
            R.check(all(f.dominates(w.block, l) for l in latches), mod.where(f, w), '%s: the table write does not execute on every iteration of the coefficient loop (it does not dominate the loop latch %s): '
                    'for the skipped coefficients the slot keeps the previous contents of g_tbls' % (fn, latches), key='W-TBL-EVERY|%s|dom' % fn, sample='%s: table write dominates the latch' % fn)
        # the cursor: a phi at the innermost header over param 3, advanced by `stride` bytes on the latch edge
        w = writers[0]
        h, body = min([(h, b) for h, b in loops.items() if w.block in b], key=lambda hb: len(hb[1]))
        adv = None
        for i in f.blocks[h].insns:
            if i.op != 'phi':
                break
            if not any(a[0] == 'param' and a[1] == 3 for a in P.atoms(i.dst)):
                continue
            for v, pb in i.extra['incoming']:
                if pb in body:
                    d = f.defs.get(v)
                    if d is not None and d.op == 'getelementptr' and d.ops[0] == i.dst:
                        adv = mod.types.gep_offset(d.extra['basety'], d.extra['idx'])
                        adv = adv[0] if isinstance(adv, tuple) else adv
        R.check(adv == stride, mod.where(f, w), '%s: the table cursor advances by %s bytes per coefficient, the table format needs %d' % (fn, adv, stride), key='W-TBL-EVERY|%s|stride' % fn,
                sample='%s: cursor += %d per coefficient' % (fn, stride))


def check_log_zero(rep):
    """zero has no logarithm: gflog_base[0] is a filler, so every read of the log table must happen where its index is known to be non-zero"""
    import llir, irrules
    mod = llir.library('default')
    R = rep.rule('L-LOG-ZERO', 'every load from the logarithm table gflog_base, in any function of the library, is dominated by a branch that excludes index 0 (log 0 does not exist; the table entry is a filler, and a product '
                 'computed from it is wrong for the operand 0)', floor=3, unit='log-table reads')
    for fn, f in sorted(mod.funcs.items()):
        P = irrules.prov(mod, f)
        for i in f.all_insns():
            if i.op != 'load' or not any(a[0] == 'global' and a[1] == 'gflog_base' for a in P.atoms(i.ops[0])):
                continue
            R.instance()
            d = f.defs.get(i.ops[0])
            idx = d.extra['idx'][-1].split()[-1] if d is not None and d.op == 'getelementptr' else None
            cons = irrules.edge_constraints(f, idx, i.block) if idx else []
            ok = any((p == 'ne' and c == 0) or (p in ('ugt', 'sgt') and c >= 0) or (p in ('uge', 'sge') and c >= 1) for p, c in cons)
            R.check(ok, mod.where(f, i), '%s reads gflog_base[x] where x may be 0: the filler entry is used as log(0), so a multiplication by 0 does not give 0' % fn, key='L-LOG-ZERO|%s|%d' % (fn, i.line or 0),
                    sample='%s: index != 0' % fn)


def main(tier):
    rep = Report('C12', tier, level='proof')
    rep.undecided = UNDECIDED
    rep.explanation = ('Exhaustive exact comparison of every GF(2^8) constant table of the current tree (default and GF_LARGE_TABLES builds) with '
                       'carry-less multiplication mod 0x11D computed by the checker, and an abstract interpretation of gf_vect_mul_init in a '
                       'GF(2)-linear domain that decides the table expansion for all 256 coefficients at once, in both preprocessor branches; gf_mul / gf_inv as compiled in both builds are interpreted at IR level for every operand value. '
                       'Nothing of the library is executed.')
    rep.trusted = ['clang 14 front end (constant initialisers, -O1 IR of gf_vect_mul_init)', 'checker reference gf2.py (clmul mod 0x11D)',
                   'Intel SDM definition of GF2P8AFFINEQB bit order']
    rep.analysed = dict(units=['erasure_code/ec_base.c', 'erasure_code/ec_highlevel_func.c', 'erasure_code/ec_base.h'],
                        configurations=['default', 'gflarge'], functions=['gf_vect_mul_init (64-bit branch)', 'gf_vect_mul_init (bytewise branch)', 'gf_mul', 'gf_inv'])
    rep.attempt(_tables, rep, 'default')
    rep.attempt(_tables, rep, 'gflarge')
    rep.attempt(_gfmul_eval, rep, 'default')
    rep.attempt(_gfmul_eval, rep, 'gflarge')
    rep.attempt(_table_writers, rep)
    rep.attempt(_gfinit, rep, 'word64')
    rep.attempt(_gfinit, rep, 'bytewise')
    rep.attempt(check_log_zero, rep)
    import c16
    rep.attempt(c16.check_tablefmt, rep)      # "the 32-byte table expansion of every constant" is what the selected consumers read only if builder and consumer are selected together
    return rep.finish()
